import argparse
import importlib
import json
import os
import sys
import time
import traceback
from pathlib import Path

sys.path.insert(0, str(Path(__file__).resolve().parents[1]))
from vlib import core, coqbuild  # noqa


def setup():
    """MANIFEST.setup_cmd: regenerate coq/gen from /repo and build every Coq file that builds.

    A file that does not build is reported but does not fail the setup: the check of the property whose
    cone contains it rebuilds that cone itself and reports the broken obligation (with the search for a
    failing input) - a broken proof in one property must not keep the other nineteen checks from running."""
    sys.path.insert(0, str(core.VERIF / 'translate'))
    import regen
    try:
        info = regen.regenerate(core.REPO)
        print('regenerated:', info)
    except Exception as e:
        print('WARNING: translation reported:', e)
    targets = [f for f in coqbuild.all_v_files()]
    res = coqbuild.build(targets)
    print('built %d files (%d compiled) in %.1fs' % (len(res.files), len(res.compiled), res.seconds))
    bad = [f for f, tail in res.failed]
    for f, tail in res.failed:
        print('NOT BUILT', f, '\n', tail[-1500:])
    probs = coqbuild.lint(res.files)
    for p in probs:
        print('LINT', p)
    ok_files = len(res.files) - len(bad)
    print('setup: %d of %d Coq files built, %d lint findings' % (ok_files, len(res.files), len(probs)))
    return 0 if ok_files > 0 else 1


def main():
    ap = argparse.ArgumentParser()
    ap.add_argument('prop', nargs='?')
    ap.add_argument('--tier', default=os.environ.get('VERIF_TIER', 'quick'))
    ap.add_argument('--replay')
    ap.add_argument('--setup', action='store_true')
    a = ap.parse_args()
    if a.setup:
        sys.exit(setup())
    seed = int(os.environ.get('VERIF_SEED', '20260925'))
    tier = a.tier if a.tier in ('quick', 'thorough') else 'quick'
    mod = importlib.import_module(a.prop.lower())
    ctx = core.Ctx(a.prop, tier, seed, level=getattr(mod, 'LEVEL', 'proof'))
    if a.replay:
        ctx.replay = json.loads(Path(a.replay).read_text())
        if hasattr(mod, 'replay'):
            sys.exit(mod.replay(ctx, ctx.replay))
        print('no replay function for', a.prop)
        sys.exit(2)
    try:
        mod.run(ctx)
    except Exception as e:  # a crashing harness must never look like a pass
        traceback.print_exc()
        ctx.broken.append({'kind': 'correspondence', 'name': 'harness/%s.py' % a.prop.lower(),
                           'detail': 'harness raised: ' + ''.join(traceback.format_exception_only(type(e), e)).strip(),
                           'candidates': []})
    sys.exit(ctx.finish())


if __name__ == '__main__':
    main()
