"""Printers from Python values to Coq terms (scope-annotated so mixed literals parse)."""


def z(n):
    n = int(n)
    return '(%d)%%Z' % n if n < 0 else '%d%%Z' % n


def nat(n):
    assert 0 <= int(n) < 5000, 'nat literal too large: %r' % n
    return '%d%%nat' % int(n)


def boolean(b):
    return 'true' if b else 'false'


def byts(bs):
    """bytes -> list Z literal."""
    return '[' + ';'.join(str(b) for b in bytes(bs)) + ']%Z'


def string(s):
    """Coq string literal; printable ASCII only, `"` doubled."""
    for ch in s:
        if not (32 <= ord(ch) < 127):
            raise ValueError('non printable-ASCII character in Coq string literal: %r' % s)
    return '"' + s.replace('"', '""') + '"%string'


def option(x, pr):
    return 'None' if x is None else '(Some %s)' % pr(x)


def lst(xs, pr):
    return '[' + '; '.join(pr(x) for x in xs) + ']'


def pair(a, b):
    return '(%s, %s)' % (a, b)


def ctor(name, *args):
    return '(' + ' '.join([name] + list(args)) + ')' if args else name
