"""Minimal dependency-driven Coq builder (full .vo builds, never -vos).

Why not `make`: several checks may run at once and each must rebuild only the
cone of its own property file, so that a broken proof in one corner does not
alarm the other checks.  Each file is compiled by plain `coqc` under a per-file
lock and a shell-level timeout; coqc's stdout (the `Print Assumptions` output)
is kept beside the .vo as <file>.vlog so that evidence can quote it even when
the .vo was already up to date.

A conventional `coq_makefile` build of exactly the same file set is available
through `bin/check --make` (used to cross-check this builder; not needed by the
checks).
"""
import fcntl
import hashlib
import os
import re
import subprocess
import time
from concurrent.futures import ThreadPoolExecutor, wait, FIRST_COMPLETED
from pathlib import Path

VERIF = Path(__file__).resolve().parents[2]
COQ = VERIF / 'coq'
QFLAGS = ['-Q', 'theories', 'PK', '-Q', 'gen', 'PKGen', '-Q', 'props', 'PKProps']
COQC_TIMEOUT = int(os.environ.get('VERIF_COQC_TIMEOUT', '900'))


def all_v_files():
    out = []
    for sub in ('theories', 'gen', 'props'):
        out += sorted(str(p.relative_to(COQ)) for p in (COQ / sub).rglob('*.v'))
    return out


def write_coqproject():
    txt = ' '.join(QFLAGS[i] + ' ' + QFLAGS[i + 1] + ' ' + QFLAGS[i + 2]
                   for i in range(0, len(QFLAGS), 3)).replace('  ', ' ')
    lines = ['-Q theories PK', '-Q gen PKGen', '-Q props PKProps'] + all_v_files()
    new = '\n'.join(lines) + '\n'
    p = COQ / '_CoqProject'
    if not p.exists() or p.read_text() != new:
        p.write_text(new)


def coqdep():
    """-> dict file.v -> list of file.v it depends on (within the project)."""
    files = all_v_files()
    r = subprocess.run(['coqdep'] + QFLAGS + files, cwd=COQ, capture_output=True, text=True)
    deps = {f: [] for f in files}
    for line in r.stdout.splitlines():
        if ':' not in line:
            continue
        lhs, rhs = line.split(':', 1)
        tgt = lhs.split()[0]
        if not tgt.endswith('.vo'):
            continue
        src = tgt[:-1]
        if src not in deps:
            continue
        for d in rhs.split():
            if d.endswith('.vo') and d[:-1] in deps and d[:-1] != src:
                deps[src].append(d[:-1])
    return deps


def cone(deps, targets):
    seen, order = set(), []

    def visit(f):
        if f in seen:
            return
        seen.add(f)
        for d in deps.get(f, []):
            visit(d)
        order.append(f)
    for t in targets:
        visit(t)
    return order


def _sha(path):
    return hashlib.sha256(Path(path).read_bytes()).hexdigest()


def _stamp(f, deps):
    """Content stamp of a source and the stamps of its dependencies' .vo."""
    h = hashlib.sha256()
    h.update(_sha(COQ / f).encode())
    for d in sorted(deps[f]):
        s = COQ / (d + 'o.stamp')
        h.update((s.read_text() if s.exists() else 'missing:' + d).encode())
    return h.hexdigest()


def _compile(f, deps):
    """Compile one file if needed. -> (ok, compiled?, seconds, log_tail)."""
    src = COQ / f
    vo = COQ / (f + 'o')
    stampf = COQ / (f + 'o.stamp')
    logf = COQ / (f[:-2] + '.vlog')
    lock = open(str(src) + '.lock', 'w')
    fcntl.flock(lock, fcntl.LOCK_EX)
    try:
        want = _stamp(f, deps)
        if vo.exists() and stampf.exists() and stampf.read_text() == want and logf.exists():
            return True, False, 0.0, ''
        t0 = time.time()
        for stale in (vo, stampf):
            if stale.exists():
                stale.unlink()
        r = subprocess.run(['timeout', str(COQC_TIMEOUT), 'coqc', '-q'] + QFLAGS + [f],
                           cwd=COQ, capture_output=True, text=True)
        dt = time.time() - t0
        logf.write_text(r.stdout + ('\n--- stderr ---\n' + r.stderr if r.stderr.strip() else ''))
        if r.returncode != 0 or not vo.exists():
            return False, True, dt, (r.stderr or r.stdout)[-4000:]
        stampf.write_text(want)
        return True, True, dt, ''
    finally:
        fcntl.flock(lock, fcntl.LOCK_UN)
        lock.close()


class BuildResult:
    def __init__(self):
        self.ok = True
        self.failed = []          # [(file, log_tail)]
        self.compiled = []        # files compiled in this run
        self.files = []           # the cone, in dependency order
        self.seconds = 0.0

    def log_of(self, f):
        p = COQ / (f[:-2] + '.vlog')
        return p.read_text() if p.exists() else ''


def build(targets, jobs=16, _retry=True):
    """Build the cones of `targets` (paths relative to coq/, e.g. props/C01.v)."""
    res = _build(targets, jobs)
    if (not res.ok and _retry and
            any('inconsistent assumptions' in tail or 'Can\'t open' in tail or 'Bad magic' in tail for _, tail in res.failed)):
        # a .vo of the cone was produced by a concurrent run against other generated files: rebuild the cone once
        for f in res.files:
            for ext in ('o', 'o.stamp'):
                q = COQ / (f + ext)
                if q.exists():
                    try:
                        q.unlink()
                    except OSError:
                        pass
        res = _build(targets, jobs)
    return res


def _build(targets, jobs=16):
    t0 = time.time()
    write_coqproject()
    deps = coqdep()
    res = BuildResult()
    for t in targets:
        if t not in deps:
            res.ok = False
            res.failed.append((t, 'no such file'))
            return res
    order = cone(deps, targets)
    res.files = order
    done, failed = set(), set()
    pending = list(order)
    running = {}
    with ThreadPoolExecutor(max_workers=jobs) as ex:
        while pending or running:
            started = False
            for f in list(pending):
                ds = deps[f]
                if any(d in failed for d in ds):
                    failed.add(f)
                    pending.remove(f)
                    res.failed.append((f, 'dependency failed'))
                    continue
                if all(d in done for d in ds):
                    pending.remove(f)
                    running[ex.submit(_compile, f, deps)] = f
                    started = True
            if not running:
                if not started:
                    break
                continue
            fin, _ = wait(list(running), return_when=FIRST_COMPLETED)
            for fu in fin:
                f = running.pop(fu)
                ok, compiled, dt, tail = fu.result()
                if compiled:
                    res.compiled.append(f)
                if ok:
                    done.add(f)
                else:
                    failed.add(f)
                    res.failed.append((f, tail))
    res.ok = not res.failed
    res.seconds = time.time() - t0
    return res


OBLIG_RE = re.compile(r'^\s*(?:Local\s+|Global\s+|#\[[^\]]*\]\s*)*(Theorem|Lemma|Corollary|Example|Fact|Proposition|Remark)\s+([A-Za-z_][A-Za-z0-9_\']*)', re.M)
FORBIDDEN_RE = re.compile(r'\b(Admitted|admit|Axiom|Axioms|Parameter|Parameters|Conjecture|Conjectures|Hypothesis|Hypotheses|Variable|Variables|Abort)\b|Unset\s+Guard|bypass_check|Admit\s+Obligations|type-in-type|impredicative-set|Unset\s+Universe\s+Checking|Unset\s+Positivity')


def strip_comments(s):
    out, depth, i = [], 0, 0
    while i < len(s):
        if s.startswith('(*', i):
            depth += 1
            i += 2
        elif s.startswith('*)', i) and depth:
            depth -= 1
            i += 2
        else:
            if depth == 0:
                out.append(s[i])
            i += 1
    return ''.join(out)


def lint(files):
    """Forbidden constructs in the given .v files (Variable/Hypothesis are allowed inside Sections only)."""
    problems = []
    for f in files:
        txt = strip_comments((COQ / f).read_text())
        # remove string literals
        txt = re.sub(r'"[^"]*"', '""', txt)
        depth = 0
        for ln, line in enumerate(txt.splitlines(), 1):
            if re.match(r'\s*Section\b', line):
                depth += 1
            m = FORBIDDEN_RE.search(line)
            if m:
                w = m.group(0)
                if w.split()[0] in ('Variable', 'Variables', 'Hypothesis', 'Hypotheses') and depth > 0:
                    pass
                else:
                    problems.append('%s:%d: forbidden construct %r' % (f, ln, w))
            if re.match(r'\s*End\b', line) and depth > 0:
                # may also close a Module; Sections and Modules nest properly so this is conservative enough
                depth -= 1
    return problems


def obligations(files):
    """Names of all stated lemmas/theorems in the given files."""
    out = []
    for f in files:
        txt = strip_comments((COQ / f).read_text())
        for m in OBLIG_RE.finditer(txt):
            out.append((f, m.group(2)))
    return out


def assumptions_from_log(log):
    """Parse `Print Assumptions` output blocks -> list of (summary strings)."""
    out = []
    lines = log.splitlines()
    i = 0
    while i < len(lines):
        if lines[i].startswith('Closed under the global context'):
            out.append('Closed under the global context')
        elif lines[i].startswith('Axioms:'):
            blk = []
            i += 1
            while i < len(lines) and lines[i].strip() and not lines[i].startswith(('Closed under', 'Axioms:', '---')):
                blk.append(lines[i].rstrip())
                i += 1
            out.append('Axioms: ' + ' '.join(x.strip() for x in blk))
            continue
        i += 1
    return out


def run_coqc_text(path, timeout=600):
    """Compile a scratch .v file (outside the project tree) -> (rc, stdout, stderr)."""
    path = Path(path)
    flags = []
    for i in range(0, len(QFLAGS), 3):
        flags += ['-Q', str(COQ / QFLAGS[i + 1]), QFLAGS[i + 2]]
    r = subprocess.run(['timeout', str(timeout), 'coqc', '-q'] + flags + [path.name],
                       cwd=path.parent, capture_output=True, text=True)
    return r.returncode, r.stdout, r.stderr
