"""Check context shared by every property harness (see DESIGN.md sections 2 and 4).

A harness module `harness/cNN.py` defines `run(ctx)`.  It calls, in order,
  ctx.regen()                      regenerate coq/gen/*.v from /repo (tie T)
  ctx.prove('props/CNN.v')         build the property's proof cone (kernel-checked)
  ctx.run_cases(...)               correspondence: Coq compares model and implementation (tie K)
  ctx.violation(...)               direct-oracle hits (property evaluated on the implementation alone)
and returns; `finish()` applies the violation protocol and writes the evidence.
"""
import hashlib
import json
import os
import random
import re
import shutil
import sys
import time
import traceback
from collections import Counter
from pathlib import Path

from . import coqbuild

VERIF = Path(__file__).resolve().parents[2]
REPO = Path(os.environ.get('VERIF_REPO', '/repo'))


def load_findings():
    """Known findings: the committed per-property files findings.d/*.json (known_findings.json is their
    merged copy, written by bin/mkmanifest; never written at run time)."""
    d = VERIF / 'findings.d'
    out = []
    if d.is_dir():
        for f in sorted(d.glob('*.json')):
            out += json.loads(f.read_text())
        return out
    p = VERIF / 'known_findings.json'
    return json.loads(p.read_text()) if p.exists() else []


def sig_matches(sig, obs):
    """Every key of the listed signature must be present and equal in the observed one."""
    return all(k in obs and obs[k] == v for k, v in sig.items())


class Ctx:
    def __init__(self, prop, tier, seed, level='proof'):
        self.prop = prop
        self.tier = tier
        self.seed = seed
        self.level = level
        self.rng = random.Random(seed)
        self.t0 = time.time()
        # one scratch directory per run (two runs of the same check must not wipe each other's files);
        # directories left behind by runs that died (their process no longer exists) are removed
        wroot = VERIF / 'work'
        wroot.mkdir(exist_ok=True)
        for old in wroot.glob(prop + '-*'):
            try:
                pid = old.name.rsplit('-', 1)[1]
                if pid.isdigit() and not os.path.exists('/proc/' + pid):     # the run that owned it is gone
                    shutil.rmtree(old, ignore_errors=True)
            except (OSError, IndexError):
                pass
        self.work = wroot / ('%s-%d' % (prop, os.getpid()))
        if self.work.exists():
            shutil.rmtree(self.work, ignore_errors=True)
        self.work.mkdir(parents=True, exist_ok=True)
        self.repo = REPO
        self.findings = [f for f in load_findings() if f.get('property') == prop]
        # bookkeeping
        self.broken = []            # [{kind:'obligation'|'correspondence'|'translation', name, detail, candidates}]
        self.violations = []        # concrete failing inputs not covered by a known finding
        self.known_hits = {}        # finding id -> first witness
        self.cov = {'evaluations': 0, 'distinct_nontrivial': 0, 'rule': '', 'samples': [],
                    'obligations': 0, 'discharged': 0, 'checker_cmd': '', 'trusted_base': [],
                    'distribution': {}, 'correspondences': {}}
        self.assumptions = []
        self._distinct = set()
        self.dist = Counter()
        self.notes = []
        self.thm_names = []

    # ------------------------------------------------------------------ utilities
    def log(self, *a):
        print('[%s %6.1fs]' % (self.prop, time.time() - self.t0), *a, flush=True)

    def subrng(self, name):
        h = int(hashlib.sha256(('%d/%s' % (self.seed, name)).encode()).hexdigest()[:16], 16)
        return random.Random(h)

    def count(self, key, n=1):
        self.dist[key] += n

    def sample(self, s, limit=5):
        if len(self.cov['samples']) < limit:
            self.cov['samples'].append(s)

    def case_seen(self, canon, nontrivial=True):
        """Register one evaluated case; returns True when it is new."""
        self.cov['evaluations'] += 1
        if not nontrivial:
            return False
        h = hashlib.sha1(repr(canon).encode()).digest()[:10]
        if h in self._distinct:
            return False
        self._distinct.add(h)
        return True

    # ------------------------------------------------------------------ tie T + proofs
    def regen(self, only=None):
        """Re-translate /repo into coq/gen/*.v; a translation failure is a broken tie."""
        sys.path.insert(0, str(VERIF / 'translate'))
        import regen  # noqa
        try:
            info = regen.regenerate(self.repo, only)
            self.cov['translated'] = info
        except Exception as e:  # fail closed
            self.log('translation failed:', e)
            self.broken.append({'kind': 'translation', 'name': 'translate/regen.py',
                                'detail': ''.join(traceback.format_exception_only(type(e), e)).strip()[-2000:],
                                'candidates': []})
            return False
        return True

    def prove(self, target, extra_targets=()):
        """Build the cone of props/<target>; count obligations; collect Print Assumptions."""
        targets = [target] + list(extra_targets)
        res = coqbuild.build(targets)
        cone = res.files
        mine = [f for f in cone]
        probs = coqbuild.lint(mine) if cone else []
        obl = coqbuild.obligations(mine) if cone else []
        self.cov['obligations'] = len(obl)
        failed_files = {f for f, _ in res.failed}
        self.cov['discharged'] = len([1 for f, _ in obl if f not in failed_files])
        self.cov['checker_cmd'] = 'coqc -q -Q theories PK -Q gen PKGen -Q props PKProps <each file of the cone of %s> (lib/vlib/coqbuild.py; full .vo; %d files, %d recompiled this run)' % (
            target, len(cone), len(res.compiled))
        self.cov['cone_files'] = cone
        self.cov['recompiled'] = res.compiled
        if res.ok:
            self.assumptions = []
            for t in targets:
                self.assumptions += coqbuild.assumptions_from_log(res.log_of(t))
            self.thm_names = [n for f, n in obl if f in targets]
            self.cov['property_theorems'] = self.thm_names
        for f, tail in res.failed:
            if tail == 'dependency failed':
                continue
            self.broken.append({'kind': 'obligation', 'name': f, 'detail': tail[-3000:], 'candidates': []})
        for p in probs:
            self.broken.append({'kind': 'obligation', 'name': 'lint', 'detail': p, 'candidates': []})
        if res.ok and not probs and self.tier == 'thorough' and not os.environ.get('VERIF_NO_COQCHK'):
            for t in targets:
                if t.startswith('props/'):
                    self.coqchk(t)
        self.log('prove %s: %s (%d files, %d recompiled, %.1fs, %d obligations)' % (
            target, 'ok' if res.ok and not probs else 'BROKEN', len(cone), len(res.compiled), res.seconds, len(obl)))
        return res.ok and not probs

    def coqchk(self, target):
        """Thorough tier: re-check the compiled cone with the independent checker and record its context summary."""
        import subprocess
        parts = Path(target).with_suffix('').parts
        mod = {'theories': 'PK', 'gen': 'PKGen', 'props': 'PKProps'}[parts[0]] + '.' + '.'.join(parts[1:])
        t0 = time.time()
        r = subprocess.run(['timeout', '1800', 'coqchk', '-silent', '-o', '-Q', 'theories', 'PK', '-Q', 'gen', 'PKGen',
                            '-Q', 'props', 'PKProps', mod], cwd=str(coqbuild.COQ), capture_output=True, text=True)
        out = r.stdout + r.stderr
        summary = ' '.join(out[out.find('CONTEXT SUMMARY'):].split()) if 'CONTEXT SUMMARY' in out else out[-600:]
        self.cov.setdefault('coqchk_all', []).append(mod)
        self.cov['coqchk'] = {'module': mod, 'rc': r.returncode, 'seconds': round(time.time() - t0, 1), 'summary': summary[:1500]}
        self.cov.setdefault('trusted_extra', []).append('coqchk -o %s: rc=%d; %s' % (mod, r.returncode, summary[:600]))
        self.log('coqchk %s rc=%d (%.0fs)' % (mod, r.returncode, time.time() - t0))
        if r.returncode != 0:
            self.broken.append({'kind': 'obligation', 'name': 'coqchk ' + mod, 'detail': out[-2000:], 'candidates': []})

    # ------------------------------------------------------------------ tie K
    def ensure_built(self, text):
        """Build every project module a scratch file imports (`From PK|PKGen|PKProps Require Import A.B C.`)."""
        roots = {'PK': 'theories', 'PKGen': 'gen', 'PKProps': 'props'}
        targets = []
        for m in re.finditer(r'From\s+(PK|PKGen|PKProps)\s+Require\s+(?:Import|Export)\s+([\w.\s]+?)\.(?=\s|$)', text):
            for mod in m.group(2).split():
                f = roots[m.group(1)] + '/' + mod.replace('.', '/') + '.v'
                if f not in targets:
                    targets.append(f)
        key = tuple(targets)
        if not targets or key in getattr(self, '_built', set()):
            return True
        res = coqbuild.build(targets)
        if not res.ok:
            for f, tail in res.failed:
                if tail != 'dependency failed':
                    self.broken.append({'kind': 'obligation', 'name': f, 'detail': tail[-3000:], 'candidates': []})
            return False
        self._built = getattr(self, '_built', set()) | {key}
        return True

    def coq_eval(self, name, text, timeout=600):
        """Compile a scratch file; returns (ok, stdout, stderr)."""
        if not self.ensure_built(text):
            return False, '', 'a module imported by the case file does not build'
        p = self.work / (name + '.v')
        p.write_text(text)
        rc, out, err = coqbuild.run_coqc_text(p, timeout)
        return rc == 0, out, err

    def run_cases(self, name, header, cases, checker, shard=300, timeout=900, what=None):
        """Correspondence run with Coq as comparator.

        header  : Coq text (Require Imports, local definitions)
        cases   : list of Coq terms (strings), each of the type `checker` expects
        checker : Coq function `case -> bool` (true = model and implementation agree)
        Returns the list of indices of disagreeing cases.  A coqc failure marks
        the correspondence as broken as a whole.
        """
        from concurrent.futures import ThreadPoolExecutor
        shards = [(i, cases[i:i + shard]) for i in range(0, len(cases), shard)]

        def one(arg):
            k, (base, chunk) = arg
            body = ';\n  '.join(chunk)
            text = (header + '\nDefinition cases_ := [\n  ' + body + '\n].\n'
                    'Definition bad_ := map fst (filter (fun p => negb (snd p)) '
                    '(combine (seq 0 (List.length cases_)) (map (%s) cases_))).\n'
                    'Eval vm_compute in (List.length cases_, bad_).\n' % checker)
            ok, out, err = self.coq_eval('%s_%03d' % (name, k), text, timeout)
            if not ok:
                return base, None, (err or out)[-3000:]
            flat = ' '.join(out.split())
            m = re.search(r'=\s*\((\d+)%?\w*,\s*(\[[^\]]*\]|nil)\s*\)', flat)
            if not m or int(m.group(1)) != len(chunk):
                return base, None, 'unparsable coqc output: ' + flat[-500:]
            bad = [int(x) for x in re.findall(r'\d+', m.group(2))] if m.group(2) != 'nil' else []
            return base, bad, ''

        t0 = time.time()
        bad_all, failed = [], []
        self.ensure_built(header)
        with ThreadPoolExecutor(max_workers=16) as ex:
            for base, bad, err in ex.map(one, enumerate(shards)):
                if bad is None:
                    failed.append((base, err))
                else:
                    bad_all += [base + b for b in bad]
        c = self.cov['correspondences'].setdefault(name, {'cases': 0, 'disagreements': 0})
        c['cases'] += len(cases)
        c['disagreements'] += len(bad_all)
        if what:
            c['what'] = what
        self.log('correspondence %s: %d cases, %d disagree, %d shard failures, %.1fs' % (
            name, len(cases), len(bad_all), len(failed), time.time() - t0))
        if failed:
            self.broken.append({'kind': 'correspondence', 'name': name,
                                'detail': 'coqc failed on case file: ' + failed[0][1], 'candidates': []})
        return sorted(bad_all)

    def disagreement(self, name, case_desc, model_says=None, impl_says=None):
        """Record a model/implementation disagreement (a broken correspondence, not yet a violation)."""
        for b in self.broken:
            if b['kind'] == 'correspondence' and b['name'] == name:
                if len(b['candidates']) < 20:
                    b['candidates'].append({'case': case_desc, 'model': model_says, 'impl': impl_says})
                return
        self.broken.append({'kind': 'correspondence', 'name': name, 'detail': 'model and implementation differ',
                            'candidates': [{'case': case_desc, 'model': model_says, 'impl': impl_says}]})

    def model_output(self, header, expr, timeout=300):
        ok, out, err = self.coq_eval('modelout_%d' % int(time.time() * 1000 % 10**9), header + '\nEval vm_compute in (%s).\n' % expr, timeout)
        return ' '.join(out.split())[:4000] if ok else 'coqc failed: ' + (err or out)[-500:]

    # ------------------------------------------------------------------ direct oracle
    def violation(self, signature, witness, what):
        """A concrete input on which the property fails on the implementation itself."""
        for f in self.findings:
            if f.get('status') == 'known' and sig_matches(f['signature'], signature):
                if f['id'] not in self.known_hits:
                    self.known_hits[f['id']] = {'what': f.get('what', what), 'witness': witness}
                return 'known'
        if len(self.violations) < 50:
            self.violations.append({'signature': signature, 'witness': witness, 'what': what})
        return 'new'

    # ------------------------------------------------------------------ end of run
    def write_replay(self, payload):
        h = hashlib.sha1(json.dumps(payload, sort_keys=True, default=str).encode()).hexdigest()[:10]
        p = VERIF / 'replays' / ('%s-%s.json' % (self.prop, h))
        p.parent.mkdir(exist_ok=True)
        p.write_text(json.dumps(payload, indent=1, sort_keys=True, default=str))
        return p

    def finish(self):
        rc = 0
        lines = []
        for fid, hit in sorted(self.known_hits.items()):
            lines.append('KNOWN-FINDING: property=%s %s [%s]' % (self.prop, hit['what'], fid))
        if self.violations:
            v = self.violations[0]
            p = self.write_replay({'property': self.prop, 'found_by': 'direct-oracle', 'seed': self.seed, 'tier': self.tier,
                                   'what': v['what'], 'signature': v['signature'], 'input': v['witness'],
                                   'further_violations': self.violations[1:10],
                                   'broken': [{k: b[k] for k in ('kind', 'name')} for b in self.broken],
                                   'replay_cmd': 'bin/check %s --replay <this file>' % self.prop})
            lines.append('VIOLATION property=%s replay=%s' % (self.prop, p))
            rc = 1
        elif self.broken:
            b = self.broken[0]
            p = self.write_replay({'property': self.prop, 'found_by': b['kind'], 'seed': self.seed, 'tier': self.tier,
                                   'no_longer_checks': b['name'], 'detail': b['detail'],
                                   'first_disagreeing_cases': b['candidates'][:10],
                                   'all_broken': [{k: x[k] for k in ('kind', 'name')} for x in self.broken],
                                   'note': 'no concrete failing input was found by the direct oracle; the property is no longer shown to hold'})
            lines.append('VIOLATION property=%s replay=%s no-failing-input-found' % (self.prop, p))
            rc = 1
        self.write_evidence(rc)
        for l in lines:
            print(l, flush=True)
        self.log('done rc=%d' % rc)
        if not os.environ.get('VERIF_KEEP_WORK'):
            shutil.rmtree(self.work, ignore_errors=True)
        return rc

    def write_evidence(self, rc):
        cov = self.cov
        cov['distinct_nontrivial'] = len(self._distinct)
        cov['distribution'] = dict(sorted(self.dist.items()))
        tb = ['Coq 8.16.1 kernel (coqc; vm_compute used for finite obligations and for running the model; no native_compute)']
        seen = set()
        for a in self.assumptions:
            if a not in seen:
                seen.add(a)
        if self.thm_names:
            tb.append('Print Assumptions for the %d property theorems of props/%s.v: %s' % (
                len(self.thm_names), self.prop, '; '.join(sorted(seen)) if seen else 'not printed'))
        tb += cov.get('trusted_extra', [])
        cov['trusted_base'] = tb + cov['trusted_base']
        cov.pop('trusted_extra', None)
        cov['known_findings_reproduced'] = sorted(self.known_hits)
        cov['broken'] = [{k: b[k] for k in ('kind', 'name')} for b in self.broken]
        if self.notes:
            cov['notes'] = self.notes
        if len(self.level.split()) > 1:
            cov['level_qualifier'] = self.level      # e.g. 'proof (partial)': see level_note in MANIFEST.json
        ev = {'property_id': self.prop, 'tier': self.tier, 'seed': self.seed, 'level': self.level.split()[0],
              'coverage': cov, 'assumptions': cov.get('assumptions_text', []),
              'wall_s': round(time.time() - self.t0, 2), 'violations': (1 if rc else 0)}
        cov.pop('assumptions_text', None)
        p = VERIF / 'evidence' / (self.prop + '.json')
        p.parent.mkdir(exist_ok=True)
        p.write_text(json.dumps(ev, indent=1, default=str) + '\n')
