"""Primitive layer: drive kmip/core/primitives.py and print cases for Base/PrimCases.v."""
import io
import logging
import struct

from kmip.core import enums, primitives, utils
from vlib import coqprint as cp

logging.getLogger('kmip').setLevel(logging.CRITICAL + 1)
TAG = enums.Tags.ACTIVATION_DATE          # any member; the tag is data in the model
ENUM = enums.CryptographicAlgorithm      # members 1..0x24 or so
ENUM_MEMBERS = sorted(m.value for m in ENUM)
PT = ['PInt', 'PLong', 'PBig', 'PEnum', 'PBool', 'PText', 'PBytes', 'PDate', 'PInterval']


def pval(kind, v):
    if kind == 'PBool':
        return '(VBool %s)' % cp.boolean(v)
    if kind == 'PText':
        return '(VText [%s]%%Z)' % ';'.join(str(b) for b in v.encode('utf-8'))     # a text is modelled by its UTF-8 bytes
    if kind == 'PBytes':
        return '(VBytes %s)' % cp.byts(v)
    return '(%s %s)' % ({'PInt': 'VInt', 'PLong': 'VLong', 'PBig': 'VBig', 'PEnum': 'VEnum',
                         'PDate': 'VDate', 'PInterval': 'VInterval'}[kind], cp.z(v))


def dyn_enum(v):
    """A real Enum class with one member of arbitrary integer value (to reach the range logic)."""
    import enum
    return enum.Enum('Dyn', {'M': v})


def construct(kind, v, tag=TAG):
    """Build the primitive the way a caller would.  Returns the object or raises."""
    if kind == 'PInt':
        return primitives.Integer(v, tag)
    if kind == 'PLong':
        return primitives.LongInteger(v, tag)
    if kind == 'PBig':
        return primitives.BigInteger(v, tag)
    if kind == 'PEnum':
        return primitives.Enumeration(ENUM, ENUM(v), tag)
    if kind == 'PBool':
        return primitives.Boolean(v, tag)
    if kind == 'PText':
        return primitives.TextString(v, tag)
    if kind == 'PBytes':
        return primitives.ByteString(v, tag)
    if kind == 'PDate':
        return primitives.DateTime(v, tag)
    if kind == 'PInterval':
        return primitives.Interval(v, tag)
    raise KeyError(kind)


def blank(kind, tag=TAG):
    if kind == 'PEnum':
        return primitives.Enumeration(ENUM, None, tag)
    cls = {'PInt': primitives.Integer, 'PLong': primitives.LongInteger, 'PBig': primitives.BigInteger,
           'PBool': primitives.Boolean, 'PText': primitives.TextString, 'PBytes': primitives.ByteString,
           'PDate': primitives.DateTime, 'PInterval': primitives.Interval}[kind]
    if kind == 'PDate':
        return cls(0, tag)
    return cls(tag=tag)


def value_of(kind, obj):
    v = obj.value
    if kind == 'PEnum':
        return v.value
    return v


def impl_encode(kind, v, tag=TAG):
    """-> ('novalidate',) | ('raise', exc) | ('ok', bytes)"""
    try:
        if kind == 'PEnum' and v not in ENUM_MEMBERS:
            # out-of-enum numbers cannot be constructed through the enum class; exercise the
            # range logic of validate()/write() with a stand-in member
            E = dyn_enum(v)
            o = primitives.Enumeration(E, E.M, tag)
        else:
            o = construct(kind, v, tag)
    except Exception as e:
        return ('novalidate', type(e).__name__)
    s = utils.BytearrayStream()
    try:
        o.write(s)
    except Exception as e:
        return ('raise', type(e).__name__)
    return ('ok', bytes(s.buffer))


def impl_decode(kind, bs, tag=TAG):
    """-> None (raised) | (value, rest)"""
    o = blank(kind, tag)
    s = utils.BytearrayStream(bs)
    try:
        o.read(s)
    except Exception:
        return None
    return value_of(kind, o), bytes(s.buffer)


def case_enc(kind, v, tag=TAG):
    """Coq cases (validate + encode) for one value, plus the raw implementation results."""
    r = impl_encode(kind, v, tag)
    out = [('CVal %s %s' % (pval(kind, v), cp.boolean(r[0] != 'novalidate')))]
    if r[0] == 'novalidate':
        return out, r
    impl = 'None' if r[0] == 'raise' else '(Some %s)' % cp.byts(r[1])
    out.append('CEnc %s %s %s' % (cp.z(tag.value), pval(kind, v), impl))
    return out, r


def case_dec(kind, bs, tag=TAG):
    r = impl_decode(kind, bs, tag)
    impl = 'None' if r is None else '(Some (%s, %s))' % (pval(kind, r[0]), cp.byts(r[1]))
    mem = '[' + ';'.join(str(m) for m in ENUM_MEMBERS) + ']%Z' if kind == 'PEnum' else '[]'
    return 'CDec %s %s %s %s %s' % (kind, cp.z(tag.value), mem, cp.byts(bs), impl), r


def impl_reencode(kind, bs, tag=TAG):
    """decode bs, then write the DECODED object -> None (read raised) | ('raise',) | ('ok', bytes)"""
    o = blank(kind, tag)
    try:
        o.read(utils.BytearrayStream(bs))
    except Exception:
        return None
    s = utils.BytearrayStream()
    try:
        o.write(s)
    except Exception:
        return ('raise',)
    return ('ok', bytes(s.buffer))


def case_reenc(kind, bs, tag=TAG):
    r = impl_reencode(kind, bs, tag)
    impl = 'None' if r is None else ('(Some None)' if r[0] == 'raise' else '(Some (Some %s))' % cp.byts(r[1]))
    mem = '[' + ';'.join(str(m) for m in ENUM_MEMBERS) + ']%Z' if kind == 'PEnum' else '[]'
    return 'CReenc %s %s %s %s %s' % (kind, cp.z(tag.value), mem, cp.byts(bs), impl), r


# ------------------------------------------------------------------ generators
def boundary_ints():
    out = {0, 1, -1, 2, 127, 128, 255, 256}
    for k in (7, 8, 15, 16, 31, 32, 63, 64, 127, 128, 191, 192):
        for d in (-1, 0, 1):
            out.add(2 ** k + d)
            out.add(-(2 ** k) + d)
    return sorted(out)


def values_for(kind, rng, n_random):
    if kind in ('PInt', 'PLong', 'PBig', 'PDate', 'PInterval'):
        vs = boundary_ints()
        for _ in range(n_random):
            bits = rng.choice([8, 16, 31, 32, 33, 63, 64, 65, 100, 128, 200])
            vs.append(rng.getrandbits(bits) * rng.choice([1, -1]))
        return vs
    if kind == 'PEnum':
        return ENUM_MEMBERS[:6] + [ENUM_MEMBERS[-1], 0, -1, 2 ** 31, 2 ** 32 - 1, 2 ** 32, 2 ** 32 + 1] + \
            [rng.getrandbits(33) for _ in range(n_random // 4)]
    if kind == 'PBool':
        return [True, False]
    if kind == 'PText':
        alpha = 'abcXYZ019 _-.~!'
        vs = [''.join(rng.choice(alpha) for _ in range(n)) for n in range(0, 41)]
        vs += ['\x00', '\x7f', 'a\x00b', 'é', 'café', '€', '\x80', '\u07ff', '\u0800', '\ud7ff', '\ue000', '\uffff',
               '\U00010000', '\U0010ffff', 'a€b\U0001f511c']
        return vs
    if kind == 'PBytes':
        vs = [bytes(rng.getrandbits(8) for _ in range(n)) for n in range(0, 41)]
        vs += [b'\x00', b'\xff' * 9, b'\x00' * 8]
        return vs
    raise KeyError(kind)


def corruptions(good, rng):
    """Single-field corruptions of a valid encoding + truncations at every byte."""
    out = []
    n = len(good)
    for cut in range(n):
        out.append(good[:cut])
    out.append(good + b'\x00')
    out.append(good + b'\x42\x00\x01')
    out.append(good + good)
    b = bytearray(good)
    for pos, vals in ((0, [0x43, 0]), (2, [b[2] ^ 1]), (3, list(range(0, 12)) + [0xff])):
        for v in vals:
            c = bytearray(b)
            c[pos] = v
            out.append(bytes(c))
    length = struct.unpack('!I', good[4:8])[0]
    for nl in {length + 1, length - 1, length + 8, length - 8, 0, 4, 8, 16, 2 ** 31, 2 ** 32 - 1, length + 7}:
        if 0 <= nl < 2 ** 32:
            out.append(good[:4] + struct.pack('!I', nl) + good[8:])
    if n > 8:
        c = bytearray(b)
        c[-1] ^= 0x01          # last byte: padding for padded types, value otherwise
        out.append(bytes(c))
        c = bytearray(b)
        c[8] ^= 0x80           # sign / first value byte
        out.append(bytes(c))
        c = bytearray(b)
        c[rng.randrange(8, n)] = rng.getrandbits(8)
        out.append(bytes(c))
    return out


def utf8_probes(tag=TAG):
    """TextString encodings whose value bytes are well-formed / ill-formed UTF-8 (boundaries of every rule)."""
    seqs = [b'\xc2\x80', b'\xdf\xbf', b'\xc0\x80', b'\xc1\xbf', b'\xc2', b'\xc2\x7f', b'\xc2\xc0',
            b'\xe0\xa0\x80', b'\xe0\x9f\xbf', b'\xe0\x80\x80', b'\xed\x9f\xbf', b'\xed\xa0\x80', b'\xed\xbf\xbf', b'\xee\x80\x80',
            b'\xef\xbf\xbf', b'\xe2\x82', b'\xe2\x82\xac', b'\xe2\x28\xa1', b'\xe1\x80\xc0',
            b'\xf0\x90\x80\x80', b'\xf0\x8f\xbf\xbf', b'\xf4\x8f\xbf\xbf', b'\xf4\x90\x80\x80', b'\xf5\x80\x80\x80',
            b'\xf0\x9f\x94\x91', b'\xf0\x9f\x94', b'\xf1\x80\x80\x80', b'\xf3\xbf\xbf\xbf', b'\xf1\x80\x80\x7f',
            b'\x80', b'\xbf', b'\xff', b'\xfe', b'a\x80b', b'ab\xc3\xa9cd', b'\xc3\xa9' * 4, b'\xf8\x88\x80\x80\x80']
    out = []
    for v in seqs:
        pad = (-len(v)) % 8
        out.append(struct.pack('!I', tag.value)[1:] + b'\x07' + struct.pack('!I', len(v)) + v + b'\x00' * pad)
    return out
