"""C09 - crash consistency: acknowledged operations survive, others are all-or-nothing.

proof (partial): theorems about the transaction-log model coq/theories/Crash/Txn.v (props/C09.v);
tie K: SQLAlchemy listeners attached from outside record the real statement/commit sequence of every
state-changing operation and Coq compares it with the model's trace; crash injection SUPPORTS the tie
(not a proof): (i) the database file and its journal are copied before/after every statement, at the
commit boundary and at the acknowledgement, each copy is reopened by a fresh engine, listed and read;
(ii) a forked worker running a workload is SIGKILLed at random instants and the survivor is reopened.
SQLite's atomic commit / fsync / the file system are TRUSTED (runtime remainder).
"""
import hashlib
import json
import multiprocessing
import os
import re
import shutil
import signal
import sqlite3
import time
from pathlib import Path

import sqlalchemy
from sqlalchemy import event as sa_event

import kdrv
from kdrv import OT, AT, enums
from kmip.core import objects as cobjects, attributes as cattrs
from kmip.pie import objects as pobjects
from vlib import coqprint as cp

LEVEL = 'proof (partial)'

HEADER = ('From PK Require Import Crash.TxnCases.\nFrom Coq Require Import List ZArith.\n'
          'Import ListNotations.\nOpen Scope Z_scope.\n')

TABLES = {'managed_objects': 0, 'crypto_objects': 1, 'keys': 2, 'symmetric_keys': 3, 'public_keys': 4,
          'private_keys': 5, 'split_keys': 6, 'certificates': 7, 'x509_certificates': 8,
          'secret_data_objects': 9, 'opaque_objects': 10, 'managed_object_names': 11, 'object_groups': 12,
          'object_group_map': 13, 'app_specific_info': 14, 'app_specific_info_map': 15}
KEYCOL = {'managed_object_names': 'id', 'object_groups': 'id', 'app_specific_info': 'id',
          'object_group_map': 'rowid', 'app_specific_info_map': 'rowid'}
VALCOL = {'managed_objects': 'object_type', 'crypto_objects': 'state', 'managed_object_names': 'mo_uid',
          'object_group_map': 'managed_object_id', 'app_specific_info_map': 'managed_object_id'}
STMT_RE = re.compile(r'^\s*(INSERT INTO|UPDATE|DELETE FROM)\s+"?(\w+)"?', re.I)
KIND = {'INSERT INTO': 0, 'UPDATE': 1, 'DELETE FROM': 2}
MASK = enums.CryptographicUsageMask


# ---------------------------------------------------------------------------------- observation of a database file
def raw_tables(path):
    """{table: [row dict incl. rowid]} read with a private sqlite3 connection (rolls a hot journal back, as a restart does)."""
    con = sqlite3.connect(path)
    con.row_factory = sqlite3.Row
    out = {}
    try:
        names = [r[0] for r in con.execute("select name from sqlite_master where type='table' order by name")]
        for t in names:
            if t == 'sqlite_sequence':
                out[t] = [dict(r) for r in con.execute('select * from sqlite_sequence')]
                continue
            rows = []
            for r in con.execute('select rowid as rowid_, * from "%s"' % t):
                d = dict(r)
                for k, v in list(d.items()):
                    if isinstance(v, (bytes, memoryview)):
                        d[k] = bytes(v).hex()
                rows.append(d)
            out[t] = rows
    finally:
        con.close()
    return out


def project(raw):
    """-> (sorted [(table code, key, val)], next_uid): the abstraction the Coq model is stated over."""
    rows = []
    for t, code in TABLES.items():
        for r in raw.get(t, []):
            kc = KEYCOL.get(t, 'uid')
            key = r['rowid_'] if kc == 'rowid' else r[kc]
            val = r[VALCOL[t]] if t in VALCOL else 0
            rows.append((code, int(key), int(val) if val is not None else -1))
    seq = [r['seq'] for r in raw.get('sqlite_sequence', []) if r['name'] == 'managed_objects']
    return sorted(rows), (int(seq[0]) + 1 if seq else 1)


def class_tables_of(object_type):
    cls = {OT.CERTIFICATE: pobjects.X509Certificate, OT.SYMMETRIC_KEY: pobjects.SymmetricKey,
           OT.PUBLIC_KEY: pobjects.PublicKey, OT.PRIVATE_KEY: pobjects.PrivateKey, OT.SPLIT_KEY: pobjects.SplitKey,
           OT.SECRET_DATA: pobjects.SecretData, OT.OPAQUE_DATA: pobjects.OpaqueObject}[object_type]
    return [t.name for t in cls.__mapper__.tables if t.name != 'managed_objects']


def observe(path, mask_values=False):
    """What a restarted server finds on this file: opened by a fresh KmipEngine, everything listed and read.
    -> dict(raw, proj, api, problems).  `problems` are direct-oracle hits that need no comparison."""
    problems = []
    eng = None
    try:
        eng = kdrv.Engine(path=path)
    except Exception as e:  # noqa
        return {'raw': None, 'proj': None, 'api': None, 'problems': ['store cannot be opened: %r' % (e,)]}
    api = {}
    try:
        raw = raw_tables(path)
        uids = sorted(r['uid'] for r in raw.get('managed_objects', []))
        r = eng.request([kdrv.locate()], user='alice')
        if r['error'] or not kdrv.ok(r['items'][0]):
            problems.append('Locate fails on the reopened store: %r' % (r['error'] or r['items'][0]['message'],))
            listed = []
        else:
            listed = sorted(int(u) for u in (r['items'][0]['payload'].get('unique_identifiers') or []))
        if listed != uids:
            problems.append('Locate lists %r but managed_objects holds %r' % (listed, uids))
        by_uid = {t: {(x.get('uid')) for x in raw.get(t, [])} for t in raw}
        for row in raw.get('managed_objects', []):
            u = row['uid']
            try:
                ot = OT(row['object_type'])
                need = class_tables_of(ot)
            except Exception:
                problems.append('object %s has unknown type %r' % (u, row['object_type']))
                continue
            missing = [t for t in need if u not in by_uid.get(t, set())]
            if missing:
                problems.append('partial object %s (%s): no row in %s' % (u, ot.name, missing))
            g = eng.request([kdrv.get(str(u))], user='alice')
            a = eng.request([kdrv.get_attributes(str(u))], user='alice')
            gi, ai = g['items'][0], a['items'][0]
            if not kdrv.ok(gi) or not kdrv.ok(ai):
                problems.append('object %s cannot be read after restart: Get=%s/%s GetAttributes=%s/%s' % (
                    u, gi['status'], gi['reason'], ai['status'], ai['reason']))
                api[u] = ('unreadable', gi['reason'], ai['reason'])
                continue
            attrs = []
            for at in ai['raw'].response_payload.attributes:
                nm = at.attribute_name.value
                v = kdrv.plain(at.attribute_value)
                if mask_values and nm in ('Unique Identifier',):
                    pass
                attrs.append((nm, json.dumps(v, sort_keys=True, default=str)))
            secret = json.dumps(gi['payload'], sort_keys=True, default=str)
            api[u] = (sorted(attrs), None if mask_values else hashlib.sha1(secret.encode()).hexdigest()[:12])
    except Exception as e:  # noqa
        problems.append('reading the reopened store raised %r' % (e,))
        raw = raw_tables(path)
    finally:
        if eng is not None:
            eng.engine._data_store.dispose()
    rows, nxt = project(raw)
    canon = {}
    for t, rs in raw.items():
        cs = []
        for r in rs:
            d = dict(r)
            if mask_values:
                d.pop('value', None)
            cs.append(json.dumps(d, sort_keys=True, default=str))
        if cs:
            canon[t] = sorted(cs)
    return {'raw': canon, 'proj': (rows, nxt), 'api': api, 'problems': problems}


def same_obs(a, b):
    return a['raw'] == b['raw'] and a['api'] == b['api']


# ---------------------------------------------------------------------------------- recorder (tie K instrumentation)
class Recorder:
    """Listeners attached from outside to the engine's SQLAlchemy Engine; `_process_operation` is wrapped on the
    instance to delimit batch items.  Every event takes a copy of the database file and its rollback journal."""

    def __init__(self, eng, snapdir, snapshots=True):
        self.eng = eng
        self.dir = Path(snapdir)
        self.dir.mkdir(parents=True, exist_ok=True)
        self.snapshots = snapshots
        self.n = 0
        self.items = []           # finished items: dict(events, snaps, ...)
        self.cur = None
        self.loose = []           # events outside any item (must contain no write)
        self.unrecognised = []    # statements that are neither SELECT/PRAGMA nor INSERT/UPDATE/DELETE on a known table
        ds = eng.engine._data_store
        self._ls = [(ds, 'before_cursor_execute', self._before), (ds, 'after_cursor_execute', self._after),
                    (ds, 'commit', self._commit), (ds, 'rollback', self._rollback),
                    (eng.engine._data_store_session_factory, 'after_commit', self._after_commit),
                    (ds, 'reset', self._pool_reset)]
        for tgt, name, fn in self._ls:
            sa_event.listen(tgt, name, fn)
        inner = eng.engine._process_operation

        def wrapped(operation, payload):
            self.begin_item(operation)
            try:
                return inner(operation, payload)
            finally:
                self.end_item()
        eng.engine._process_operation = wrapped

    def detach(self):
        for tgt, name, fn in self._ls:
            try:
                sa_event.remove(tgt, name, fn)
            except Exception:
                pass
        try:
            del self.eng.engine._process_operation
        except Exception:
            pass

    # -- snapshots
    def snap(self, label):
        if not self.snapshots:
            return None
        self.n += 1
        dst = self.dir / ('s%05d.db' % self.n)
        shutil.copyfile(self.eng.path, dst)
        j = self.eng.path + '-journal'
        if os.path.exists(j):
            try:
                shutil.copyfile(j, str(dst) + '-journal')
            except FileNotFoundError:
                pass
        return str(dst)

    def _ev(self, e, label):
        tgt = self.cur['events'] if self.cur is not None else self.loose
        tgt.append(e)
        if self.cur is not None:
            self.cur['snaps'].append((len(self.cur['events']), label, self.snap(label)))

    # -- item boundaries
    def begin_item(self, operation):
        self.cur = {'op': operation, 'events': [], 'snaps': [], 'stmts': []}
        self.cur['snaps'].append((0, 'item-start', self.snap('item-start')))

    def end_item(self):
        c = self.cur
        c['snaps'].append((len(c['events']), 'item-end', self.snap('item-end')))
        self.items.append(c)
        self.cur = None

    # -- listeners
    def _before(self, conn, cursor, statement, parameters, context, executemany):
        s = statement.lstrip()
        head = s[:6].upper()
        if head == 'SELECT' or head.startswith('PRAGMA'):
            return
        m = STMT_RE.match(s)
        if not m or m.group(2) not in TABLES:
            # never raise inside the engine (a handler may swallow the exception and behave differently): the statement is
            # recorded, cuts are taken around it like around any other, and the item is reported afterwards (fail closed there)
            self._pending = ('other', s[:120])
            self.unrecognised.append(s[:120])
            if self.cur is not None:
                self.cur['snaps'].append((len(self.cur['events']), 'before-statement', self.snap('before-statement')))
            return
        n = len(parameters) if isinstance(parameters, list) else 1
        plist = parameters if isinstance(parameters, list) else [parameters]
        self._pending = (KIND[m.group(1).upper()], m.group(2), n, [tuple(p) if isinstance(p, (tuple, list)) else p for p in plist])
        if self.cur is not None:
            self.cur['snaps'].append((len(self.cur['events']), 'before-statement', self.snap('before-statement')))

    def _after(self, conn, cursor, statement, parameters, context, executemany):
        p = getattr(self, '_pending', None)
        if p is None:
            return
        self._pending = None
        if p[0] == 'other':
            (self.cur['events'] if self.cur is not None else self.loose).append(('S', p[1]))
            if self.cur is not None:
                self.cur['snaps'].append((len(self.cur['events']), 'after-statement (%s)' % p[1].split()[0], self.snap('after-statement')))
            return
        kind, table, n, plist = p
        for i in range(n):
            e = ('W', kind, table, plist[i] if i < len(plist) else None)
            tgt = self.cur['events'] if self.cur is not None else self.loose
            tgt.append(e)
        if self.cur is not None:
            self.cur['snaps'].append((len(self.cur['events']), 'after-statement', self.snap('after-statement')))

    def _commit(self, conn):
        # fires BEFORE the DBAPI commit: the cut just before COMMIT reaches SQLite
        if self.cur is not None:
            self.cur['snaps'].append((len(self.cur['events']), 'before-commit', self.snap('before-commit')))
        tgt = self.cur['events'] if self.cur is not None else self.loose
        tgt.append(('C',))

    def _after_commit(self, session):
        (self.cur['events'] if self.cur is not None else self.loose).append(('K',))     # the preceding COMMIT went through
        if self.cur is not None:
            self.cur['snaps'].append((len(self.cur['events']), 'after-commit', self.snap('after-commit')))

    def _pool_reset(self, dbapi_connection, connection_record, reset_state):
        # the pool's reset-on-return issues a DBAPI ROLLBACK that no engine-level 'rollback' event reports; it matters only
        # when a transaction is still open at that moment (e.g. after a refused COMMIT followed by Session.rollback())
        try:
            open_tx = bool(dbapi_connection.in_transaction)
        except Exception:
            open_tx = False
        if open_tx and not getattr(reset_state, 'transaction_was_reset', False):
            (self.cur['events'] if self.cur is not None else self.loose).append(('R',))

    def _rollback(self, conn):
        tgt = self.cur['events'] if self.cur is not None else self.loose
        tgt.append(('R',))
        if self.cur is not None:
            self.cur['snaps'].append((len(self.cur['events']), 'after-rollback', self.snap('after-rollback')))


def norm_positions(events):
    """Python twin of TxnCases.norm: -> (normalised events, map raw position -> normalised position)."""
    out, pos, dirty = [], [0], False
    for e in events:
        if e[0] == 'W':
            out.append(e)
            dirty = True
        elif e[0] == 'C':
            out.append(e)
            dirty = False
        elif e[0] == 'F':
            out.append(e)
        elif e[0] == 'R':
            if dirty:
                out.append(e)
            dirty = False
        pos.append(len(out))
    return out, pos


def mark_failed_commits(events):
    """('C',) not confirmed by the session's after_commit marker ('K',) before the next C/R -> ('F',): the COMMIT was refused."""
    out = []
    for i, e in enumerate(events):
        if e[0] == 'C':
            nxt = next((x[0] for x in events[i + 1:] if x[0] in ('K', 'C', 'R')), None)
            out.append(e if nxt == 'K' else ('F',))
        else:
            out.append(e)
    return out


# ---------------------------------------------------------------------------------- Coq printers
def coq_row(r):
    return '(%s, %s, %s)' % (cp.z(r[0]), cp.z(r[1]), cp.z(r[2]))


def coq_store(proj):
    rows, nxt = proj
    return '(mkStore [%s] %s)' % ('; '.join(coq_row(r) for r in rows), cp.z(nxt))


def coq_write(w):
    if w[0] == 'ins':
        return '(WIns %s)' % coq_row(w[1])
    if w[0] == 'upd':
        return '(WUpd %s %s %s)' % (cp.z(w[1]), cp.z(w[2]), cp.z(w[3]))
    if w[0] == 'del':
        return '(WDel %s %s)' % (cp.z(w[1]), cp.z(w[2]))
    return '(WTouch %s %s)' % (cp.z(w[1]), cp.z(w[2]))


def coq_op(d):
    k = d['kind']
    if k == 'create':
        return '(OCreate %s %s)' % (cp.boolean(d['valid']), cp.nat(d['names']))
    if k == 'keypair':
        return '(OCreateKeyPair %s %s %s)' % (cp.boolean(d['valid']), cp.nat(d['pub_names']), cp.nat(d['priv_names']))
    if k == 'register':
        return '(ORegister %s %s %s)' % (cp.boolean(d['valid']), cp.z(d['ot']), cp.nat(d['names']))
    if k == 'derive':
        return '(ODeriveKey %s %s %s)' % (cp.boolean(d['valid']), cp.z(d['ot']), cp.nat(d['names']))
    if k == 'activate':
        return '(OActivate %s)' % cp.z(d['uid'])
    if k == 'revoke':
        return '(ORevoke %s %s)' % (cp.z(d['uid']), cp.boolean(d['compromise']))
    if k == 'destroy':
        return '(ODestroy %s)' % cp.z(d['uid'])
    if k == 'attr':
        return '(OAttr %s [%s])' % (cp.boolean(d['ok']), '; '.join(coq_write(w) for w in d['ws']))
    if k == 'link-create':
        return '(OCreateWith %s %s [%s])' % (cp.boolean(d['ok']), cp.nat(d['names']), '; '.join(coq_write(w) for w in d['ws']))
    raise KeyError(k)


LINK_TABLES = (12, 13, 14, 15)


def describe(ctx, d, it, events, pre_proj, post_proj):
    """Descriptor of the executed item for the model (None when it cannot be given).  Identifiers that the request
    left to the ID placeholder and the observed row changes of attribute operations are filled in here."""
    ok = kdrv.ok(it)
    desc = dict(d)
    kind = d['kind']
    if kind in ('activate', 'revoke', 'destroy') and desc['uid'] is None:
        p = it['payload'] or {}
        uid = p.get('unique_identifier')
        if uid is None:
            return None
        desc['uid'] = d['uid'] = int(uid['value'] if isinstance(uid, dict) else uid)
    if kind == 'derive':
        base = d.get('base')
        live = {k for t, k, v in pre_proj[0] if t == 0}
        if base is not None and base not in live:
            desc['valid'] = False
            ctx.count('derive.belief-corrected')
    if kind in ('attr', 'link-create'):
        ws = attr_writes(events, pre_proj, post_proj, LINK_TABLES if kind == 'link-create' else None) if ok else []
        if ws is None:
            return None
        desc['ok'] = ok
        desc['ws'] = ws
    return desc


def coq_shape(events, acked=True):
    out = []
    for e in events:
        if e[0] == 'W':
            out.append('SW %d %d' % (e[1], TABLES[e[2]]))
        elif e[0] == 'C':
            out.append('SC')
        elif e[0] == 'R':
            out.append('SR')
        elif e[0] == 'F':
            out.append('SF')
    if acked:
        out.append('SA')
    return '[%s]' % '; '.join(out)


# ---------------------------------------------------------------------------------- workload generator
def derivation_params():
    return cattrs.DerivationParameters(
        cryptographic_parameters=cattrs.CryptographicParameters(hashing_algorithm=enums.HashingAlgorithm.SHA_256),
        derivation_data=None)


class Gen:
    """Seeded generator of state-changing requests; keeps the list of identifiers it has seen so that the
    operations hit live, destroyed and never-issued objects.  Each step: (descriptor(s), request items, version)."""

    def __init__(self, rng, link_attrs=True):
        self.rng = rng
        self.uids = []            # identifiers issued so far (live or destroyed)
        self.names = {}           # uid -> list of names believed present
        self.derivable = []
        self.link_attrs = link_attrs
        self.counter = 0
        self.script = []

    def fresh_name(self):
        self.counter += 1
        return 'n%d' % self.counter

    def pick_uid(self):
        r = self.rng.random()
        if self.uids and r < 0.85:
            return self.rng.choice(self.uids)
        if r < 0.93:
            return (max(self.uids) if self.uids else 0) + self.rng.randint(1, 3)     # never issued
        return self.rng.choice(self.uids) if self.uids else 1

    def scripted(self):
        """Fixed scenario run before the random histories: every handler and every lifecycle path that writes more than
        one statement (destroy of a compromised object = UPDATE + DELETE, key pair with names, derivations, each
        attribute operation on an object that has the attribute)."""
        last = lambda: self.uids[-1]
        KC, CO = enums.RevocationReasonCode.KEY_COMPROMISE, enums.RevocationReasonCode.CESSATION_OF_OPERATION

        def act(u=None):
            u = last() if u is None else u
            return [{'kind': 'activate', 'uid': u}], [kdrv.activate(str(u))], (1, 2)

        def rev(comp):
            return [{'kind': 'revoke', 'uid': last(), 'compromise': comp}], [kdrv.revoke(str(last()), code=KC if comp else CO)], (1, 2)

        def des():
            return [{'kind': 'destroy', 'uid': last()}], [kdrv.destroy(str(last()))], (1, 2)

        def create2(derivable):
            names = [self.fresh_name(), self.fresh_name()]
            mask = [MASK.ENCRYPT, MASK.DECRYPT] + ([MASK.DERIVE_KEY] if derivable else [])
            return [{'kind': 'create', 'valid': True, 'names': 2, 'name_list': names, 'derivable': derivable}], \
                [kdrv.create(mask=mask, names=names)], (1, 2)

        def attr(how):
            u = last()
            have = self.names.get(u, [])
            d = {'kind': 'attr', 'how': how, 'uid': u}
            if how == 'modify-name':
                new = self.fresh_name()
                d.update(index=1, new=new)
                return [d], [kdrv.modify_attribute_v1(str(u), kdrv.attr(AT.NAME, kdrv.name_value(new), 1))], (1, 2)
            if how == 'delete-name':
                d.update(index=0, deleted=have[0] if have else None)
                return [d], [kdrv.delete_attribute_v1(str(u), 'Name', 0)], (1, 2)
            if how == 'set-sensitive':
                return [d], [kdrv.set_attribute(str(u), kdrv.attr_value('SENSITIVE', True))], (2, 0)
            if how == 'modify-name-v2':
                new, cur = self.fresh_name(), have[0]
                d.update(cur=cur, new=new)
                return [d], [kdrv.modify_attribute_v2(str(u), kdrv.attr_value('NAME', kdrv.name_value(new)),
                                                      kdrv.attr_value('NAME', kdrv.name_value(cur)))], (2, 0)
            d.update(deleted=have[0] if have else None)
            return [d], [kdrv.delete_attribute_v2(str(u), reference=kdrv.attr_ref2('Name'))], (2, 0)

        def keypair11():
            pub = [kdrv.attr(AT.CRYPTOGRAPHIC_USAGE_MASK, [MASK.VERIFY]), kdrv.attr(AT.NAME, kdrv.name_value(self.fresh_name()), 0)]
            priv = [kdrv.attr(AT.CRYPTOGRAPHIC_USAGE_MASK, [MASK.SIGN]), kdrv.attr(AT.NAME, kdrv.name_value(self.fresh_name()), 0)]
            return [{'kind': 'keypair', 'valid': True, 'pub_names': 1, 'priv_names': 1}], [kdrv.create_key_pair(private=priv, public=pub)], (1, 2)

        def reg(ot):
            return [{'kind': 'register', 'valid': True, 'ot': ot.value, 'names': 0, 'name_list': []}], [kdrv.register(ot)], (1, 2)

        def derive(ot):
            base = self.derivable[-1]
            attrs = kdrv.sym_attrs(enums.CryptographicAlgorithm.AES, 128, kdrv.ENC_DEC)
            if ot == OT.SECRET_DATA:
                attrs = [kdrv.attr(AT.CRYPTOGRAPHIC_LENGTH, 128), kdrv.attr(AT.CRYPTOGRAPHIC_USAGE_MASK, [MASK.DERIVE_KEY])]
            return [{'kind': 'derive', 'valid': True, 'ot': ot.value, 'names': 0, 'name_list': [], 'base': base}], \
                [kdrv.derive_key([str(base)], params=derivation_params(), attrs=attrs, otype=ot)], (1, 2)
        return [lambda: create2(False), lambda: rev(True), lambda: rev(True), des,
                keypair11, act, lambda: rev(False), des,
                lambda: reg(OT.OPAQUE_DATA), des, lambda: reg(OT.CERTIFICATE), lambda: rev(True), des,
                lambda: create2(True), lambda: derive(OT.SYMMETRIC_KEY), lambda: derive(OT.SECRET_DATA), act, des,
                lambda: create2(False), lambda: attr('modify-name'), lambda: attr('delete-name'), lambda: attr('set-sensitive'),
                lambda: attr('modify-name-v2'), lambda: attr('delete-name-ref'), self.g_link_create, lambda: rev(True), des]

    def step(self):
        if self.script:
            return self.script.pop(0)()
        rng = self.rng
        c = rng.random()
        if c < 0.14:
            return self.g_create()
        if c < 0.24:
            return self.g_keypair()
        if c < 0.40:
            return self.g_register()
        if c < 0.47:
            return self.g_derive()
        if c < 0.60:
            u = self.pick_uid()
            return [{'kind': 'activate', 'uid': u}], [kdrv.activate(str(u))], (1, 2)
        if c < 0.72:
            u = self.pick_uid()
            comp = rng.random() < 0.4
            code = enums.RevocationReasonCode.KEY_COMPROMISE if comp else enums.RevocationReasonCode.CESSATION_OF_OPERATION
            return [{'kind': 'revoke', 'uid': u, 'compromise': comp}], [kdrv.revoke(str(u), code=code)], (1, 2)
        if c < 0.82:
            u = self.pick_uid()
            return [{'kind': 'destroy', 'uid': u}], [kdrv.destroy(str(u))], (1, 2)
        if c < 0.95:
            return self.g_attr()
        return self.g_batch()

    def g_create(self, force_valid=False):
        rng = self.rng
        n = rng.choice([0, 0, 1, 2, 3])
        valid = force_valid or rng.random() < 0.85
        names = [self.fresh_name() for _ in range(n)]
        mask = [MASK.ENCRYPT, MASK.DECRYPT] + ([MASK.DERIVE_KEY] if rng.random() < 0.5 else [])
        if valid:
            item = kdrv.create(length=rng.choice([128, 256]), mask=mask, names=names)
        else:
            how = rng.choice(['no-mask', 'no-length', 'wrong-type'])
            if how == 'no-mask':
                item = kdrv.create(mask=None, names=names)
            elif how == 'no-length':
                item = kdrv.create(length=None, names=names)
            else:
                item = kdrv.create(otype=OT.PUBLIC_KEY, names=names)
        d = {'kind': 'create', 'valid': valid, 'names': n, 'name_list': names, 'derivable': MASK.DERIVE_KEY in mask}
        return [d], [item], (1, 2)

    def g_keypair(self):
        rng = self.rng
        a, b = rng.choice([0, 0, 1, 2]), rng.choice([0, 0, 1, 2])
        valid = rng.random() < 0.85
        pub = [kdrv.attr(AT.CRYPTOGRAPHIC_USAGE_MASK, [MASK.VERIFY])] + [kdrv.attr(AT.NAME, kdrv.name_value(self.fresh_name()), i) for i in range(a)]
        priv = [kdrv.attr(AT.CRYPTOGRAPHIC_USAGE_MASK, [MASK.SIGN])] + [kdrv.attr(AT.NAME, kdrv.name_value(self.fresh_name()), i) for i in range(b)]
        if valid:
            item = kdrv.create_key_pair(length=1024, private=priv, public=pub)
        else:
            item = kdrv.create_key_pair(common=[kdrv.attr(AT.CRYPTOGRAPHIC_ALGORITHM, enums.CryptographicAlgorithm.RSA)], private=priv, public=pub)  # no length
        return [{'kind': 'keypair', 'valid': valid, 'pub_names': a, 'priv_names': b}], [item], (1, 2)

    def g_register(self):
        rng = self.rng
        ot = rng.choice(kdrv.STORED_TYPES)
        n = rng.choice([0, 0, 1, 2])
        valid = rng.random() < 0.9
        names = [self.fresh_name() for _ in range(n)]
        if valid:
            item = kdrv.register(ot, names=names)
        else:
            item = (kdrv.OP.REGISTER, kdrv.payloads.RegisterRequestPayload(
                object_type=ot, template_attribute=kdrv.template([]), managed_object=None))       # secret in absentia
        return [{'kind': 'register', 'valid': valid, 'ot': ot.value, 'names': n, 'name_list': names}], [item], (1, 2)

    def g_derive(self):
        rng = self.rng
        ot = rng.choice([OT.SYMMETRIC_KEY, OT.SECRET_DATA])
        n = rng.choice([0, 1])
        names = [self.fresh_name() for _ in range(n)]
        base = rng.choice(self.derivable) if self.derivable else None
        attrs = kdrv.sym_attrs(enums.CryptographicAlgorithm.AES, 128, kdrv.ENC_DEC, names=names)
        if ot == OT.SECRET_DATA:
            attrs = [kdrv.attr(AT.CRYPTOGRAPHIC_LENGTH, 128), kdrv.attr(AT.CRYPTOGRAPHIC_USAGE_MASK, [MASK.DERIVE_KEY])] + \
                    [kdrv.attr(AT.NAME, kdrv.name_value(x), i) for i, x in enumerate(names)]
        item = kdrv.derive_key([str(base if base is not None else 9999)], params=derivation_params(), attrs=attrs, otype=ot)
        # validity of the derivation is decided by the state of the base object, which the generator tracks only
        # loosely: the descriptor's `valid` is filled from the generator's belief and corrected by run_history when the
        # base object was destroyed meanwhile (recorded as 'belief-corrected' in the distribution)
        return [{'kind': 'derive', 'valid': base is not None, 'ot': ot.value, 'names': n, 'name_list': names, 'base': base}], [item], (1, 2)

    def g_attr(self):
        rng = self.rng
        u = self.pick_uid()
        have = self.names.get(u, [])
        how = rng.choice(['modify-name', 'modify-name', 'delete-name', 'delete-name', 'set-sensitive', 'modify-name-v2',
                          'delete-name-ref', 'modify-bad-index', 'modify-state'])
        d = {'kind': 'attr', 'how': how, 'uid': u}
        if how == 'modify-name':
            i = rng.randrange(len(have)) if have else 0
            new = self.fresh_name()
            d.update(index=i, new=new)
            return [d], [kdrv.modify_attribute_v1(str(u), kdrv.attr(AT.NAME, kdrv.name_value(new), i))], (1, 2)
        if how == 'modify-bad-index':
            return [d], [kdrv.modify_attribute_v1(str(u), kdrv.attr(AT.NAME, kdrv.name_value('zz'), len(have) + 2))], (1, 2)
        if how == 'modify-state':
            return [d], [kdrv.modify_attribute_v1(str(u), kdrv.attr(AT.STATE, enums.State.ACTIVE))], (1, 2)
        if how == 'delete-name':
            i = rng.randrange(len(have)) if have else 0
            d.update(index=i, deleted=(have[i] if i < len(have) else None))
            return [d], [kdrv.delete_attribute_v1(str(u), 'Name', i)], (1, 2)
        if how == 'set-sensitive':
            return [d], [kdrv.set_attribute(str(u), kdrv.attr_value('SENSITIVE', True))], (2, 0)
        if how == 'modify-name-v2':
            new = self.fresh_name()
            cur = rng.choice(have) if have else 'absent'
            d.update(cur=cur, new=new)
            return [d], [kdrv.modify_attribute_v2(str(u), kdrv.attr_value('NAME', kdrv.name_value(new)),
                                                  kdrv.attr_value('NAME', kdrv.name_value(cur)))], (2, 0)
        d.update(deleted=(have[0] if have else None))
        return [d], [kdrv.delete_attribute_v2(str(u), reference=kdrv.attr_ref2('Name'))], (2, 0)

    def g_batch(self):
        rng = self.rng
        c = rng.random()
        if c < 0.4:
            d1, i1, _ = self.g_create(force_valid=True)
            return d1 + [{'kind': 'activate', 'uid': None}], i1 + [kdrv.activate()], (1, 2)
        if c < 0.7:
            d1, i1, _ = self.g_register()
            return d1 + [{'kind': 'destroy', 'uid': None}], i1 + [kdrv.destroy()], (1, 2)
        d1, i1, _ = self.g_keypair()
        return d1 + [{'kind': 'activate', 'uid': None}, {'kind': 'revoke', 'uid': None, 'compromise': True}], \
            i1 + [kdrv.activate(), kdrv.revoke(code=enums.RevocationReasonCode.KEY_COMPROMISE)], (1, 2)

    def link_create(self):
        """Create with link-table attributes (object group, application specific information): direct oracle only."""
        asi = kdrv.attr(AT.APPLICATION_SPECIFIC_INFORMATION, {'application_namespace': 'ns%d' % self.rng.randint(1, 2), 'application_data': 'd'})
        extra = [kdrv.attr(AT.OBJECT_GROUP, 'g%d' % self.rng.randint(1, 2), 0), asi]
        return kdrv.create(names=[self.fresh_name()], extra=extra)

    def g_link_create(self):
        n = self.counter
        item = self.link_create()
        return [{'kind': 'link-create', 'names': 1, 'name_list': ['n%d' % (n + 1)]}], [item], (1, 2)

    # bookkeeping from the real responses (identifiers are only known after the fact)
    def learn(self, d, item):
        if not kdrv.ok(item):
            return
        p = item['payload'] or {}
        if d['kind'] in ('create', 'register', 'derive', 'link-create'):
            try:
                u = int(p['unique_identifier'])
            except (TypeError, ValueError):
                return
            self.uids.append(u)
            self.names[u] = list(d.get('name_list', []))
            if d.get('derivable'):
                self.derivable.append(u)
        elif d['kind'] == 'keypair':
            for k in ('public_key_unique_identifier', 'private_key_unique_identifier'):
                self.uids.append(int(p[k]))
        elif d['kind'] == 'attr':
            u = d['uid']
            have = self.names.setdefault(u, [])
            if d['how'] == 'modify-name' and d['index'] < len(have):
                have[d['index']] = d['new']
            elif d['how'] == 'delete-name' and d['index'] < len(have):
                del have[d['index']]
            elif d['how'] == 'modify-name-v2' and d['cur'] in have:
                have[have.index(d['cur'])] = d['new']
            elif d['how'] == 'delete-name-ref' and have:
                del have[0]
        elif d['kind'] == 'destroy':
            if d['uid'] in self.derivable:
                self.derivable.remove(d['uid'])


# ---------------------------------------------------------------------------------- one recorded history
def attr_writes(events, pre_proj, post_proj, only=None):
    """Writes of an attribute operation from its SQL statements; keys of INSERTs from the rows that appeared.
    only: restrict to these table codes (link tables of a creation whose object rows the model predicts)."""
    pre = {(t, k): v for t, k, v in pre_proj[0]}
    post = {(t, k): v for t, k, v in post_proj[0]}
    new = {}
    for (t, k), v in sorted(post.items()):
        if (t, k) not in pre and (only is None or t in only):
            new.setdefault(t, []).append((t, k, v))
    ws = []
    for e in events:
        if e[0] != 'W':
            continue
        _, kind, table, params = e
        t = TABLES[table]
        if only is not None and t not in only:
            continue
        if kind == 0:
            if not new.get(t):
                return None
            ws.append(('ins', new[t].pop(0)))
        elif kind == 1:
            ws.append(('touch', t, int(params[-1])))
        else:
            ws.append(('del', t, int(params[-1])))
    if any(new.values()):
        return None
    return ws


def run_history(ctx, name, n_steps, rng, snapshots=True, link_attrs=True, scripted=False):
    """Runs a generated history on a fresh engine with the recorder attached; evaluates the direct oracle on
    every snapshot; returns the Coq cases and their descriptions."""
    hdir = ctx.work / name
    hdir.mkdir(parents=True, exist_ok=True)
    eng = kdrv.Engine(workdir=str(hdir))
    rec = Recorder(eng, hdir / 'snaps', snapshots=snapshots)
    gen = Gen(rng, link_attrs)
    if scripted:
        gen.script = gen.scripted()
        n_steps = len(gen.script)
        link_attrs = False
    cases, meta = [], []
    cache = {}

    def obs_of(path):
        # a restart first rolls a hot journal back (SQLite does this on the first read of the file, here through the
        # same sqlite3 library the engine uses); observations are cached on the recovered file's content
        if path not in recovered:
            con = sqlite3.connect(path)
            try:
                con.execute('select count(*) from sqlite_master').fetchall()
            finally:
                con.close()
            if os.path.exists(path + '-journal') and os.path.getsize(path + '-journal') > 0:
                ctx.count('cut.journal-file-left-in-place-by-sqlite')
            recovered[path] = hashlib.sha1(open(path, 'rb').read()).hexdigest()
        k = recovered[path]
        if k not in cache:
            cache[k] = observe(path)
            ctx.count('cut.reopened-by-fresh-engine')
        return cache[k]

    recovered = {}
    step_log = []
    try:
        for step in range(n_steps):
            if link_attrs and step % 9 == 8:
                descs, items, version = gen.g_link_create()
            else:
                descs, items, version = gen.step()
            first = len(rec.items)
            r = eng.request(items, version=version, user='alice')
            ack_snap = rec.snap('ack')
            recorded = rec.items[first:]
            if rec.unrecognised:
                ctx.disagreement('statements', {'history': name, 'step': step, 'unrecognised_statements': rec.unrecognised[:5],
                                                'problem': 'statements the transaction model has no event for (fail closed)'})
                del rec.unrecognised[:]
            if rec.loose and any(e[0] == 'W' for e in rec.loose):
                ctx.violation({'class': 'write-outside-operation'}, {'history': step_log, 'events': repr(rec.loose)},
                              'a database write happened outside the processing of any batch item')
            del rec.loose[:]
            step_log.append({'step': step, 'ops': [dict((k, v) for k, v in d.items() if k != 'ws') for d in descs],
                             'version': list(version),
                             'results': [(i['status'], i['reason']) for i in r['items']], 'error': r['error']})
            if r['error'] is not None:
                ctx.count('request.error')
                continue
            for d, it, recd in zip(descs, r['items'], recorded):
                evaluate_item(ctx, name, step, d, it, recd, obs_of, cases, meta, step_log, gen)
                gen.learn(d, it)
            # acknowledgement: what is on disk when the response leaves must be what the last item left
            if ack_snap and recorded:
                a, last = obs_of(ack_snap), obs_of(recorded[-1]['snaps'][-1][2])
                if not same_obs(a, last):
                    ctx.violation({'class': 'changed-after-last-item'}, {'history': step_log},
                                  'the database changed between the end of the last batch item and the response')
            # free disk
            for recd in recorded:
                for _, _, p in recd['snaps']:
                    if p:
                        for suffix in ('', '-journal'):
                            try:
                                os.unlink(p + suffix)
                            except OSError:
                                pass
            if ack_snap:
                for suffix in ('', '-journal'):
                    try:
                        os.unlink(ack_snap + suffix)
                    except OSError:
                        pass
    finally:
        rec.detach()
        eng.close()
    return cases, meta


def evaluate_item(ctx, hname, step, d, it, recd, obs_of, cases, meta, step_log, gen):
    ok = kdrv.ok(it)
    kind = d['kind']
    ctx.count('op.%s.%s' % (kind if kind != 'attr' else 'attr.' + d['how'], 'success' if ok else (it['reason'] or 'fail')))
    events = recd['events']
    nevents, pos = norm_positions(events)
    snaps = recd['snaps']
    if not snaps or snaps[0][2] is None:
        return
    pre = obs_of(snaps[0][2])
    post = obs_of(snaps[-1][2])
    witness = {'history': hname, 'seed': ctx.seed, 'steps': step_log[-12:], 'operation': dict((k, v) for k, v in d.items() if k != 'ws'),
               'response': (it['status'], it['reason'], it['message'])}
    # ---- direct oracle (implementation only) -------------------------------------------------
    committed = False
    seen_post = False
    for rawpos, label, path in snaps:
        o = obs_of(path)
        for p in o['problems']:
            ctx.violation({'class': 'unreadable-or-partial', 'op': kind, 'cut': label},
                          dict(witness, cut={'after_events': rawpos, 'label': label, 'events': repr(events)}, problem=p),
                          'after a crash %s of %s the restarted server finds: %s' % (label, kind, p))
        is_pre, is_post = same_obs(o, pre), same_obs(o, post)
        if not is_pre and not is_post:
            ctx.violation({'class': 'neither-before-nor-after', 'op': kind, 'cut': label},
                          dict(witness, cut={'after_events': rawpos, 'label': label, 'events': repr(events)},
                               found=o['proj'], before=pre['proj'], after=post['proj']),
                          'a crash %s (event %d) of %s leaves a state that is neither the one before nor the one after the operation' % (label, rawpos, kind))
        if is_post and not is_pre:
            seen_post = True
        elif seen_post and is_pre and not is_post:
            ctx.violation({'class': 'effect-lost', 'op': kind, 'cut': label}, dict(witness, cut=label),
                          'an effect that was durable at an earlier cut of %s is gone at a later one' % kind)
        ctx.case_seen((hname, step, kind, rawpos, label, o['proj']), nontrivial=True)
    # acknowledged success must be in effect
    if ok:
        msg = effect_missing(d, it, pre, post)
        if msg:
            ctx.violation({'class': 'acknowledged-not-durable', 'op': kind}, dict(witness, after=post['proj'], before=pre['proj']),
                          '%s reported success but after restart %s' % (kind, msg))
    # ---- correspondence cases (model vs implementation; Coq compares) ---------------------------
    desc = describe(ctx, d, it, events, pre['proj'], post['proj'])
    if desc is None:
        if kind in ('attr', 'link-create'):
            ctx.disagreement('attr-writes', {'op': d, 'events': repr(events), 'pre': pre['proj'], 'post': post['proj']})
        return
    pre_s = coq_store(pre['proj'])
    op_s = coq_op(desc)
    cases.append('CShape %s %s %s' % (pre_s, op_s, coq_shape(events)))
    meta.append({'case': 'shape', 'coq_pre': pre_s, 'coq_op': op_s, 'history': hname, 'step': step, 'op': {k: v for k, v in desc.items() if k != 'ws'},
                 'events': repr(events), 'response': (it['status'], it['reason'], it['message'])})
    cuts = []
    seen = set()
    for rawpos, label, path in snaps:
        k = pos[rawpos]
        o = obs_of(path)
        if o['proj'] is None:
            continue
        key = (k, tuple(o['proj'][0]), o['proj'][1])
        if key in seen:
            continue
        seen.add(key)
        cuts.append('(%s, %s)' % (cp.nat(k), coq_store(o['proj'])))
    # the acknowledgement follows the last event
    cuts.append('(%s, %s)' % (cp.nat(len(nevents) + 1), coq_store(post['proj'])))
    cases.append('CState %s %s [%s]' % (pre_s, op_s, '; '.join(cuts)))
    meta.append({'case': 'state', 'coq_pre': pre_s, 'coq_op': op_s, 'history': hname, 'step': step, 'op': {k: v for k, v in desc.items() if k != 'ws'},
                 'events': repr(events), 'response': (it['status'], it['reason'], it['message']),
                 'cuts': [(pos[rp], lb) for rp, lb, _ in snaps], 'steps': step_log[-12:]})


def effect_missing(d, it, pre, post):
    """Direct oracle for durability: what a SUCCESS response promises must be visible to the restarted server."""
    p = it['payload'] or {}
    rows = post['proj'][0]
    live = {k for t, k, v in rows if t == 0}
    state = {k: v for t, k, v in rows if t == 1}
    kind = d['kind']

    def uid_of(x):
        try:
            return int(x['value'] if isinstance(x, dict) else x)
        except (TypeError, ValueError):
            return -1
    if kind in ('create', 'register', 'derive', 'link-create'):
        u = uid_of(p['unique_identifier'])
        if u < 0:
            return 'the response names the identifier %r, no such object exists' % (p['unique_identifier'],)
        if u not in live or u not in post['api'] or post['api'][u][0] == 'unreadable':
            return 'object %d does not exist / cannot be read' % u
        want = d.get('name_list')
        if want is not None:
            got = [json.loads(v)['name_value'] for n, v in post['api'][u][0] if n == 'Name']
            if sorted(got) != sorted(want):
                return 'object %d has names %r, requested %r' % (u, got, want)
    elif kind == 'keypair':
        for k in ('public_key_unique_identifier', 'private_key_unique_identifier'):
            if uid_of(p[k]) not in live:
                return 'key pair member %s=%s does not exist' % (k, p[k])
    elif kind == 'activate':
        u = uid_of(p['unique_identifier'])
        if state.get(u) != enums.State.ACTIVE.value:
            return 'object %d is in state %r, not ACTIVE' % (u, state.get(u))
    elif kind == 'revoke':
        u = uid_of(p['unique_identifier'])
        want = enums.State.COMPROMISED.value if d['compromise'] else enums.State.DEACTIVATED.value
        if state.get(u) != want:
            return 'object %d is in state %r, not %r' % (u, state.get(u), want)
    elif kind == 'destroy':
        u = uid_of(p['unique_identifier'])
        if u in live:
            return 'object %d still exists' % u
    elif kind == 'attr':
        u = d['uid']
        if u not in post['api'] or post['api'][u][0] == 'unreadable':
            return 'object %d cannot be read' % u
        attrs = post['api'][u][0]
        names = [json.loads(v)['name_value'] for n, v in attrs if n == 'Name']
        if d['how'] in ('modify-name', 'modify-name-v2') and d['new'] not in names:
            return 'object %d lacks the name %r it was given' % (u, d['new'])
        if d['how'] == 'modify-name-v2' and d['cur'] in names:
            return 'object %d still has the replaced name %r' % (u, d['cur'])
        if d['how'] in ('delete-name', 'delete-name-ref') and d.get('deleted') is not None and d['deleted'] in names:
            return 'object %d still has the deleted name %r' % (u, d['deleted'])
        if d['how'] == 'set-sensitive':
            # Sensitive is a KMIP 1.4 attribute and the restarted server is read under 1.2: look at the stored column
            rows_ = [json.loads(x) for x in post['raw'].get('managed_objects', [])]
            if not any(x['uid'] == u and x['sensitive'] in (1, True) for x in rows_):
                return 'object %d is not marked sensitive' % u
    return None


# ---------------------------------------------------------------------------------- SIGKILL tier
def worker(dbdir, seed, n_steps, conn, reference):
    """Child process: runs the deterministic workload; reports each completed request over the pipe."""
    import random
    try:
        eng = kdrv.Engine(path=os.path.join(dbdir, 'w.db'))
        gen = Gen(random.Random(seed), link_attrs=True)
        cur = {'step': 0, 'item': 0}
        if reference:
            # batch items are operations of their own (each commits): keep the state after every item
            inner = eng.engine._process_operation

            def wrapped(operation, payload):
                try:
                    return inner(operation, payload)
                finally:
                    cur['item'] += 1
                    shutil.copyfile(eng.path, os.path.join(dbdir, 'ref%03d_%02d.db' % (cur['step'] + 1, cur['item'])))
            eng.engine._process_operation = wrapped
        for step in range(n_steps):
            cur['step'], cur['item'] = step, 0
            if step % 5 == 4:
                descs, items, version = gen.g_link_create()
            else:
                descs, items, version = gen.step()
            r = eng.request(items, version=version, user='alice')
            for d, it in zip(descs, r['items']):
                if d['kind'] in ('activate', 'revoke', 'destroy') and d['uid'] is None and kdrv.ok(it):
                    u = (it['payload'] or {}).get('unique_identifier')
                    d['uid'] = int(u['value'] if isinstance(u, dict) else u)
                gen.learn(d, it)
            if reference:
                shutil.copyfile(eng.path, os.path.join(dbdir, 'ref%03d.db' % (step + 1)))
            conn.send(('ack', step, [(i['status'], i['reason']) for i in r['items']]))
        conn.send(('done',))
        conn.close()
        eng.engine._data_store.dispose()
    finally:
        os._exit(0)


def kill_runs(ctx, n_kills, n_steps):
    """Workload killed by SIGKILL at random instants; the survivor must be the state after the acknowledged requests,
    possibly plus the request in flight (compared with a reference run of the same workload).  Supports the tie."""
    rng = ctx.subrng('kills')
    mp = multiprocessing.get_context('fork')
    wl_seed = rng.randrange(1 << 30)
    base = ctx.work / 'kill'
    base.mkdir(parents=True, exist_ok=True)
    # reference run
    refdir = base / 'ref'
    refdir.mkdir()
    a, b = mp.Pipe(duplex=False)
    p = mp.Process(target=worker, args=(str(refdir), wl_seed, n_steps, b, True))
    t0 = time.time()
    p.start()
    b.close()
    acks = []
    while True:
        try:
            m = a.recv()
        except EOFError:
            break
        if m[0] == 'done':
            break
        acks.append(m)
    p.join()
    wall = time.time() - t0
    if len(acks) != n_steps:
        raise RuntimeError('reference workload did not complete: %d of %d' % (len(acks), n_steps))
    empty = refdir / 'ref000.db'
    e0 = kdrv.Engine(path=str(empty))
    e0.engine._data_store.dispose()
    ref = [observe(str(refdir / ('ref%03d.db' % j)), mask_values=True) for j in range(n_steps + 1)]
    mid = {}      # request number -> states after each of its batch items
    for f in sorted(refdir.glob('ref*_*.db')):
        mid.setdefault(int(f.name[3:6]), []).append(observe(str(f), mask_values=True))
    for j, o in enumerate(ref + [x for v in mid.values() for x in v]):
        for pr in o['problems']:
            ctx.violation({'class': 'unreadable-or-partial', 'op': 'workload'}, {'workload_seed': wl_seed, 'after_requests': j, 'problem': pr},
                          'reference workload: ' + pr)
    hits = {'pre': 0, 'post': 0, 'same': 0, 'item': 0}
    inflight = 0
    cases = []
    for kidx in range(n_kills):
        d = base / ('k%04d' % kidx)
        d.mkdir()
        a, b = mp.Pipe(duplex=False)
        p = mp.Process(target=worker, args=(str(d), wl_seed, n_steps, b, False))
        p.start()
        b.close()
        target = rng.randrange(0, n_steps)
        delay = rng.random() * (wall / n_steps) * 1.5
        got = []
        try:
            while len(got) < target:
                m = a.recv()
                if m[0] == 'done':
                    break
                got.append(m)
            time.sleep(delay)
        except EOFError:
            pass
        os.kill(p.pid, signal.SIGKILL)
        p.join()
        # drain: everything the worker reported before it died counts as acknowledged
        try:
            while a.poll(0.05):
                m = a.recv()
                if m[0] == 'ack':
                    got.append(m)
        except (EOFError, OSError):
            pass
        a.close()
        n_ack = len(got)
        dbp = str(d / 'w.db')
        if not os.path.exists(dbp):
            ctx.count('kill.before-database-created')
            shutil.rmtree(d, ignore_errors=True)
            continue
        journal = os.path.exists(dbp + '-journal')
        o = observe(dbp, mask_values=True)
        wit = {'workload_seed': wl_seed, 'steps': n_steps, 'kill_index': kidx, 'acknowledged': n_ack, 'hot_journal': journal,
               'how': 'fork a worker running harness/c09.py:worker(seed), SIGKILL after %d acknowledgements + %.4fs' % (target, delay)}
        for pr in o['problems']:
            ctx.violation({'class': 'unreadable-or-partial', 'op': 'workload', 'cut': 'sigkill'}, dict(wit, problem=pr),
                          'after SIGKILL the restarted server finds: ' + pr)
        cands = [j for j in (n_ack, n_ack + 1) if j <= n_steps and same_obs(o, ref[j])]
        if not cands and any(same_obs(o, x) for x in mid.get(n_ack + 1, [])):
            hits['item'] += 1        # request in flight was a batch: some of its items (operations) are applied, each of them whole
        elif not cands:
            earlier = [j for j in range(n_steps + 1) if same_obs(o, ref[j])]
            ctx.violation({'class': 'neither-before-nor-after', 'op': 'workload', 'cut': 'sigkill'},
                          dict(wit, found=o['proj'], matches_reference_after=earlier,
                               expected_one_of=[ref[j]['proj'] for j in (n_ack, n_ack + 1) if j <= n_steps]),
                          'SIGKILL after %d acknowledged requests: the survivor is neither the state after them nor that after the next request' % n_ack)
        else:
            if len(cands) == 2:
                hits['same'] += 1
            elif cands[0] == n_ack:
                hits['pre'] += 1
            else:
                hits['post'] += 1
        if journal:
            inflight += 1
        ctx.case_seen(('kill', kidx, n_ack, o['proj']), nontrivial=True)
        if o['proj'] is not None:
            cases.append((n_ack, o['proj']))
        shutil.rmtree(d, ignore_errors=True)
    ctx.count('kill.runs', n_kills)
    ctx.count('kill.hot-journal-found', inflight)
    for k, v in hits.items():
        ctx.count('kill.survivor.' + {'pre': 'without-inflight', 'post': 'with-inflight', 'same': 'inflight-changes-nothing', 'item': 'prefix-of-inflight-batch-items'}[k], v)
    shutil.rmtree(refdir, ignore_errors=True)
    return wl_seed, cases


def kill_cases(ctx, wl_seed, n_steps, found):
    """The same workload once more in-process with the recorder (no snapshots) to obtain the model's operation
    descriptors; Coq then checks each survivor against posts(firstn j ops) for j from the operations of the
    acknowledged requests to those plus the items of the request in flight."""
    import random
    hdir = ctx.work / 'killmodel'
    hdir.mkdir(parents=True, exist_ok=True)
    eng = kdrv.Engine(workdir=str(hdir))
    rec = Recorder(eng, hdir / 'snaps', snapshots=False)
    gen = Gen(random.Random(wl_seed), link_attrs=True)
    ops_per_request = []
    projs = {}
    inner = eng.engine._process_operation       # the recorder's wrapper; wrap once more to read the rows around each item

    def wrapped(operation, payload):
        k = len(rec.items)
        projs[('pre', k)] = project(raw_tables(eng.path))
        try:
            return inner(operation, payload)
        finally:
            projs[('post', k)] = project(raw_tables(eng.path))
    eng.engine._process_operation = wrapped
    try:
        for step in range(n_steps):
            if step % 5 == 4:
                descs, items, version = gen.g_link_create()
            else:
                descs, items, version = gen.step()
            first = len(rec.items)
            r = eng.request(items, version=version, user='alice')
            recorded = rec.items[first:]
            ops = []
            for i, (d, it, recd) in enumerate(zip(descs, r['items'], recorded)):
                desc = describe(ctx, d, it, recd['events'], projs[('pre', first + i)], projs[('post', first + i)])
                ops.append(coq_op(desc) if desc is not None else None)
                gen.learn(d, it)
            ops_per_request.append(ops)
    finally:
        try:
            del eng.engine._process_operation
        except Exception:
            pass
        rec.detach()
        eng.close()
    # the prefix of requests all of whose operations have a descriptor
    upto = 0
    for ops in ops_per_request:
        if any(o is None for o in ops):
            break
        upto += 1
    cases, meta = [], []
    for n_ack, proj in found:
        if n_ack + 1 <= upto or (n_ack == n_steps and n_ack <= upto):
            reqs = ops_per_request[:min(n_ack + 1, n_steps)]
            flat = [o for ops in reqs for o in ops]
            lo = sum(len(ops) for ops in ops_per_request[:n_ack])
            hi = len(flat)
            cases.append('CWork (mkStore [] 1%%Z) [%s] %s %s %s' % ('; '.join(flat), cp.nat(lo), cp.nat(hi), coq_store(proj)))
            meta.append({'case': 'killed-workload', 'workload_seed': wl_seed, 'acknowledged_requests': n_ack,
                         'operations_acknowledged': lo, 'operations_incl_in_flight': hi})
    return cases, meta, upto


# ---------------------------------------------------------------------------------- connection settings (tie to `recover`)
JOURNAL = {'delete': 0, 'truncate': 1, 'persist': 2, 'wal': 3, 'memory': 4, 'off': 5}


def conn_settings(eng):
    """Durability settings of the LIVE pooled DBAPI connection the engine's sessions use (read-only PRAGMA queries)."""
    raw = eng.engine._data_store.raw_connection()
    try:
        c = raw.driver_connection
        q = lambda sql: c.execute(sql).fetchone()[0]
        iso = c.isolation_level
        auto = getattr(c, 'autocommit', -1)
        out = {'journal_mode': str(q('PRAGMA journal_mode')).lower(), 'synchronous': int(q('PRAGMA synchronous')),
               'locking_mode': str(q('PRAGMA locking_mode')).lower(),
               'driver_autocommit': bool(iso is None or auto is True or auto == 1),
               'isolation_level': iso, 'in_transaction': bool(c.in_transaction)}
    finally:
        raw.close()
    return out


def check_settings(ctx, eng, when, cases, meta, history):
    st = conn_settings(eng)
    ctx.count('settings.checked')
    ctx.count('settings.journal_mode.%s' % st['journal_mode'])
    unsafe = []
    if st['journal_mode'] in ('memory', 'off'):
        unsafe.append('journal_mode=%s: no on-disk rollback journal, a COMMIT interrupted by process death cannot be undone' % st['journal_mode'])
    if st['synchronous'] < 1:
        unsafe.append('synchronous=OFF')
    if st['driver_autocommit']:
        unsafe.append('the driver connection is in autocommit mode: every statement is its own transaction')
    if st['locking_mode'] != 'normal':
        unsafe.append('locking_mode=%s' % st['locking_mode'])
    if st['in_transaction']:
        # not demanded by C09 (what is pending is not durable): on the unchanged tree SQLAlchemy leaves the DBAPI transaction
        # open after a refused COMMIT (RootTransaction marked closed, pool skips its rollback-on-return); recorded only
        ctx.count('settings.transaction-left-open-on-pooled-connection.' + when.split(':')[0].replace(' ', '-'))
    for u in unsafe:
        ctx.violation({'class': 'connection-settings', 'when': when.split(':')[0]}, {'when': when, 'settings': st, 'history': history[-12:]},
                      'the engine\'s database connection %s: %s' % (when, u))
    cases.append('CConn %s %s %s %s' % (cp.z(JOURNAL.get(st['journal_mode'], 9)), cp.z(st['synchronous']),
                                        cp.z(0 if st['locking_mode'] == 'normal' else 1), cp.z(1 if st['driver_autocommit'] else 0)))
    meta.append({'case': 'connection-settings', 'when': when, 'settings': st})
    return st


# ---------------------------------------------------------------------------------- refused COMMIT ('database is locked')
def commit_failure_runs(ctx, cases, meta):
    """Every kind of state-changing operation is run once while a second SQLite connection (in this process, standing for a
    backup job or an sqlite3 shell) holds a read transaction on the file, so that the engine's COMMIT is refused with
    'database is locked' (busy timeout of the engine's connection shortened to 80 ms for the purpose); the server is then
    'restarted' (fresh engine on a copy of the file) and acknowledged == stored is checked; the same operation is then run
    again undisturbed.  The connection settings are compared before and after every operation."""
    hdir = ctx.work / 'lock'
    hdir.mkdir(parents=True, exist_ok=True)
    eng = kdrv.Engine(workdir=str(hdir))
    history = []
    check_settings(ctx, eng, 'after start-up', cases, meta, history)
    box = {}

    def attach():
        raw = eng.engine._data_store.raw_connection()
        raw.driver_connection.execute('PRAGMA busy_timeout=80')
        raw.close()
        box['rec'] = Recorder(eng, hdir / 'snaps', snapshots=False)

    def restart_server():
        # process death + restart on the same file: the old process's connections vanish (pending work is lost)
        box['rec'].detach()
        eng.engine._data_store.dispose()
        eng.restart()
        attach()
    attach()
    gen = Gen(ctx.subrng('lock'), True)
    script = gen.scripted()
    n = [0]

    def restart_view():
        n[0] += 1
        dst = str(hdir / ('v%04d.db' % n[0]))
        shutil.copyfile(eng.path, dst)
        o = observe(dst)
        os.unlink(dst)
        return o

    def serve(step_fn, locked):
        descs, items, version = step_fn()
        rec = box['rec']
        first = len(rec.items)
        del rec.loose[:]
        blocker = None
        if locked:
            blocker = sqlite3.connect(eng.path, isolation_level=None, timeout=0.05)
            blocker.execute('BEGIN')
            blocker.execute('select count(*) from sqlite_master').fetchall()
        t0 = time.time()
        try:
            r = eng.request(items, version=version, user='alice')
        finally:
            if blocker is not None:
                blocker.rollback()
                blocker.close()
        dt = time.time() - t0
        recd = rec.items[first:]
        events = (recd[0]['events'] if recd else []) + list(rec.loose)
        return descs[0], (r['items'][0] if r['items'] else None), events, dt, r

    try:
        for idx, step_fn in enumerate(script):
            pre = restart_view()
            # 1. with the COMMIT refused
            state = (gen.counter, list(gen.uids), {k: list(v) for k, v in gen.names.items()}, list(gen.derivable))
            d, it, events, dt, r = serve(step_fn, locked=True)
            gen.counter, gen.uids, gen.names, gen.derivable = state[0], state[1], state[2], state[3]
            kind = d['kind'] if d['kind'] != 'attr' else 'attr.' + d['how']
            post = restart_view()          # what a restart at this moment finds (fresh engine on a copy of the file)
            st_after = conn_settings(eng)
            was_refused_failed = it is not None and not kdrv.ok(it)
            if st_after['in_transaction']:
                ctx.count('lock.transaction-left-open-after-refused-commit')
                if was_refused_failed:
                    # regression witness of the fixed finding C09-refused-commit-left-pending (/repo 52cb625)
                    ctx.violation({'class': 'failed-item-left-pending', 'op': d['kind']},
                                  {'operation': {k: v for k, v in d.items() if k != 'ws'}, 'answer': (it['status'], it['reason']),
                                   'settings': st_after,
                                   'how': 'second sqlite3 connection holds BEGIN; SELECT on the database file while the request is served'},
                                  '%s was answered %s after its COMMIT was refused, but its writes are still pending in an open transaction '
                                  'on the engine\'s pooled connection: the next request that commits makes them permanent' % (d['kind'], it['reason']))
            history.append({'step': idx, 'op': {k: v for k, v in d.items() if k != 'ws'}, 'commit': 'refused (database is locked)',
                            'answer': (it['status'], it['reason'], it['message']) if it else r['error'], 'seconds': round(dt, 2)})
            events = mark_failed_commits(events)
            refused = any(e[0] == 'F' for e in events)
            ctx.count('lock.%s.%s' % (kind, 'commit-refused' if refused else 'commit-not-refused'))
            st = check_settings(ctx, eng, 'after %s with a refused COMMIT' % kind, cases, meta, history)
            wit = {'history': history[-12:], 'operation': history[-1]['op'], 'events': repr(events),
                   'how': 'second sqlite3 connection holds BEGIN; SELECT on the database file while the request is served; '
                          'then a fresh engine on a copy of the file reads everything',
                   'before': pre['proj'], 'after_restart': post['proj']}
            for pr in post['problems']:
                ctx.violation({'class': 'unreadable-or-partial', 'op': d['kind'], 'cut': 'refused-commit'}, dict(wit, problem=pr),
                              'after %s with a refused COMMIT the restarted server finds: %s' % (kind, pr))
            if it is not None:
                if kdrv.ok(it):
                    msg = effect_missing(d, it, pre, post)
                    if msg:
                        ctx.violation({'class': 'acknowledged-not-durable', 'op': d['kind'], 'cut': 'refused-commit'}, wit,
                                      '%s reported SUCCESS while its COMMIT was refused (database is locked); after restart %s' % (kind, msg))
                elif not same_obs(pre, post):
                    ctx.violation({'class': 'failed-operation-left-traces', 'op': d['kind'], 'cut': 'refused-commit'}, wit,
                                  '%s answered %s but the store changed' % (kind, it['reason']))
                ctx.case_seen(('lock', idx, kind, post['proj']), nontrivial=refused)
                desc = describe(ctx, d, it, [e for e in events if e[0] != 'F'], pre['proj'], post['proj']) if d['kind'] not in ('attr', 'link-create') else None
                if desc is not None and refused:
                    cases.append('CFail %s %s %s %s %s' % (coq_store(pre['proj']), coq_op(desc), coq_shape(events),
                                                           cp.boolean(kdrv.ok(it)), coq_store(post['proj'])))
                    meta.append({'case': 'refused-commit', 'op': {k: v for k, v in desc.items() if k != 'ws'}, 'events': repr(events),
                                 'answer': history[-1]['answer'], 'history': history[-12:]})
            # 2. the same request undisturbed, in the SAME server process (no restart in between): nothing of the refused
            #    item may be applied by it
            refused_failed = was_refused_failed and refused
            d, it, events, dt, r = serve(step_fn, locked=False)
            history.append({'step': idx, 'op': {k: v for k, v in d.items() if k != 'ws'}, 'commit': 'undisturbed',
                            'answer': (it['status'], it['reason'], it['message']) if it else r['error']})
            if it is not None:
                gen.learn(d, it)
            if refused_failed and it is not None:
                post2 = restart_view()
                live0 = {k for t, k, v in post['proj'][0] if t == 0}
                live2 = {k for t, k, v in post2['proj'][0] if t == 0}
                want = {'create': 1, 'register': 1, 'derive': 1, 'link-create': 1, 'keypair': 2, 'destroy': -1}.get(d['kind'], 0)
                wit2 = {'history': history[-12:], 'before': post['proj'], 'after_both': post2['proj'],
                        'how': 'request served while a second sqlite3 connection holds BEGIN; SELECT on the file (COMMIT refused, item answered '
                               'as failed); lock released; the same request served again by the same process; restart'}
                if kdrv.ok(it) and len(live2) - len(live0) != want:
                    ctx.violation({'class': 'failed-item-applied-later', 'op': d['kind']}, wit2,
                                  '%s was answered as failed when its COMMIT was refused, yet after the next successful request %d objects '
                                  'appeared/disappeared instead of %d: the failed item was applied after all' % (kind, len(live2) - len(live0), want))
                desc2 = describe(ctx, d, it, [e for e in events if e[0] not in ('F', 'K')], post['proj'], post2['proj'])
                if desc2 is not None:
                    # model: the refused run followed by the undisturbed one = the undisturbed one alone
                    nev = [e for e in norm_positions(events)[0]]
                    cases.append('CState %s %s [(%s, %s)]' % (coq_store(post['proj']), coq_op(desc2), cp.nat(len(nev) + 1), coq_store(post2['proj'])))
                    meta.append({'case': 'state', 'coq_pre': coq_store(post['proj']), 'coq_op': coq_op(desc2), 'history': 'lock',
                                 'op': {k: v for k, v in desc2.items() if k != 'ws'}, 'events': repr(events),
                                 'note': 'undisturbed repetition after a refused COMMIT in the same process', 'steps': history[-6:]})
                    ctx.count('lock.rerun-compared-with-model')
            check_settings(ctx, eng, 'after %s' % kind, cases, meta, history)
    finally:
        box['rec'].detach()
        eng.close()


# ---------------------------------------------------------------------------------- death inside the COMMIT write-out
BIG_VALUE = bytes(bytearray((i * 7 + 3) % 251 for i in range(24 * 1024)))


def fsize_injection(ctx):
    """Process death BETWEEN two page writes of a COMMIT: a forked server with RLIMIT_FSIZE = L (SIGXFSZ restored to its
    default action) registers a 24 KiB opaque object on a copy of a prepared database; the kernel kills it at the first
    write that would make a file (database or journal) longer than L; for every L the survivor is reopened, listed, read
    and compared with the state before / after the Register.  Supports the tie (SQLite's own commit protocol is trusted)."""
    import resource
    base = ctx.work / 'fsize'
    base.mkdir(parents=True, exist_ok=True)
    eng = kdrv.Engine(path=str(base / 'prelude.db'))
    u = kdrv.first_uid(eng.request([kdrv.create(names=['k1'])])['items'][0])
    eng.request([kdrv.activate(u)])
    eng.request([kdrv.register(OT.OPAQUE_DATA, secret=kdrv.secret_for(OT.OPAQUE_DATA, b'\x5a' * 64), names=['small'])])
    eng.engine._data_store.dispose()
    prelude = str(base / 'prelude.db')
    size0 = os.path.getsize(prelude)
    big = lambda: kdrv.register(OT.OPAQUE_DATA, secret=kdrv.secret_for(OT.OPAQUE_DATA, BIG_VALUE), names=['big'])
    # reference: the Register undisturbed
    refp = str(base / 'ref.db')
    shutil.copyfile(prelude, refp)
    e2 = kdrv.Engine(path=refp)
    rr = e2.request([big()])
    e2.engine._data_store.dispose()
    if not kdrv.ok(rr['items'][0]):
        ctx.disagreement('fsize', {'problem': 'reference Register failed', 'answer': rr['items'][0]['message']})
        return
    size1 = os.path.getsize(refp)
    pre, post = observe(prelude), observe(refp)
    died = 0
    limits = list(range(4096, size1 + 4096, 4096))
    for L in limits:
        p = str(base / ('l%07d.db' % L))
        shutil.copyfile(prelude, p)
        rfd, wfd = os.pipe()
        pid = os.fork()
        if pid == 0:
            try:
                os.close(rfd)
                signal.signal(signal.SIGXFSZ, signal.SIG_DFL)
                resource.setrlimit(resource.RLIMIT_FSIZE, (L, L))
                e = kdrv.Engine(path=p)
                r = e.request([big()])
                os.write(wfd, b'ACK' if kdrv.ok(r['items'][0]) else b'NAK')
            finally:
                os._exit(0)
        os.close(wfd)
        _, status = os.waitpid(pid, 0)
        said = os.read(rfd, 16)
        os.close(rfd)
        killed = os.WIFSIGNALED(status)
        died += 1 if killed else 0
        o = observe(p)
        wit = {'how': 'fork; RLIMIT_FSIZE=%d with default SIGXFSZ; Register of a 24 KiB opaque object on a copy of the prepared database '
                      '(%d bytes before, %d after); restart' % (L, size0, size1),
               'file_size_limit': L, 'server_died': killed, 'server_said': said.decode(), 'journal_left': os.path.exists(p + '-journal')}
        for pr in o['problems']:
            ctx.violation({'class': 'unreadable-or-partial', 'op': 'register', 'cut': 'inside-commit'}, dict(wit, problem=pr),
                          'process death inside the COMMIT of a Register (file size limit %d): the restarted server finds: %s' % (L, pr))
        if not o['problems']:
            is_pre, is_post = same_obs(o, pre), same_obs(o, post)
            if not (is_pre or is_post):
                ctx.violation({'class': 'neither-before-nor-after', 'op': 'register', 'cut': 'inside-commit'}, dict(wit, found=o['proj']),
                              'process death inside the COMMIT of a Register (file size limit %d) leaves neither the state before nor after' % L)
            if said == b'ACK' and not is_post:
                ctx.violation({'class': 'acknowledged-not-durable', 'op': 'register', 'cut': 'inside-commit'}, wit,
                              'Register acknowledged before the process died, absent after restart')
        ctx.case_seen(('fsize', L, o['proj']), nontrivial=killed)
        for suffix in ('', '-journal'):
            try:
                os.unlink(p + suffix)
            except OSError:
                pass
    ctx.count('fsize.limits', len(limits))
    ctx.count('fsize.server-died', died)


# ---------------------------------------------------------------------------------- restart fidelity
def read_everything(eng, versions=((1, 2), (1, 4))):
    """Through the LIVE engine: {uid: {'attrs@v': {attribute name: [values]}, 'value': digest of Get}} of every object Locate lists."""
    r = eng.request([kdrv.locate()], user='alice')
    uids = sorted(int(u) for u in (r['items'][0]['payload'].get('unique_identifiers') or [])) if r['items'] and kdrv.ok(r['items'][0]) else None
    out = {}
    for u in uids or []:
        rec_ = {}
        for v in versions:
            a = kdrv.get_all_attributes(eng, str(u), version=v)
            rec_['attributes under KMIP %d.%d' % v] = None if a is None else {k: [json.dumps(x, sort_keys=True, default=str) for x in vals]
                                                                             for k, vals in sorted(a.items())}
        g = eng.request([kdrv.get(str(u))], user='alice')['items'][0]
        rec_['value'] = hashlib.sha1(json.dumps(g['payload'], sort_keys=True, default=str).encode()).hexdigest()[:12] if kdrv.ok(g) else (g['status'], g['reason'])
        out[u] = rec_
    return uids, out


def restart_fidelity(ctx, name, rng, scripted):
    """Every acknowledged operation is still in effect after a restart: the FULL attribute state GetAttributes reports
    (names, object groups, application specific information, masks, state, dates, ...) and the value of every object are
    read through the live engine, the server is stopped and a new KmipEngine is started on the same file (twice), and
    everything is read again.  Objects carry 0, 1 and several instances of each multi-valued attribute and are created in an
    order that makes the ids of shared value rows (object_groups, app_specific_info) differ from object identifiers."""
    eng = kdrv.Engine(workdir=str(ctx.work / name))
    history = []
    asi = lambda ns, i: kdrv.attr(AT.APPLICATION_SPECIFIC_INFORMATION, {'application_namespace': ns, 'application_data': 'data-' + ns}, i)
    grp = lambda g, i: kdrv.attr(AT.OBJECT_GROUP, g, i)
    counter = [0]

    def do(label, items, version=(1, 2)):
        r = eng.request(items, version=version, user='alice')
        res = [(i['status'], i['reason'], kdrv.first_uid(i)) for i in r['items']]
        history.append({'request': label, 'answer': res if r['error'] is None else r['error']})
        return r

    def make(n_names, n_groups, n_asi, kind='create'):
        counter[0] += 1
        k = counter[0]
        names = ['obj%d-name%d' % (k, j) for j in range(n_names)]
        gpool = ['alpha', 'beta', 'gamma']
        extra = [grp(gpool[(k + j) % 3], j) for j in range(n_groups)] + [asi('ns%d' % ((k + j) % 3), j) for j in range(n_asi)]
        if kind == 'create':
            item = kdrv.create(names=names, extra=extra)
        else:
            ot = rng.choice([OT.SECRET_DATA, OT.OPAQUE_DATA, OT.CERTIFICATE])
            attrs = ([kdrv.attr(AT.CRYPTOGRAPHIC_USAGE_MASK, [MASK.VERIFY])] if ot != OT.OPAQUE_DATA else []) + \
                [kdrv.attr(AT.NAME, kdrv.name_value(x), j) for j, x in enumerate(names)] + extra
            item = kdrv.register(ot, attrs=attrs)
        r = do('%s with %d names, %d object groups %s, %d application specific informations' % (
            kind, n_names, n_groups, [gpool[(k + j) % 3] for j in range(n_groups)], n_asi), [item])
        return kdrv.first_uid(r['items'][0]) if r['items'] and kdrv.ok(r['items'][0]) else None

    try:
        if scripted:
            shapes = [(0, 0, 0), (1, 0, 0), (2, 0, 0), (1, 1, 1), (0, 2, 2), (2, 2, 0), (0, 0, 2), (1, 1, 0), (0, 1, 1), (3, 3, 3)]
        else:
            shapes = [(rng.randint(0, 2), rng.choice([0, 0, 1, 2, 3]), rng.choice([0, 0, 1, 2])) for _ in range(rng.randint(6, 12))]
        uids = []
        for i, (a, b, c) in enumerate(shapes):
            u = make(a, b, c, 'create' if scripted or rng.random() < 0.7 else 'register')
            if u:
                uids.append(u)
            if uids and (i % 3 == 2 if scripted else rng.random() < 0.35):
                v = rng.choice(uids)
                what = rng.choice(['activate', 'revoke', 'destroy', 'delete-group', 'modify-name'])
                if what == 'activate':
                    do('Activate %s' % v, [kdrv.activate(v)])
                elif what == 'revoke':
                    do('Revoke %s (key compromise)' % v, [kdrv.revoke(v, code=enums.RevocationReasonCode.KEY_COMPROMISE)])
                elif what == 'destroy':
                    do('Destroy %s' % v, [kdrv.destroy(v)])
                    uids.remove(v)
                elif what == 'delete-group':
                    do('DeleteAttribute %s Object Group 0' % v, [kdrv.delete_attribute_v1(v, 'Object Group', 0)])
                else:
                    do('ModifyAttribute %s Name 0' % v, [kdrv.modify_attribute_v1(v, kdrv.attr(AT.NAME, kdrv.name_value('renamed-%d' % i), 0))])
        # round 8 (C09O): values on both sides of the widths a binary column may be declared with; what the restarted
        # server holds must be the WHOLE acknowledged value (compared with the bytes sent, not only with the live read)
        sent = {}
        for n in ([1025, 2049, 24 * 1024] if scripted else [rng.choice([1024, 1025, 2047, 2048, 2049, 4096, 4097, 65537])]):
            ot = OT.OPAQUE_DATA if scripted else rng.choice([OT.OPAQUE_DATA, OT.SECRET_DATA, OT.CERTIFICATE])
            val = bytes(bytearray((i * 11 + n) % 251 for i in range(n)))
            r = do('Register %s with a value of %d bytes' % (ot.name, n), [kdrv.register(ot, secret=kdrv.secret_for(ot, val))])
            u = kdrv.first_uid(r['items'][0]) if r['items'] and kdrv.ok(r['items'][0]) else None
            if u:
                sent[int(u)] = val.hex()

        def whole_values(when):
            for u, hx in sorted(sent.items()):
                g = eng.request([kdrv.get(str(u))], user='alice')['items'][0]
                got = json.dumps(g.get('payload'), sort_keys=True, default=str)
                ctx.count('restart.big-values-compared', 1)
                if not kdrv.ok(g) or hx not in got:
                    ctx.violation({'class': 'acknowledged-not-durable', 'op': 'restart', 'attribute': 'value-bytes'},
                                  {'history': history, 'when': when, 'object': u, 'sent_bytes': len(hx) // 2,
                                   'get_answer': got[:300] + '...' if len(got) > 300 else got,
                                   'how': 'Register the value, then Get it through the live engine and through a new KmipEngine '
                                          'started on the same database file; the value returned must contain the bytes sent'},
                                  '%s: object %s was registered with %d bytes and acknowledged, Get does not return them whole'
                                  % (when, u, len(hx) // 2))
                    return False
            return True

        if not whole_values('before any restart'):
            return
        listed0, before = read_everything(eng)
        for round_ in (1, 2):
            eng.engine._data_store.dispose()
            try:
                eng.restart()
            except Exception as e:  # noqa
                ctx.violation({'class': 'unreadable-or-partial', 'op': 'restart', 'cut': 'restart'}, {'history': history, 'restart': round_},
                              'the server cannot be restarted on its own database: %r' % (e,))
                return
            if not whole_values('after restart %d' % round_):
                return
            listed1, after = read_everything(eng)
            ctx.count('restart.objects-compared', len(before))
            ctx.case_seen((name, round_, json.dumps(after, sort_keys=True, default=str)), nontrivial=True)
            if listed1 != listed0:
                ctx.violation({'class': 'acknowledged-not-durable', 'op': 'restart', 'what': 'objects-listed'},
                              {'history': history, 'restart': round_, 'listed_before': listed0, 'listed_after': listed1},
                              'restart %d changes the set of objects Locate lists: %s -> %s' % (round_, listed0, listed1))
                return
            for u in sorted(before):
                if before[u] != after.get(u):
                    diffs = []
                    for k in before[u]:
                        b, a = before[u][k], (after.get(u) or {}).get(k)
                        if b != a:
                            if isinstance(b, dict) and isinstance(a, dict):
                                for an in sorted(set(b) | set(a)):
                                    if b.get(an) != a.get(an):
                                        diffs.append({'view': k, 'attribute': an, 'before_restart': b.get(an), 'after_restart': a.get(an)})
                            else:
                                diffs.append({'view': k, 'before_restart': b, 'after_restart': a})
                    d0 = diffs[0] if diffs else {}
                    ctx.violation({'class': 'acknowledged-not-durable', 'op': 'restart', 'attribute': d0.get('attribute', 'value')},
                                  {'history': history, 'restart': round_, 'object': u, 'differences': diffs[:8],
                                   'how': 'run the history against a KmipEngine, GetAttributes/Get everything, dispose the engine, start a new '
                                          'KmipEngine on the same database file, read again'},
                                  'after restart %d object %s no longer has what was acknowledged: %s was %s, is now %s' % (
                                      round_, u, d0.get('attribute', 'its value'), d0.get('before_restart'), d0.get('after_restart')))
                    return
    finally:
        eng.close()


# ---------------------------------------------------------------------------------- faults during the restart itself
def startup_static(ctx):
    """ast: nothing reachable from KmipEngine.__init__ renames, removes or recreates files (the store is only ever opened)."""
    import ast
    problems = []
    tree = ast.parse((ctx.repo / 'kmip/services/server/engine.py').read_text())
    cls = [n for n in tree.body if isinstance(n, ast.ClassDef) and n.name == 'KmipEngine']
    if not cls:
        return ['class KmipEngine not found']
    methods = {n.name: n for n in cls[0].body if isinstance(n, ast.FunctionDef)}
    seen, todo = set(), ['__init__']
    FILE_CALLS = {('os', 'rename'), ('os', 'remove'), ('os', 'unlink'), ('os', 'replace'), ('os', 'renames'), ('os', 'rmdir'),
                  ('os', 'truncate'), ('shutil', None)}
    while todo:
        m = todo.pop()
        if m in seen or m not in methods:
            continue
        seen.add(m)
        for n in ast.walk(methods[m]):
            if isinstance(n, ast.Call) and isinstance(n.func, ast.Attribute) and isinstance(n.func.value, ast.Name):
                mod, fn = n.func.value.id, n.func.attr
                if n.func.value.id == 'self':
                    todo.append(fn)
                elif (mod, fn) in FILE_CALLS or (mod, None) in FILE_CALLS:
                    problems.append('KmipEngine.%s (reachable from __init__) calls %s.%s: start-up must never rename, remove or '
                                    'recreate the store' % (m, mod, fn))
            if isinstance(n, ast.Call) and isinstance(n.func, ast.Name) and n.func.id == 'open':
                problems.append('KmipEngine.%s (reachable from __init__) opens a file itself' % m)
    return problems


def restart_faults(ctx):
    """The restart itself under faults: (1) another process holds an EXCLUSIVE lock on the store for longer than the busy
    timeout, (2) another process holds a RESERVED lock (a writer in progress), (3) a hot journal of a killed writer is
    present.  Either the start-up fails cleanly and the NEXT restart (fault gone) shows the full acknowledged state, or it
    succeeds with the full state; it never leaves other files behind, and identifiers acknowledged before are not issued
    again.  The busy timeout of new connections is shortened to 80 ms by a SQLAlchemy `connect` listener for the duration."""
    import sqlalchemy.engine
    base = ctx.work / 'restartfault'
    base.mkdir(parents=True, exist_ok=True)
    eng = kdrv.Engine(path=str(base / 'store.db'))
    hist = []
    for k in range(4):
        r = eng.request([kdrv.create(names=['key-%d' % k], extra=[kdrv.attr(AT.OBJECT_GROUP, 'grp', 0)] if k % 2 else [])])
        hist.append(('Create key-%d' % k, r['items'][0]['status'], kdrv.first_uid(r['items'][0])))
    eng.request([kdrv.activate('2')])
    hist.append(('Activate 2', 'SUCCESS', '2'))
    eng.request([kdrv.destroy('4')])
    hist.append(('Destroy 4', 'SUCCESS', '4'))
    listed0, before = read_everything(eng)
    max_uid = eng.next_uid() - 1
    eng.engine._data_store.dispose()
    path = eng.path

    def short_timeout(dbapi_connection, connection_record):
        try:
            dbapi_connection.execute('PRAGMA busy_timeout=80')
        except Exception:
            pass
    sa_event.listen(sqlalchemy.engine.Engine, 'connect', short_timeout)

    def files():
        return sorted(f for f in os.listdir(str(base)) if not f.endswith('-journal'))

    def try_start():
        try:
            e = kdrv.Engine(path=path)
            return e, None
        except Exception as ex:  # noqa
            return None, '%s: %s' % (type(ex).__name__, str(ex)[:160])

    def check_state(e, label, wit):
        listed1, after = read_everything(e)
        if listed1 != listed0 or after != before:
            missing = [u for u in (listed0 or []) if u not in (listed1 or [])]
            ctx.violation({'class': 'acknowledged-not-durable', 'op': 'restart', 'cut': label},
                          dict(wit, listed_before=listed0, listed_after=listed1, missing=missing),
                          'restart %s: the server comes up without what was acknowledged (objects listed %s -> %s)' % (label, listed0, listed1))
            return False
        r = e.request([kdrv.create(names=['after-' + label.split()[0]])])
        u = kdrv.first_uid(r['items'][0]) if r['items'] and kdrv.ok(r['items'][0]) else None
        if u is not None and int(u) <= max_uid_box[0]:
            ctx.violation({'class': 'identifier-reissued', 'op': 'restart', 'cut': label}, dict(wit, issued=u, highest_acknowledged=max_uid_box[0]),
                          'restart %s: the next Create is answered with the already acknowledged identifier %s' % (label, u))
        if u is not None:
            max_uid_box[0] = max(max_uid_box[0], int(u))
            e.request([kdrv.destroy(u)])
        return True

    max_uid_box = [max_uid]
    try:
        for label in ('under an EXCLUSIVE lock held by another process', 'under a RESERVED lock held by another process',
                      'with the hot journal of a killed writer'):
            files0 = files()
            blocker = None
            pid = None
            if 'EXCLUSIVE' in label or 'RESERVED' in label:
                blocker = sqlite3.connect(path, isolation_level=None, timeout=0.05)
                blocker.execute('BEGIN EXCLUSIVE' if 'EXCLUSIVE' in label else 'BEGIN IMMEDIATE')
            else:
                pid = os.fork()
                if pid == 0:
                    try:
                        c = sqlite3.connect(path, isolation_level=None)
                        c.execute('PRAGMA cache_size=1')
                        c.execute('BEGIN')
                        c.execute('UPDATE managed_objects SET value = randomblob(6000)')
                        c.execute('UPDATE crypto_objects SET state = 6')
                        c.execute('DELETE FROM managed_object_names')
                    finally:
                        os.kill(os.getpid(), signal.SIGKILL)
                os.waitpid(pid, 0)
                ctx.count('restart-fault.hot-journal-present', 1 if os.path.exists(path + '-journal') and os.path.getsize(path + '-journal') > 0 else 0)
            wit = {'history': hist, 'fault': label, 'how': 'acknowledged state read through the live engine; engine disposed; new KmipEngine on the '
                   'same file while %s; fault removed; new KmipEngine again; everything read again' % label}
            e1, err1 = try_start()
            ctx.count('restart-fault.%s.%s' % (label.split()[2] if label.startswith('under') else 'hot-journal', 'start-failed' if e1 is None else 'started'))
            wit['first_start'] = err1 or 'started'
            started_ok = None
            if e1 is not None and blocker is None:
                started_ok = check_state(e1, label, wit)
            if blocker is not None:
                blocker.rollback()
                blocker.close()
            if e1 is not None and blocker is not None:
                started_ok = check_state(e1, label + ' (read after the lock was released)', wit)
            if e1 is not None:
                e1.engine._data_store.dispose()
            files1 = files()
            if files1 != files0:
                ctx.violation({'class': 'store-moved-or-recreated', 'op': 'restart', 'cut': label}, dict(wit, files_before=files0, files_after=files1),
                              'restart %s changed the files of the store: %s -> %s' % (label, files0, files1))
            # the next restart, fault gone
            e2, err2 = try_start()
            wit['second_start'] = err2 or 'started'
            if e2 is None:
                ctx.violation({'class': 'unreadable-or-partial', 'op': 'restart', 'cut': label}, wit,
                              'after a start-up %s the server cannot be started any more: %s' % (label, err2))
            else:
                check_state(e2, label + ', next restart', wit)
                e2.engine._data_store.dispose()
            ctx.case_seen(('restart-fault', label, err1 is None), nontrivial=True)
    finally:
        sa_event.remove(sqlalchemy.engine.Engine, 'connect', short_timeout)


# ---------------------------------------------------------------------------------- several server lifetimes on one file
def lifetime_child(path, seed, index, n_ops, wfd):
    """One server lifetime in a process of its own: start on the file, report what is found, serve acknowledged operations,
    report the state, then die WITHOUT any shutdown (os._exit: connections, sessions and caches simply vanish)."""
    import random
    out = {'lifetime': index, 'ops': []}
    try:
        rng = random.Random(seed * 1000 + index)
        eng = kdrv.Engine(path=path)
        listed, state = read_everything(eng)
        out['found_at_start'] = {'listed': listed, 'state': state}
        live = list(listed or [])
        for k in range(n_ops):
            c = rng.random()
            if c < 0.5 or not live:
                nm = 'L%d-k%d' % (index, k)
                extra = [kdrv.attr(AT.OBJECT_GROUP, 'grp%d' % (k % 2), 0)] if rng.random() < 0.5 else []
                r = eng.request([kdrv.create(names=[nm], extra=extra)])
                label = 'Create %s' % nm
            elif c < 0.7:
                u = rng.choice(live)
                r = eng.request([kdrv.activate(str(u))])
                label = 'Activate %s' % u
            elif c < 0.85:
                u = rng.choice(live)
                r = eng.request([kdrv.modify_attribute_v1(str(u), kdrv.attr(AT.NAME, kdrv.name_value('renamed-L%d-%d' % (index, k)), 0))])
                label = 'ModifyAttribute %s Name' % u
            else:
                u = rng.choice(live)
                r = eng.request([kdrv.destroy(str(u))])
                label = 'Destroy %s' % u
            it = r['items'][0] if r['items'] else None
            out['ops'].append((label, it['status'] if it else 'request-error', it['reason'] if it else None, kdrv.first_uid(it) if it else None))
            listed, _ = read_everything(eng, versions=())
            live = list(listed or [])
        listed, state = read_everything(eng)
        out['state_at_death'] = {'listed': listed, 'state': state}
    except Exception as e:  # noqa
        out['error'] = '%s: %s' % (type(e).__name__, str(e)[:200])
    finally:
        try:
            os.write(wfd, json.dumps(out, default=str).encode())
        finally:
            os._exit(0)


def lifetimes(ctx, name, seed, n_lifetimes, n_ops):
    """>= 3 lifetimes of the server on ONE database file, each in a forked process that dies abruptly after its acknowledged
    operations: what lifetime i+1 finds at start-up must be what lifetime i reported (through the live engine) before dying."""
    d = ctx.work / name
    d.mkdir(parents=True, exist_ok=True)
    path = str(d / 'store.db')
    history = []
    prev = None
    for i in range(1, n_lifetimes + 1):
        rfd, wfd = os.pipe()
        pid = os.fork()
        if pid == 0:
            os.close(rfd)
            lifetime_child(path, seed, i, n_ops, wfd)
        os.close(wfd)
        data = b''
        while True:
            chunk = os.read(rfd, 1 << 16)
            if not chunk:
                break
            data += chunk
        os.close(rfd)
        os.waitpid(pid, 0)
        try:
            rep = json.loads(data.decode())
        except Exception:
            rep = {'lifetime': i, 'error': 'no report from the server process'}
        history.append({'lifetime': i, 'operations': rep.get('ops'), 'error': rep.get('error')})
        ctx.count('lifetimes.served')
        wit = {'database': 'one SQLite file; every lifetime = fork, KmipEngine(database_path=file), requests, os._exit', 'seed': seed,
               'history': history}
        if rep.get('error') and 'found_at_start' not in rep:
            ctx.violation({'class': 'unreadable-or-partial', 'op': 'restart', 'cut': 'lifetime-%d' % i}, wit,
                          'lifetime %d: the server cannot start on / read its own database: %s' % (i, rep['error']))
            return
        if rep.get('error'):
            ctx.disagreement('lifetimes', {'history': history, 'problem': rep['error']})
            return
        if prev is not None and rep['found_at_start'] != prev:
            a, b = prev, rep['found_at_start']
            diffs = []
            if a['listed'] != b['listed']:
                diffs.append({'objects_listed_before_death': a['listed'], 'objects_listed_after_restart': b['listed']})
            for u in sorted(set(a['state']) | set(b['state'])):
                if a['state'].get(u) != b['state'].get(u):
                    diffs.append({'object': u, 'before_death': a['state'].get(u), 'after_restart': b['state'].get(u)})
            ctx.violation({'class': 'acknowledged-not-durable', 'op': 'restart', 'cut': 'lifetime-%d' % i},
                          dict(wit, differences=diffs[:6]),
                          'what lifetime %d of the server finds on the file is not what lifetime %d had acknowledged and could read before it died: %s' % (
                              i, i - 1, json.dumps(diffs[0], default=str)[:300] if diffs else ''))
            return
        ctx.case_seen((name, i, json.dumps(rep.get('state_at_death'), sort_keys=True, default=str)), nontrivial=True)
        prev = rep['state_at_death']


def phase(ctx, label, fn, *a, **kw):
    """A part of the check that raises is a broken tie (never a pass) - but the other parts still run, so that a concrete
    failing input can be found."""
    import traceback
    try:
        return fn(*a, **kw)
    except Exception as e:  # noqa
        traceback.print_exc()
        ctx.broken.append({'kind': 'correspondence', 'name': 'harness/c09.py:' + label,
                           'detail': 'harness part %s raised: %s: %s' % (label, type(e).__name__, str(e)[:300]), 'candidates': []})
        return None


# ---------------------------------------------------------------------------------- check
def run(ctx):
    quick = ctx.tier == 'quick'
    ctx.cov['rule'] = ('seeded histories of state-changing requests (Create, CreateKeyPair, Register of the 7 stored types, DeriveKey, '
                       'Activate, Revoke, Destroy, Modify/Delete/SetAttribute under KMIP 1.2 and 2.0, small batches, creations with '
                       'link-table attributes; valid and refused variants; live, destroyed and never-issued identifiers).  One evaluation '
                       '= one cut (copy of database file + journal taken before/after a statement, before/after the commit, at item end, at '
                       'the acknowledgement, or a SIGKILL) reopened by a fresh engine, listed and read; distinct = different '
                       '(history, step, operation, cut position, rows found).  Plus: every kind of operation served once while a second '
                       'SQLite connection holds a read lock so that its COMMIT is refused (acknowledged vs stored after a restart); a forked '
                       'server killed by RLIMIT_FSIZE/SIGXFSZ at every 4 KiB file-size limit inside the COMMIT of a growing Register; the '
                       'durability settings of the live connection after start-up and after every operation.')
    ctx.cov['trusted_extra'] = [
        'TRUSTED (runtime remainder of C09, not modelled): SQLite atomic commit and hot-journal recovery, fsync ordering, the file '
        'system and page cache; SQLAlchemy unit-of-work flushing every pending change inside the transaction that commit() ends. '
        'The model\'s `recover` (durable state = state after the last Commit before the cut) IS this assumption.',
        'Crash injection (file+journal copies at every statement/commit boundary; SIGKILL of a forked worker) supports the tie; it is not a proof.',
        'The connection settings `recover` presupposes (on-disk journal or WAL, synchronous >= FULL(2), locking_mode NORMAL, driver '
        'not in autocommit) are read from the live pooled connection (PRAGMA queries) and compared in Coq (settings_ok).',
        'Lock injection: the harness shortens the busy timeout of the engine\'s connection to 80 ms (PRAGMA busy_timeout) so that a '
        'refused COMMIT costs 0.1 s instead of 5 s; the engine is restarted (pool disposed, new KmipEngine) after each refused COMMIT.',
        'Instrumentation attached from outside: sqlalchemy.event listeners on engine._data_store / session factory; '
        '_process_operation wrapped on the engine instance to delimit batch items.']
    ctx.prove('props/C09.v')
    cases, meta = [], []
    # reflected class -> tables map (joined-table inheritance)
    for ot in kdrv.STORED_TYPES:
        cases.append('CClass %s [%s]' % (cp.z(ot.value), '; '.join(cp.z(TABLES[t]) for t in class_tables_of(ot))))
        meta.append({'case': 'class-tables', 'object_type': ot.name, 'tables': class_tables_of(ot)})
    phase(ctx, 'restart_fidelity', restart_fidelity, ctx, 'restart0', ctx.subrng('restart/0'), scripted=True)
    for k in range(1, 4 if quick else 16):
        phase(ctx, 'restart_fidelity', restart_fidelity, ctx, 'restart%d' % k, ctx.subrng('restart/%d' % k), scripted=False)
    for k in range(2 if quick else 8):
        phase(ctx, 'lifetimes', lifetimes, ctx, 'lifetimes%d' % k, ctx.seed + k, 4, 4)
    phase(ctx, 'restart_faults', restart_faults, ctx)
    n_hist, n_steps = (8, 30) if quick else (24, 50)
    c, m = phase(ctx, 'run_history', run_history, ctx, 'hscript', 0, ctx.subrng('history/script'), scripted=True) or ([], [])
    cases += c
    meta += m
    for h in range(n_hist):
        c, m = phase(ctx, 'run_history', run_history, ctx, 'h%02d' % h, n_steps, ctx.subrng('history/%d' % h)) or ([], [])
        cases += c
        meta += m
    ctx.log('histories: %d operations recorded, %d cuts reopened' % (len([m for m in meta if m['case'] == 'shape']), ctx.cov['evaluations']))
    phase(ctx, 'fsize_injection', fsize_injection, ctx)               # first: a hit here is a concrete death point with an unopenable store
    phase(ctx, 'commit_failure_runs', commit_failure_runs, ctx, cases, meta)
    n_kills, kill_steps = (60, 14) if quick else (400, 20)
    kr = phase(ctx, 'kill_runs', kill_runs, ctx, n_kills, kill_steps)
    kc, km, upto = (phase(ctx, 'kill_cases', kill_cases, ctx, kr[0], kill_steps, kr[1]) if kr else None) or ([], [], 0)
    cases += kc
    meta += km
    ctx.count('kill.compared-with-model', len(kc))
    bad = ctx.run_cases('txn', HEADER, cases, 'check_tcase',
                        what='statement/commit sequence and reopened row sets at every cut vs trace_of/recover of Crash/Txn.v; '
                             'SIGKILL survivors vs posts(firstn acks(+1)); mapper tables vs class_tables')
    for i in bad[:20]:
        ctx.disagreement('txn', {k: v for k, v in meta[i].items() if not k.startswith('coq_')}, model_says=ctx.model_output(HEADER, model_view(meta[i])) if i == bad[0] else None)
    for m, c in zip(meta, cases):
        if m['case'] in ('shape', 'killed-workload'):
            ctx.sample({'case': m, 'coq': c[:600]}, limit=4)
    # static tie last, so that a concrete failing input (if any) heads the replay
    for p in startup_static(ctx):
        ctx.violation({'class': 'store-moved-or-recreated', 'op': 'restart', 'cut': 'static'}, {'finding': p, 'file': 'kmip/services/server/engine.py'}, p)


def model_view(m):
    """For a disagreeing case: what the model computes (printed into the replay)."""
    if m.get('case') == 'shape':
        return 'norm false (map sh_of (trace_of %s %s))' % (m['coq_op'], m['coq_pre'])
    if m.get('case') == 'state':
        return 'post %s %s' % (m['coq_op'], m['coq_pre'])
    return 'true'


def replay(ctx, data):
    """bin/check C09 --replay file: re-runs the seeded history (or the killed workload) named in the replay file and
    applies the same oracle; exit 1 when the violation shows again."""
    import random
    ctx.seed = int(data.get('seed', ctx.seed))
    ctx.tier = data.get('tier', ctx.tier)
    inp = data.get('input') or {}
    ctx.log('replaying seed %d: %s' % (ctx.seed, data.get('what') or data.get('no_longer_checks')))
    if isinstance(inp, dict) and str(inp.get('history', '')).startswith('h'):
        quick = ctx.tier == 'quick'
        n_steps = 30 if quick else 50
        if inp['history'] == 'hscript':
            cases, meta = run_history(ctx, 'hscript', 0, ctx.subrng('history/script'), scripted=True)
        else:
            cases, meta = run_history(ctx, inp['history'], n_steps, ctx.subrng('history/%d' % int(inp['history'][1:])))
        bad = ctx.run_cases('txn', HEADER, cases, 'check_tcase')
        for i in bad[:5]:
            ctx.disagreement('txn', {k: v for k, v in meta[i].items() if not k.startswith('coq_')})
        return ctx.finish()
    run(ctx)
    return ctx.finish()
