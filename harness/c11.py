"""C11 - requests are isolated from each other's transient state.

Every request of every generated history is treated as a PROBE with respect to the history before it:
just before the live engine processes it, the database file is copied and a FRESH KmipEngine object is
opened on the copy; the same request is sent to both and the two answers (whole projected responses)
and the two resulting database contents must be equal - that comparison is the direct oracle and is
exactly the property's quantifier.  In addition Coq compares the live answers with the model
(Isolation/Cases.v xcheck_history): request-level errors, class of every item, identifiers issued,
attribute-name lists under the request's protocol version.
"""
import json
import os
import shutil

import c07
import kdrv
from kdrv import OP, OT
from kmip.core import enums
from vlib import coqprint as cp

HEADER_S = ('From PK Require Import Isolation.Session.\nFrom Coq Require Import List ZArith Bool String.\n'
            'Import ListNotations.\nOpen Scope Z_scope.\nOpen Scope string_scope.\n')
HEADER = ('From PK Require Import Isolation.Cases.\nFrom Coq Require Import List ZArith Bool String.\n'
          'Import ListNotations.\nOpen Scope Z_scope.\nOpen Scope string_scope.\n')

USERS = c07.USERS
ERRORS = {'Future request rejected by server.': 'EFuture', 'Stale request rejected by server.': 'EStale',
          'Asynchronous operations are not supported.': 'EAsync',
          'Undo option for batch handling is not supported.': 'EUndo', 'Batch item ID is undefined.': 'EBatchId'}
IDLESS_KINDS = c07.KINDS          # all thirteen addressed operations can be sent without an identifier

KEY_BASE = ['Unique Identifier', 'Object Type', 'Cryptographic Algorithm', 'Cryptographic Length', 'Cryptographic Usage Mask',
            'State', 'Initial Date', 'Sensitive', 'Operation Policy Name']
TYPE_BASE = {
    'TSym': KEY_BASE, 'TPub': KEY_BASE, 'TPriv': KEY_BASE, 'TSplit': KEY_BASE,
    'TCert': ['Unique Identifier', 'Object Type', 'Certificate Type', 'Cryptographic Usage Mask', 'State', 'Initial Date',
              'Sensitive', 'Operation Policy Name'],
    'TSecret': ['Unique Identifier', 'Object Type', 'Cryptographic Usage Mask', 'State', 'Initial Date', 'Sensitive',
                'Operation Policy Name'],
    'TOpaque': ['Unique Identifier', 'Object Type', 'Initial Date', 'Sensitive', 'Operation Policy Name']}


def present_names(spec):
    """Attribute names the template of a creating request leaves with a value on each created object
    (all protocol versions together; the model filters by version with the generated rule table)."""
    o = spec['op']
    if o == 'create':
        return [sorted(KEY_BASE + ['Name'] + (['Object Group'] if spec.get('rich') else []))]
    if o == 'ckp':
        return [sorted(KEY_BASE), sorted(KEY_BASE)]
    if o == 'register':
        return [sorted(TYPE_BASE[spec['t']] + ['Name'])]
    if o == 'derive':
        return [sorted(TYPE_BASE[spec['t']])]
    return []


def strs(xs):
    return cp.lst(xs, cp.string)


# ------------------------------------------------------------------ tie of `transient` to the engine class (fails closed)
MODELLED_FIELDS = {'_id_placeholder', '_protocol_version', '_attribute_policy', '_client_identity', 'is_asynchronous',
                   '_data_session'}
MUTATORS = {'append', 'extend', 'update', 'add', 'pop', 'clear', 'remove', 'insert', 'setdefault', 'popitem', 'discard', 'sort', 'reverse'}


def engine_mutable_fields(repo):
    """Attributes of the KmipEngine object that any method other than __init__ assigns, augments, item-assigns or
    mutates through a container method: what a request can leave behind in the object."""
    import ast
    from pathlib import Path
    tree = ast.parse((Path(repo) / 'kmip/services/server/engine.py').read_text())
    cls = [n for n in tree.body if isinstance(n, ast.ClassDef) and n.name == 'KmipEngine']
    if len(cls) != 1:
        raise ValueError('class KmipEngine not found')
    found = {}

    def self_attr(node):
        while isinstance(node, (ast.Subscript, ast.Starred)):
            node = node.value
        if isinstance(node, ast.Attribute) and isinstance(node.value, ast.Name) and node.value.id == 'self':
            return node.attr
        return None

    def targets_of(t):
        if isinstance(t, (ast.Tuple, ast.List)):
            for e in t.elts:
                yield from targets_of(e)
        else:
            yield t

    for fn in ast.walk(cls[0]):
        if not isinstance(fn, (ast.FunctionDef, ast.AsyncFunctionDef)) or fn.name == '__init__':
            continue
        for node in ast.walk(fn):
            tgts = []
            if isinstance(node, ast.Assign):
                tgts = [x for t in node.targets for x in targets_of(t)]
            elif isinstance(node, (ast.AugAssign, ast.AnnAssign)):
                tgts = [node.target]
            elif isinstance(node, (ast.For, ast.AsyncFor)):
                tgts = list(targets_of(node.target))
            elif isinstance(node, ast.withitem) and node.optional_vars is not None:
                tgts = list(targets_of(node.optional_vars))
            elif isinstance(node, ast.Delete):
                tgts = node.targets
            elif isinstance(node, ast.Call) and isinstance(node.func, ast.Attribute) and node.func.attr in MUTATORS:
                a = self_attr(node.func.value)
                if a is not None and not a.startswith('_data_session'):
                    found.setdefault(a, node.lineno)
            elif (isinstance(node, ast.Call) and isinstance(node.func, ast.Name) and node.func.id == 'setattr' and node.args
                  and isinstance(node.args[0], ast.Name) and node.args[0].id == 'self'):
                raise ValueError('setattr() in KmipEngine.%s line %d: cannot tell which field it writes' % (fn.name, node.lineno))
            for t in tgts:
                a = self_attr(t)
                if a is not None:
                    found.setdefault(a, node.lineno)
    return found


class NoAnswer(Exception):
    pass


class XRunner(c07.Runner):
    """c07.Runner with the request header options of C11, the Isolation model's terms and the fork comparison."""

    def __init__(self, ctx, eng, fork=True):
        super().__init__(ctx, eng, oracle=False)
        self.fork = fork
        self.forks = 0

    def restart(self, dispose=True):
        if dispose:
            try:
                self.eng.engine._data_store.dispose()
            except Exception:
                pass
        self.eng.restart()
        self.events.append({'ev': 'restart'})
        self.coq.append(('XRestart', 'XB None %s %s' % (c07.zt(self.eng.next_uid()), cp.lst(self.eng.uids(), c07.zt))))
        self.ctx.count('event.restart')

    def build_request(self, eng, conc, ver, cont, stamp, asynchronous, undo, ids, max_size):
        items = [c07.build_item(c, ver) for c in conc]
        t = eng.clock.t
        ts = {'absent': None, 'recent': t - 10, 'future': t + 100, 'stale': t - 1000}[stamp]
        opt = enums.BatchErrorContinuationOption.UNDO if undo else (enums.BatchErrorContinuationOption.CONTINUE if cont else None)
        return eng.build(items, version=ver, batch_option=opt, time_stamp=ts, asynchronous=asynchronous, ids=ids, max_size=max_size)

    threaded = False          # True: the requests to the live engine are served by two long-lived worker threads in turn (as KmipSession threads do)
    ANSWER_TIMEOUT = 8.0

    def send(self, eng, conc, who, ver, cont, stamp, asynchronous, undo, ids, max_size=None, live=True):
        req = self.build_request(eng, conc, ver, cont, stamp, asynchronous, undo, ids, max_size)
        if not (self.threaded and live):
            return eng.process(req, *c07.identity(who))
        # Two long-lived worker threads serve the requests in turn (a finished thread's identifier may be handed to
        # the next new thread, which would make it look like the owner of a lock the finished one left behind).
        import threading, queue
        if not hasattr(self, '_workers'):
            self._workers, self._turn = [], 0
            for _ in range(2):
                q = queue.Queue()

                def loop(q=q):
                    while True:
                        fn, box, done = q.get()
                        try:
                            box['r'] = fn()
                        except BaseException as e:
                            box['exc'] = e
                        done.set()
                threading.Thread(target=loop, daemon=True).start()
                self._workers.append(q)
        box, done = {}, threading.Event()
        self._turn += 1
        self._workers[self._turn % 2].put((lambda: eng.process(req, *c07.identity(who)), box, done))
        if not done.wait(self.ANSWER_TIMEOUT):
            raise NoAnswer('no answer within %.0f s' % self.ANSWER_TIMEOUT)
        if 'exc' in box:
            raise box['exc']
        return box['r']

    def new_reference(self, eng):
        return fork_engine(eng, self.ctx.work)

    # hooks for the connection-level runner
    def wrap(self, ev_term, out_term, r, next_uid, uids, max_size):
        return ev_term, 'XB (Some %s) %s %s' % (out_term, c07.zt(next_uid), cp.lst(uids, c07.zt))

    def error_out(self, r):
        msg = r['error']['message']
        code = ERRORS.get(msg) or ('EVersion' if msg.endswith('is not supported by the server.') else None)
        if code is None:
            raise RuntimeError('unclassified request-level error: %r' % (r['error'],))
        return '(XErr %s)' % code, code

    def request(self, who, ver, cont, specs, stamp='absent', asynchronous=None, undo=False, ids=None, max_size=None):
        eng, tr = self.eng, self.tr
        conc = [c07.concretize(self, s) for s in specs]
        ev_index = len(self.events)
        # ---- fork: a fresh engine object on a copy of the database file, before the live engine sees the request
        other = None
        if self.fork:
            other = self.new_reference(eng)
            self.forks += 1
        try:
            r = self.send(eng, conc, who, ver, cont, stamp, asynchronous, undo, ids, max_size, live=True)
        except NoAnswer as e:
            self.events.append({'ev': 'req', 'who': who, 'ver': list(ver), 'cont': cont, 'stamp': stamp, 'async': asynchronous,
                                'undo': undo, 'ids': ids, 'max_size': max_size, 'items': [c07.strip(c) for c in conc], 'error': 'NO ANSWER'})
            self.hits.append(({'kind': 'no-answer', 'threaded': True},
                              {'history': list(self.events), 'probe_event': ev_index, 'threaded': True,
                               'difference': {'what': str(e), 'live': 'the serving thread is still blocked', 'fresh': 'not asked'}},
                              'request %d of the history (by %s, the requests of this history are served by two worker threads in turn) got %s '
                              'from the live engine' % (ev_index, c07.who_name(who), e)))
            if other is not None:
                other.close()
            raise
        after_next, after_uids = eng.next_uid(), eng.uids()
        classes = []
        if r['error'] is None:
            for c, it in zip(conc, r['items']):
                cl = c07.classify(c, it)
                if c['op'] == 'addr' and c['k'] == 'AGetAttributeList' and it['status'] == 'SUCCESS':
                    cl = ('XNames', sorted(it['payload'].get('attribute_names') or []))
                classes.append(cl)
                c['gate'] = it['status'] == 'SUCCESS'
                c['class'] = cl[0]
                c['out'] = cl[1]
                c['reason'] = it['reason']
                c['message'] = it['message']
        vz = ver[0] * 10 + ver[1]
        n = len(conc)
        ids_ok = True if ids is True else (False if ids is False else n > 1)
        item_terms = []
        for c in conc:
            pres = present_names(c)
            if c['op'] == 'addr' and c['k'] == 'ADeleteAttribute':
                pres = [['Object Group']]              # build_addr deletes the first Object Group value
            item_terms.append('XI %s %s %s' % (c07.op_term(c), cp.boolean(c.get('gate', True)), cp.lst(pres, strs)))
        ev = 'XQ %d %d %s %s %s %s %s %s' % (
            who, vz, {'absent': 'StampAbsent', 'recent': 'StampRecent', 'future': 'StampFuture', 'stale': 'StampStale'}[stamp],
            'None' if asynchronous is None else '(Some %s)' % cp.boolean(asynchronous),
            cp.boolean(undo), cp.boolean(cont), cp.boolean(ids_ok), cp.lst(item_terms, str))
        if r['error'] is not None:
            out, code = self.error_out(r)
        else:
            out = '(XOk %s)' % cp.lst([xresp_term(cl) for cl in classes], str)
        self.coq.append(self.wrap(ev, out, r, after_next, after_uids, max_size))
        self.events.append({'ev': 'req', 'who': who, 'ver': list(ver), 'cont': cont, 'stamp': stamp, 'async': asynchronous,
                            'undo': undo, 'ids': ids, 'max_size': max_size, 'items': [c07.strip(c) for c in conc], 'error': r['error'],
                            'next_uid': after_next, 'uids': after_uids})
        self.ctx.count('event.request')
        if r['error'] is not None:
            self.ctx.count('request.error.' + code)
        for c, cl in zip(conc, classes):
            idless = c['op'] in ('addr', 'destroy', 'getwrapped') and c.get('tgt') is None
            self.ctx.count('item.%s%s.%s' % (c['op'] + ('.' + c['k'] if c['op'] == 'addr' else ''), '.noid' if idless else '', cl[0]))
            if cl[0] == 'RIssued':
                ts_ = ['TPub', 'TPriv'] if c['op'] == 'ckp' else [c.get('t', 'TSym')]
                for u, t in zip(cl[1], ts_):
                    tr.issued(u, who, t, bool(c.get('rich')) or c['op'] == 'derive', 1 if c.get('pol') else 0)
            if cl[0] == 'RDestroyed':
                tr.destroyed.setdefault(cl[1], ev_index)
        # ---- the direct oracle: the fresh engine must answer the same and end in the same database state
        if other is not None:
            try:
                r2 = self.send(other, conc, who, ver, cont, stamp, asynchronous, undo, ids, max_size, live=False)
                issued = [u for cl in classes if cl[0] == 'RIssued' for u in cl[1]]
                d = diff_answers(r, r2, issued) or diff_dumps(eng.dump(), other.dump(), issued)
                if d:
                    kinds = sorted({('%s%s' % (c['op'] + ('.' + c['k'] if c['op'] == 'addr' else ''),
                                               '.noid' if c.get('tgt', 0) is None else '')) for c in conc})
                    self.hits.append(({'kind': 'live-differs-from-fresh', 'ops': kinds},
                                      {'history': self.events[:ev_index + 1], 'probe_event': ev_index, 'difference': d},
                                      'request %d of the history (%s by %s, KMIP %d.%d) is answered differently by the live engine '
                                      'than by a fresh engine on a copy of the same database: %s' % (
                                          ev_index, '+'.join(kinds), c07.who_name(who), ver[0], ver[1], d['what'])))
            finally:
                other.close()
        return r, conc, classes


# ------------------------------------------------------------------ connection level: a real KmipSession per connection
SESSION_FIELDS_WRITTEN = set()          # KmipSession methods other than __init__ must not assign any attribute of self
BAD_FRAME = b'\x42\x00\x78\x01\x00\x00\x00\x10' + b'\x42\x00\x69\x01\x00\x00\x00\x08' + b'\xde\xad\xbe\xef' * 2   # framed, not a request
AUTH_FAILED = 'An error occurred during client authentication. See server logs for more information.'
# the directory of the (stubbed) SLUGS authentication service: user -> group code (c07.GROUPS); mallory is unknown to it
SLUGS_DIRECTORY = {'alice': 0, 'bob': 1, 'carol': 3, 'dave': 2}
SLUGS_URL = 'http://slugs.test/'


def slugs_who(user_index):
    """The requester code of a user authenticated through the SLUGS stub (mallory: 4, never authenticated)."""
    name = c07.USERS[user_index]
    return user_index + 100 * SLUGS_DIRECTORY.get(name, 0)


class _SlugsResponse:
    def __init__(self, status, body=None):
        self.status_code = status
        self._body = body

    def json(self):
        return self._body


def slugs_get(url, timeout=None):
    """Stands in for requests.get inside kmip.services.server.auth.slugs."""
    assert url.startswith(SLUGS_URL + 'users/'), url
    rest = url[len(SLUGS_URL + 'users/'):]
    user = rest.split('/')[0]
    if user not in SLUGS_DIRECTORY:
        return _SlugsResponse(404)
    if rest.endswith('/groups'):
        g = c07.GROUPS[SLUGS_DIRECTORY[user]]
        return _SlugsResponse(200, {} if g is None else {'groups': list(g)})
    return _SlugsResponse(200, {})


def new_auth_settings():
    """What KmipServer builds once from its configuration and hands to EVERY session it starts."""
    return [('auth:slugs', {'enabled': 'True', 'url': SLUGS_URL})]


TOO_LARGE = 'Response message length too large. See server logs for more information.'
PARSE_ERROR = 'Error parsing request message. See server logs for more information.'


class Pipe:
    """Stands in for the TLS socket of one client connection: feed() a frame, the session answers into sent."""
    def __init__(self, cert_der):
        self.buf = b''
        self.sent = []
        self.cert = cert_der

    def feed(self, data):
        self.buf += bytes(data)

    def recv(self, n):
        d, self.buf = self.buf[:n], self.buf[n:]
        return d

    def sendall(self, data):
        self.sent.append(bytes(data))

    def getpeercert(self, binary_form=False):
        return self.cert

    def cipher(self):
        return ('ECDHE-RSA-AES256-GCM-SHA384', 'TLSv1.2', 256)

    def shared_ciphers(self):
        return [self.cipher()]


def decode_response(data, ver):
    from kmip.core import utils as kutils
    from kmip.core.messages import messages as kmsg, contents as kcont
    kv = kcont.protocol_version_to_kmip_version(kcont.ProtocolVersion(*ver)) or enums.KMIPVersion.KMIP_1_2
    resp = kmsg.ResponseMessage()
    resp.read(kutils.BytearrayStream(data), kmip_version=kv)
    h = resp.response_header
    return {'items': [kdrv.project_item(bi) for bi in resp.batch_items], 'raw': resp,
            'version': (h.protocol_version.major, h.protocol_version.minor),
            'header': {'version': (h.protocol_version.major, h.protocol_version.minor), 'batch_count': h.batch_count.value,
                       'time_stamp': h.time_stamp.value}}


class ThreadedXRunner(XRunner):
    threaded = True


class SessRunner(XRunner):
    """XRunner whose requests travel as encoded frames through a real KmipSession per client connection; the fresh side of
    every comparison is a NEW connection (new session object) to a fresh engine on a copy of the database."""

    def __init__(self, ctx, eng, fork=True, slugs=False):
        super().__init__(ctx, eng, fork=fork)
        import sessdrv
        self.sd = sessdrv
        self.conns = {}            # who -> (conn id, session, pipe, proxy)
        self.nconn = 0
        self.slugs = slugs
        # as in KmipServer: ONE settings object for all sessions of the live server; the reference gets fresh ones
        self.auth_settings = new_auth_settings() if slugs else None

    def open_connection(self, eng, who, live=True):
        from kmip.services.server import session as session_mod
        import logging
        proxy = self.sd.EngineProxy(eng)
        pipe = Pipe(self.sd.make_cert([c07.identity(who)[0]], 'client'))
        settings = None
        if self.slugs:
            settings = self.auth_settings if live else new_auth_settings()
        sess = session_mod.KmipSession(proxy, pipe, ('192.0.2.7', 5696 + (who % 100) % 2), name='c11', enable_tls_client_auth=True,
                                        auth_settings=settings)     # alice/carol/mallory and bob/dave come from the same (ip, port)
        sess._logger.setLevel(logging.CRITICAL + 1)
        self.nconn += 1
        return (self.nconn, sess, pipe, proxy)

    def reconnect(self, who=None):
        if who is None:
            self.conns.clear()
        else:
            self.conns.pop(who, None)
        self._recon = getattr(self, '_recon', []) + [who]
        self.ctx.count('event.reconnect')

    def request(self, who, ver, cont, specs, stamp='absent', asynchronous=None, undo=False, ids=None, max_size=None):
        # a client can only send what its own encoder accepts: skip requests that cannot be encoded (nothing has happened yet)
        conc = [c07.concretize(self, s_) for s_ in specs]
        try:
            self.encode(self.build_request(self.eng, conc, ver, cont, stamp, asynchronous, undo, ids, max_size), ver)
        except Exception as e:
            self.ctx.count('skipped.unencodable.%s' % type(e).__name__)
            return None
        out = super().request(who, ver, cont, specs, stamp=stamp, asynchronous=asynchronous, undo=undo, ids=ids, max_size=max_size)
        self.events[-1]['reconnect_before'] = getattr(self, '_recon', [])
        self._recon = []
        return out

    def restart(self, dispose=True):
        self.conns.clear()
        if self.slugs:
            self.auth_settings = new_auth_settings()     # a restarted server reads its configuration again
        if dispose:
            try:
                self.eng.engine._data_store.dispose()
            except Exception:
                pass
        self.eng.restart()
        self.events.append({'ev': 'restart'})
        self.coq.append(('SRestartAll', 'SO None %s %s' % (c07.zt(self.eng.next_uid()), cp.lst(self.eng.uids(), c07.zt))))
        self.ctx.count('event.restart')

    def exchange(self, eng, who, frame, ver, live):
        """One frame through a session; returns the r dict the engine-level runner expects (items/error as the ENGINE
        answered, so that bookkeeping works) plus r['session'] = what the client finally received."""
        from kmip.services.server import engine as engine_mod
        if live:
            if who not in self.conns:
                self.conns[who] = self.open_connection(eng, who)
            cid, sess, pipe, proxy = self.conns[who]
        else:
            cid, sess, pipe, proxy = self.open_connection(eng, who, live=False)
        engine_mod.time = eng.clock
        ncalls, nsent = len(proxy.calls), len(pipe.sent)
        pipe.feed(frame)
        escaped = None
        from kmip.services.server.auth import slugs as slugs_mod
        old_get = slugs_mod.requests.get
        slugs_mod.requests.get = slugs_get
        try:
            sess._handle_message_loop()
        except Exception as e:                  # KmipSession.run logs it and goes on: the client gets nothing for this message
            escaped = type(e).__name__
            pipe.buf = b''
        finally:
            slugs_mod.requests.get = old_get
        if escaped is None and len(pipe.sent) != nsent + 1:
            raise RuntimeError('the session sent %d messages for one frame' % (len(pipe.sent) - nsent))
        data = pipe.sent[-1] if len(pipe.sent) > nsent else b''
        try:
            final = decode_response(data, ver)
            fin = [{k: v for k, v in it.items() if k != 'raw'} for it in final['items']]
        except Exception:
            final, fin = None, data.hex()
        call = proxy.calls[ncalls] if len(proxy.calls) > ncalls else None
        outcome = 'answer'
        if escaped is not None:
            outcome = 'escaped'
            fin = 'the session raised %s; %d bytes sent' % (escaped, len(data))
        elif final is not None and len(final['items']) == 1 and final['items'][0]['op'] is None:
            m = final['items'][0]['message']
            outcome = 'toolarge' if m == TOO_LARGE else ('invalid' if m == PARSE_ERROR and call is None else
                                                         ('authfail' if m == AUTH_FAILED and call is None else 'answer'))
        r = {'error': None, 'items': [], 'raw': None, 'max_size': None, 'version': None, 'header': None}
        englen = 0
        if call is None:
            it = final['items'][0] if final is not None and final['items'] else {}
            r['error'] = {'reason': it.get('reason'), 'message': it.get('message') or ('no answer: ' + str(fin)), 'status': it.get('status')}
        elif call.get('kind') == 'kmiperr':
            r['error'] = {'reason': call['reason'].name, 'message': call['message'], 'status': 'OPERATION_FAILED'}
        elif call.get('kind') == 'resp' and call.get('bytes') is not None:
            eng_r = decode_response(call['bytes'], call['version'])
            r.update(items=eng_r['items'], header=eng_r['header'], version=eng_r['version'], max_size=call['max_size'])
            englen = len(call['bytes'])
        else:
            raise RuntimeError('engine call ended as %r' % (call.get('kind'),))
        r['session'] = {'outcome': outcome, 'final': fin, 'final_len': len(data), 'conn': cid, 'engine_len': englen}
        return r

    pristine_every = 1        # every n-th reference answer comes from a pristine process, the others from this interpreter

    def new_reference(self, eng):
        reference()                                    # make sure the zygote exists before this process serves anything
        self._nref = getattr(self, '_nref', 0) + 1
        if self._nref % self.pristine_every:
            return fork_engine(eng, self.ctx.work)
        self.ctx.count('probe.reference_from_pristine_process')
        return RefHandle(copy_database(eng, self.ctx.work))

    def reference_exchange(self, handle, who, frame, ver):
        r, dump = reference().answer(handle.path, self.eng.clock.t, who, frame, ver, self.slugs)
        handle._dump = dump
        return r

    def encode(self, req, ver):
        """A client may put any version numbers into the header; the body is then encoded under the 1.2 rules."""
        return self.sd.encode_request(req, ver if tuple(ver) in kdrv.VERSIONS else (1, 2))

    def send(self, eng, conc, who, ver, cont, stamp, asynchronous, undo, ids, max_size=None, live=True):
        req = self.build_request(self.eng, conc, ver, cont, stamp, asynchronous, undo, ids, max_size)
        if isinstance(eng, RefHandle):
            return self.reference_exchange(eng, who, self.encode(req, ver), ver)
        return self.exchange(eng, who, self.encode(req, ver), ver, live)

    def error_out(self, r):
        if r['session']['outcome'] == 'invalid':
            return 'SInvalid', 'Invalid'
        if r['session']['outcome'] == 'authfail':
            return 'SAuthFail', 'AuthFail'
        if r['session']['outcome'] == 'escaped':
            return '(XErr EVersion)', 'SessionRaised'        # no model outcome for "no answer at all": will disagree, as it must
        return super().error_out(r)

    def wrap(self, ev_term, out_term, r, next_uid, uids, max_size):
        se = r['session']
        who = ev_term.split()[1]
        self.ctx.count('session.outcome.' + se['outcome'])
        if se['outcome'] == 'invalid':
            ev = 'SBadF %d %s' % (se['conn'], who)
            out = 'SInvalid'
        elif se['outcome'] == 'authfail':
            ev = 'SNoAuthF %d %s' % (se['conn'], who)
            out = 'SAuthFail'
        else:
            ev = 'SF %d (%s) %s %d' % (se['conn'], ev_term, 'None' if max_size is None else '(Some %d)' % max_size, se['engine_len'])
            out = 'STooLarge' if se['outcome'] == 'toolarge' else '(SAnswer %s)' % out_term
        return ev, 'SO (Some %s) %s %s' % (out, c07.zt(next_uid), cp.lst(uids, c07.zt))

    def bad_frame(self, who, length=None):
        """An undecodable message on the connection of `who`; with `length`, one whose header announces that many body
        bytes (and carries them): around and above the 1 MiB the session calls its maximum request size."""
        BAD_FRAME = globals()['BAD_FRAME'] if length is None else (b'\x42\x00\x78\x01' + int(length).to_bytes(4, 'big') + b'\x00' * int(length))
        other = self.new_reference(self.eng) if self.fork else None
        r = self.exchange(self.eng, who, BAD_FRAME, (1, 2), True)
        if other is not None:
            try:
                self.forks += 1
                r2 = (self.reference_exchange(other, who, BAD_FRAME, (1, 2)) if isinstance(other, RefHandle)
                      else self.exchange(other, who, BAD_FRAME, (1, 2), False))
                d = diff_answers(r, r2)
                if d:
                    self.events.append({'ev': 'bad_frame', 'who': who, 'length': length, 'final': r['session']['final'],
                                        'reconnect_before': getattr(self, '_recon', [])})
                    self.hits.append(({'kind': 'live-differs-from-fresh', 'ops': ['undecodable-message']},
                                      {'history': list(self.events), 'probe_event': len(self.events) - 1, 'difference': d},
                                      'an undecodable message is answered differently by the live engine than by a fresh engine '
                                      'on a copy of the same database: %s' % d['what']))
                    self.events.pop()
            finally:
                other.close()
        self.coq.append(('SBadF %d %d' % (r['session']['conn'], who),
                         'SO (Some %s) %s %s' % ('SInvalid' if r['session']['outcome'] == 'invalid' else '(SAnswer (XErr EVersion))',
                                                 c07.zt(self.eng.next_uid()), cp.lst(self.eng.uids(), c07.zt))))
        self.events.append({'ev': 'bad_frame', 'who': who, 'length': length, 'final': r['session']['final'], 'reconnect_before': getattr(self, '_recon', [])})
        self.ctx.count('event.bad_frame.%s' % ('garbage' if length is None else ('over_1MiB' if length > 1048576 else 'upto_1MiB')))
        self._recon = []
        self.ctx.count('event.bad_frame')


def class_mutable_fields(repo, path, cls_name):
    """engine_mutable_fields for any class (used for KmipSession)."""
    import ast
    from pathlib import Path
    tree = ast.parse((Path(repo) / path).read_text())
    cls = [n for n in tree.body if isinstance(n, ast.ClassDef) and n.name == cls_name]
    if len(cls) != 1:
        raise ValueError('class %s not found' % cls_name)
    found = {}
    for fn in ast.walk(cls[0]):
        if not isinstance(fn, (ast.FunctionDef, ast.AsyncFunctionDef)) or fn.name == '__init__':
            continue
        for node in ast.walk(fn):
            tgts = []
            if isinstance(node, ast.Assign):
                tgts = list(node.targets)
            elif isinstance(node, (ast.AugAssign, ast.AnnAssign)):
                tgts = [node.target]
            elif isinstance(node, ast.Call) and isinstance(node.func, ast.Name) and node.func.id == 'setattr':
                tgts = [ast.Attribute(value=node.args[0], attr='<setattr>', ctx=ast.Store())] if node.args else []
            flat = []
            for t in tgts:
                flat += list(t.elts) if isinstance(t, (ast.Tuple, ast.List)) else [t]
            for t in flat:
                while isinstance(t, ast.Subscript):
                    t = t.value
                if isinstance(t, ast.Attribute) and isinstance(t.value, ast.Name) and t.value.id == 'self':
                    found.setdefault(t.attr, node.lineno)
    return found


def process_request_is_synchronized(repo):
    """process_request, the only writer of the engine's transient fields besides the handlers it calls, must run under
    the engine lock as a whole: decorated with _synchronize, whose body is `with self._lock:`."""
    import ast
    from pathlib import Path
    tree = ast.parse((Path(repo) / 'kmip/services/server/engine.py').read_text())
    cls = [n for n in tree.body if isinstance(n, ast.ClassDef) and n.name == 'KmipEngine'][0]
    fns = {n.name: n for n in cls.body if isinstance(n, ast.FunctionDef)}
    pr, sy = fns.get('process_request'), fns.get('_synchronize')
    if pr is None or sy is None:
        return 'process_request or _synchronize not found'
    if not any(isinstance(d, ast.Name) and d.id == '_synchronize' for d in pr.decorator_list):
        return 'process_request is not decorated with _synchronize (decorators: %s)' % [ast.dump(d)[:40] for d in pr.decorator_list]
    inner = [n for n in ast.walk(sy) if isinstance(n, ast.With)]
    ok = any(isinstance(i.context_expr, ast.Attribute) and i.context_expr.attr == '_lock' for w in inner for i in w.items)
    if not ok:
        return '_synchronize does not take self._lock'
    # ... and takes it unconditionally: the wrapper's body is the `with self._lock:` statement and nothing else
    wrappers = [n for n in sy.body if isinstance(n, ast.FunctionDef)]
    if len(wrappers) != 1:
        return '_synchronize has %d inner functions' % len(wrappers)
    body = [st for st in wrappers[0].body if not (isinstance(st, ast.Expr) and isinstance(getattr(st, 'value', None), ast.Constant))]
    if len(body) != 1 or not isinstance(body[0], ast.With):
        return '_synchronize does more than `with self._lock: return function(...)` (%s): some calls may run outside the lock' % (
            [type(st).__name__ for st in body])
    return None


def xresp_term(cl):
    if cl[0] == 'XNames':
        return '(XNames %s)' % strs(cl[1])
    return '(XR %s)' % c07.resp_term(cl)


def copy_database(eng, work):
    d = os.path.join(str(work), 'forks')
    os.makedirs(d, exist_ok=True)
    dst = os.path.join(d, 'fork_%s' % os.path.basename(eng.path))
    for suffix in ('', '-journal', '-wal', '-shm'):
        if os.path.exists(dst + suffix):
            os.unlink(dst + suffix)
        if os.path.exists(eng.path + suffix):
            shutil.copy(eng.path + suffix, dst + suffix)
    if not os.path.exists(dst):
        open(dst, 'wb').close()
    return dst


def fork_engine(eng, work):
    """A fresh KmipEngine object on a copy of the live engine's database file (and journal), same fake clock."""
    dst = copy_database(eng, work)
    return kdrv.Engine(path=dst, policies=c07.build_policies(), clock=eng.clock)       # nothing mutable is shared with the live server


# ------------------------------------------------------------------ reference answers from a pristine interpreter state
class PristineReference:
    """State that outlives engines and sessions (class attributes, module-level tables, caches keyed by peer address ...) is
    shared by everything in one interpreter - also by a 'fresh' engine and session created later in it.  The connection-level
    reference answers therefore come from a process that has never served a request: a zygote forked before this check sends
    its first request forks one child per reference probe; the child opens a new engine on the copy of the database and a new
    session, answers the one message and exits."""

    def __init__(self):
        import pickle, struct
        self.pickle, self.struct = pickle, struct
        import sessdrv
        for u in c07.USERS:                     # certificates are generated once and inherited by every reference process
            sessdrv.make_cert([u], 'client')
        a_r, a_w = os.pipe()
        b_r, b_w = os.pipe()
        pid = os.fork()
        if pid == 0:
            os.close(a_w)
            os.close(b_r)
            try:
                self._zygote(a_r, b_w)
            finally:
                os._exit(0)
        os.close(a_r)
        os.close(b_w)
        self.w, self.r, self.pid = a_w, b_r, pid

    def _read(self, fd):
        head = b''
        while len(head) < 4:
            c = os.read(fd, 4 - len(head))
            if not c:
                return None
            head += c
        n = self.struct.unpack('!I', head)[0]
        buf = b''
        while len(buf) < n:
            c = os.read(fd, min(1 << 16, n - len(buf)))
            if not c:
                return None
            buf += c
        return self.pickle.loads(buf)

    def _write(self, fd, obj):
        data = self.pickle.dumps(obj)
        data = self.struct.pack('!I', len(data)) + data
        while data:
            n = os.write(fd, data)
            data = data[n:]

    def _zygote(self, rd, wr):
        while True:
            job = self._read(rd)
            if job is None:
                return
            pid = os.fork()
            if pid == 0:
                try:
                    try:
                        out = ('ok', self._serve(job))
                    except BaseException:
                        import traceback
                        out = ('error', traceback.format_exc()[-1500:])
                    self._write(wr, out)
                finally:
                    os._exit(0)
            os.waitpid(pid, 0)

    @staticmethod
    def _serve(job):
        if job.get('kind') == 'fails':
            # one candidate of the shrinker, run from pristine interpreter state (with reference processes of its own, forked
            # before this process serves anything): does the last event still differ from its reference?
            global REFERENCE
            REFERENCE = None
            reference()
            eng = c07.new_engine(job['work'])
            try:
                run = SessRunner(c07.NullCtx(job['work']), eng, fork=False, slugs=job['slugs'])
                run.pristine_every = 1
                try:
                    replay_events(run, job['events'][:-1])
                    run.fork = True
                    replay_events(run, job['events'][-1:])
                except Exception:
                    return None
                return run.hits[0] if run.hits else None
            finally:
                eng.close()
                REFERENCE.close()
        eng = kdrv.Engine(path=job['db'], policies=c07.build_policies(), clock=kdrv.FakeClock(job['t']))
        run = SessRunner(c07.NullCtx(os.path.dirname(job['db'])), eng, fork=False, slugs=job['slugs'])
        r = run.exchange(eng, job['who'], job['frame'], tuple(job['ver']), False)
        r = {k: v for k, v in r.items() if k != 'raw'}
        r['items'] = [{k: v for k, v in it.items() if k != 'raw'} for it in r['items']]
        return r, eng.dump()

    def still_fails(self, events, slugs, work):
        self._write(self.w, {'kind': 'fails', 'events': events, 'slugs': slugs, 'work': str(work)})
        got = self._read(self.r)
        if got is None or got[0] != 'ok':
            raise RuntimeError('reference process failed: %r' % (got,))
        return got[1]

    def answer(self, db, t, who, frame, ver, slugs):
        self._write(self.w, {'db': db, 't': t, 'who': who, 'frame': frame, 'ver': list(ver), 'slugs': slugs})
        got = self._read(self.r)
        if got is None or got[0] != 'ok':
            raise RuntimeError('reference process failed: %r' % (got,))
        return got[1]

    def close(self):
        try:
            os.close(self.w)
            os.waitpid(self.pid, 0)
        except OSError:
            pass


REFERENCE = None


def reference():
    global REFERENCE
    if REFERENCE is None:
        REFERENCE = PristineReference()
    return REFERENCE


class RefHandle:
    """Stands where the in-process fresh engine stands in XRunner.request: the copy of the database a reference child will open."""
    def __init__(self, path):
        self.path = path
        self._dump = None

    def dump(self):
        return self._dump

    def close(self):
        for suffix in ('', '-journal', '-wal', '-shm'):
            try:
                os.unlink(self.path + suffix)
            except OSError:
                pass


def proj(r, issued=()):
    if r['error'] is not None:
        out = {'error': r['error']}
        if 'session' in r:
            out['session'] = {k: r['session'][k] for k in ('outcome', 'final_len', 'final')}
        return out
    items = []
    for it in r['items']:
        it = {k: v for k, v in it.items() if k != 'raw'}
        p = it.get('payload')
        if isinstance(p, dict) and str(p.get('unique_identifier')) in issued and it['op'] not in ('CREATE', 'REGISTER', 'DERIVE_KEY'):
            # the object was created by this very request with key material drawn at random: anything computed
            # from that material (Get, Encrypt, MAC, Sign ...) legitimately differs between two engines
            it['payload'] = {'_class': p.get('_class'), 'unique_identifier': p.get('unique_identifier'), 'masked': 'computed from generated key material'}
        items.append(it)
    out = {'error': None, 'header': r['header'], 'version': r['version'], 'max_size': r['max_size'], 'items': items}
    if 'session' in r:
        se = r['session']
        out['session'] = {'outcome': se['outcome'], 'final_len': se['final_len'], 'final': se['final'] if not issued else '<masked>'}
    return out


def diff_answers(r1, r2, issued=()):
    issued = {str(u) for u in issued}
    a, b = proj(r1, issued), proj(r2, issued)
    if a == b:
        return None
    if a.get('error') != b.get('error'):
        return {'what': 'request-level outcome differs', 'live': a.get('error'), 'fresh': b.get('error')}
    if a.get('error') is not None:
        return {'what': 'what the client received differs', 'live': clip(a.get('session')), 'fresh': clip(b.get('session'))}
    for k in ('header', 'version', 'max_size', 'session'):
        if a.get(k) != b.get(k):
            return {'what': '%s differs' % k, 'live': a.get(k), 'fresh': b.get(k)}
    for i, (x, y) in enumerate(zip(a['items'], b['items'])):
        if x != y:
            keys = [k for k in x if x.get(k) != y.get(k)]
            return {'what': 'batch item %d differs in %s' % (i, keys),
                    'live': {k: clip(x.get(k)) for k in ['op', 'status'] + keys}, 'fresh': {k: clip(y.get(k)) for k in ['op', 'status'] + keys}}
    return {'what': 'number of batch items differs', 'live': len(a['items']), 'fresh': len(b['items'])}


def clip(v):
    s = json.dumps(v, default=str, sort_keys=True)
    return v if len(s) < 600 else s[:600] + '...'


def diff_dumps(d1, d2, issued):
    """Database contents after the probe; key material generated at random by the probe itself is masked."""
    def norm(d):
        out = {}
        for t, rows in d.items():
            rs = []
            for r in rows:
                r = dict(r)
                if t == 'managed_objects' and r.get('uid') in issued:
                    r['value'] = '<generated>'
                rs.append(json.dumps(r, sort_keys=True, default=str))
            out[t] = sorted(rs)
        return out
    a, b = norm(d1), norm(d2)
    if a == b:
        return None
    for t in sorted(set(a) | set(b)):
        if a.get(t) != b.get(t):
            only_a = [x for x in a.get(t, []) if x not in b.get(t, [])][:2]
            only_b = [x for x in b.get(t, []) if x not in a.get(t, [])][:2]
            return {'what': 'database differs after the request in table %s' % t, 'live': only_a, 'fresh': only_b}


# ------------------------------------------------------------------ generator
def idless(rng, kind=None):
    x = rng.random()
    if kind is None and x < 0.12:
        return {'op': 'destroy', 'tgt': None}
    if kind is None and x < 0.18:
        return {'op': 'getwrapped', 'tgt': None, 'w': ['newest']}
    return {'op': 'addr', 'k': kind or rng.choice(IDLESS_KINDS), 'tgt': None, 'variant': rng.randrange(4)}


def gen_history(ctx, rng, run, length, ckp_budget):
    tr, eng = run.tr, run.eng
    ckp = [ckp_budget]

    def creating():
        s = c07.gen_create_spec(rng, tr, cheap=ckp[0] <= 0)
        if s['op'] == 'ckp':
            ckp[0] -= 1
        return s

    n = 0
    while n < length:
        x = rng.random()
        ver = c07.pick_version(rng)
        if x < 0.34:                                   # a creating request, then identifier-less probes as requests of their own
            ctx.count('pattern.create_then_idless_probes')
            who = c07.pick_who(rng)
            items = [creating()]
            if rng.random() < 0.3:                     # legitimate use of the placeholder inside the same batch
                items += [idless(rng) for _ in range(rng.randrange(1, 3))]
            run.request(who, ver, rng.random() < 0.5, items)
            n += 1
            for _ in range(rng.randrange(1, 4)):
                pw = who if rng.random() < 0.6 else c07.pick_who(rng)
                run.request(pw, c07.pick_version(rng), False, [idless(rng)])
                n += 1
        elif x < 0.38 and tr.live():                   # read X, somebody else changes X (on the other serving thread), read X again
            ctx.count('pattern.read_foreign_change_read')
            rec = rng.choice(tr.live())
            tgt = ['lit', rec['uid']]
            reader = rec['owner'] if rng.random() < 0.7 else c07.pick_who(rng)
            changer = (rng.randrange(4) + 100) if (rec.get('pol') and rng.random() < 0.6) else rec['owner']
            rk = rng.choice(['AGetAttributes', 'AGetAttributes', 'AGet', 'AGetAttributeList'])
            run.request(reader, ver, False, [{'op': 'addr', 'k': rk, 'tgt': tgt}])
            ck = rng.choice(['AActivate', 'AActivate', 'ARevoke', 'AModifyAttribute', 'ADeleteAttribute', 'ASetAttribute'])
            run.request(changer, (2, 0) if ck == 'ASetAttribute' else (1, 2), False,
                        [{'op': 'addr', 'k': ck, 'tgt': tgt, 'variant': rng.randrange(4)}])
            run.request(reader, ver, True, [{'op': 'addr', 'k': rk, 'tgt': tgt}, {'op': 'addr', 'k': 'AEncrypt', 'tgt': tgt},
                                            {'op': 'locatep', 'ft': None, 'off': 0, 'mx': None}])
            n += 3
        elif x < 0.41 and tr.live():                   # one identifier, several spellings: address, destroy, address again
            ctx.count('pattern.spellings_around_destroy')
            rec = rng.choice(tr.live())
            tgt, who = ['lit', rec['uid']], rec['owner']
            sps = [None] + list(c07.SPELLINGS)
            a_, b_ = rng.choice(sps), rng.choice(sps)
            run.request(who, ver, False, [{'op': 'addr', 'k': rng.choice(['AGet', 'AGetAttributes', 'AGetAttributeList']), 'tgt': tgt, 'sp': a_}])
            run.request(who, ver, False, [{'op': 'destroy', 'tgt': tgt, 'sp': b_}])
            run.request(rng.choice([who, c07.pick_who(rng)]), ver, True,
                        [{'op': 'addr', 'k': 'AGet', 'tgt': tgt, 'sp': a_}, {'op': 'addr', 'k': 'AGetAttributes', 'tgt': tgt, 'sp': b_},
                         {'op': 'destroy', 'tgt': tgt, 'sp': a_}])
            n += 3
        elif x < 0.46:                                 # attribute list of a live object under another protocol version
            tgt = c07.gen_target(rng, tr, allow_none=False, dead_bias=0.1)
            run.request(c07.owner_of(tr, eng, tgt, rng), ver, False, [{'op': 'addr', 'k': 'AGetAttributeList', 'tgt': tgt}])
            n += 1
        elif x < 0.58:                                 # any addressed operation with an identifier
            tgt = c07.gen_target(rng, tr, allow_none=False, dead_bias=0.15)
            run.request(c07.owner_of(tr, eng, tgt, rng), ver, False,
                        [{'op': 'addr', 'k': rng.choice(c07.KINDS), 'tgt': tgt, 'variant': rng.randrange(4)}])
            n += 1
        elif x < 0.70:                                 # header variations: they end process_request early and leave fields half set
            ctx.count('pattern.header_variation')
            y = rng.random()
            items = [creating()] if rng.random() < 0.5 else [idless(rng)]
            kw = {}
            if y < 0.2:
                kw = {'asynchronous': rng.random() < 0.6}
            elif y < 0.35:
                kw = {'undo': True}
            elif y < 0.6:
                kw = {'stamp': rng.choice(['recent', 'future', 'stale'])}
            elif y < 0.8:
                ver = rng.choice([(1, 5), (3, 0), (0, 9), (2, 1)])
            else:
                items = [creating(), idless(rng)]
                kw = {'ids': False}
            run.request(c07.pick_who(rng), ver, rng.random() < 0.5, items, **kw)
            n += 1
            if rng.random() < 0.65:                    # the next request repeats the rejected one's header values
                ctx.count('pattern.rejected_header_repeated')
                tgt = c07.gen_target(rng, tr, allow_none=False, dead_bias=0.05)
                probe = rng.choice([[{'op': 'addr', 'k': 'AGetAttributeList', 'tgt': tgt}], [creating()], [idless(rng)],
                                    [{'op': 'addr', 'k': rng.choice(c07.KINDS), 'tgt': tgt}]])
                if kw.get('ids') is False:
                    probe = probe + [{'op': 'locate'}]
                run.request(c07.owner_of(tr, eng, tgt, rng), ver, False, probe, **kw)
                n += 1
            run.request(c07.pick_who(rng), c07.pick_version(rng), False, [idless(rng)])
            n += 1
        elif x < 0.78:
            tgt = c07.gen_target(rng, tr, allow_none=True, dead_bias=0.1)
            run.request(c07.owner_of(tr, eng, tgt, rng), ver, False, [{'op': 'destroy', 'tgt': tgt}])
            n += 1
        elif x < 0.84:
            if rng.random() < 0.35:
                run.request(c07.pick_who(rng), ver, False, [{'op': 'locate'}])
                n += 1
            else:                                      # DiscoverVersions / Query, then probes under versions the client did not list
                ctx.count('pattern.discover_or_query_then_probe')
                items = [c07.gen_info_spec(rng)] + ([c07.gen_info_spec(rng)] if rng.random() < 0.3 else [])
                run.request(c07.pick_who(rng), rng.choice([(1, 1), (1, 2), (1, 4), (2, 0), ver]), True, items)
                run.request(c07.pick_who(rng), c07.pick_version(rng), False,
                            [rng.choice([idless(rng), {'op': 'discover', 'vs': []}, {'op': 'locate'}, creating()])])
                n += 2
        elif x < 0.90:
            ctx.count('pattern.restart')
            run.restart(dispose=rng.random() < 0.5)
            run.request(c07.pick_who(rng), ver, False, [idless(rng)])
            n += 2
        else:                                          # mixed batch
            items = []
            for _ in range(rng.randrange(2, 5)):
                y = rng.random()
                if y < 0.3:
                    items.append(creating())
                elif y < 0.6:
                    items.append(idless(rng))
                elif y < 0.7:
                    items.append({'op': 'locate'})
                else:
                    items.append({'op': 'addr', 'k': rng.choice(c07.KINDS), 'tgt': c07.gen_target(rng, tr), 'variant': rng.randrange(4)})
            run.request(c07.pick_who(rng), ver, rng.random() < 0.6, items)
            n += 1


def scenarios():
    C = {'op': 'create', 'good': True, 'rich': True}
    out = []
    # every identifier-less operation as a request of its own right after a creating request, same and other identity
    for maker in (C, {'op': 'ckp', 'good': True}, {'op': 'register', 't': 'TPub', 'good': True, 'rich': True}):
        sc = [('req', 0, (1, 2), False, [maker], {})]
        for who in (0, 1):
            for v in ((1, 0), (1, 2), (2, 0)):
                sc.append(('req', who, v, True, [{'op': 'addr', 'k': k, 'tgt': None} for k in c07.KINDS] +
                           [{'op': 'destroy', 'tgt': None}, {'op': 'getwrapped', 'tgt': None, 'w': ['ref', 0]}], {}))
                sc.append(('req', who, v, False, [{'op': 'addr', 'k': 'AGet', 'tgt': None}], {}))
                sc.append(('req', 0, (1, 2), False, [maker], {}))
        out.append(sc)
    # the attribute rules follow the version of THIS request, whatever the previous request used
    sc = [('req', 0, (1, 2), False, [C], {}), ('req', 0, (1, 2), False, [{'op': 'register', 't': 'TCert', 'good': True}], {})]
    for v1 in kdrv.VERSIONS:
        for v2 in ((1, 0), (1, 4), (2, 0)):
            sc.append(('req', 0, v1, False, [{'op': 'addr', 'k': 'AGetAttributeList', 'tgt': ['ref', 0]}], {}))
            sc.append(('req', 0, v2, False, [{'op': 'addr', 'k': 'AGetAttributeList', 'tgt': ['ref', 1]}], {}))
    out.append(sc)
    # requests that end early, then a probe
    sc = [('req', 0, (1, 2), False, [C], {})]
    for kw in ({'asynchronous': True}, {'undo': True}, {'stamp': 'stale'}, {'stamp': 'future'}, {'ids': False}):
        for v in ((2, 0), (9, 9)):
            sc.append(('req', 1, v, False, [C, {'op': 'addr', 'k': 'AGet', 'tgt': None}], dict(kw)))
            sc.append(('req', 0, (1, 0), False, [{'op': 'addr', 'k': 'AGetAttributeList', 'tgt': ['ref', 0]}], {}))
            sc.append(('req', 0, (1, 2), False, [{'op': 'addr', 'k': 'AEncrypt', 'tgt': None}], {}))
    out.append(sc)
    # DiscoverVersions with client lists and Query with every function, then probes under every version
    DV = lambda vs: {'op': 'discover', 'vs': [list(v) for v in vs]}
    sc = [('req', 0, (1, 2), False, [C], {})]
    for vs in ([(1, 4), (1, 0)], [(1, 0), (2, 0), (1, 0)], [(9, 9)], [(1, 5), (1, 2)], [], [(1, 1)]):
        sc.append(('req', 1, (1, 4), False, [DV(vs)], {}))
        for v in kdrv.VERSIONS:
            sc.append(('req', 0, v, False, [{'op': 'addr', 'k': 'AGetAttributeList', 'tgt': ['ref', 0]}], {}))
        sc.append(('req', 2, (1, 1), False, [DV([])], {}))
    for f in c07.QUERY_FUNCTIONS:
        sc.append(('req', 1, (1, 0), True, [{'op': 'query', 'funcs': [f]}, {'op': 'query', 'funcs': c07.QUERY_FUNCTIONS}], {}))
        sc.append(('req', 0, (1, 2), False, [{'op': 'query', 'funcs': ['QUERY_OPERATIONS']}], {}))
    out.append(sc)
    # an identifier written in several ways: address by one spelling, destroy by another, ask again by the first
    A = lambda k, t, sp=None: {'op': 'addr', 'k': k, 'tgt': t, 'sp': sp}
    sc = [('req', 0, (1, 2), False, [C], {})]
    for i_, (a_, b_) in enumerate((('zero', None), (None, 'float'), ('space', 'plus'), ('float', 'zero'), ('plus', 'plus'))):
        sc += [('req', 0, (1, 2), False, [C], {}), ('req', 0, (1, 2), False, [A('AGetAttributes', ['ref', 1 + i_], a_)], {}),
               ('req', 0, (1, 2), False, [{'op': 'destroy', 'tgt': ['ref', 1 + i_], 'sp': b_}], {}),
               ('req', 0, (1, 2), True, [A('AGetAttributes', ['ref', 1 + i_], a_), A('AGet', ['ref', 1 + i_], b_), A('AGet', ['ref', 1 + i_])], {}),
               ('req', 1, (1, 2), False, [A('AGet', ['ref', 1 + i_], a_)], {}), ('req', 0, (1, 2), False, [A('AGet', ['ref', 0], a_)], {})]
    out.append(sc)
    # a request rejected at message level, then a probe that repeats the rejected header values (any client)
    GAL = {'op': 'addr', 'k': 'AGetAttributeList', 'tgt': ['ref', 0]}
    sc = [('req', 0, (1, 2), False, [C], {})]
    for last_valid in ((2, 0), (1, 0)):
        for bad in ((1, 5), (2, 1), (9, 9), (0, 9)):
            sc += [('req', 0, last_valid, False, [GAL], {}), ('req', 1, bad, False, [C], {}), ('req', 0, bad, False, [GAL], {}),
                   ('req', 1, bad, False, [C], {}), ('req', 0, (1, 2), False, [GAL], {})]
        for kw in ({'asynchronous': True}, {'undo': True}, {'stamp': 'stale'}, {'stamp': 'future'}):
            sc += [('req', 0, last_valid, False, [GAL], {}), ('req', 1, (1, 4), False, [C], dict(kw)), ('req', 0, (1, 4), False, [GAL], dict(kw)),
                   ('req', 0, (1, 4), False, [GAL], {})]
        sc += [('req', 1, (1, 3), False, [C, GAL], {'ids': False}), ('req', 0, (1, 3), False, [GAL, C], {'ids': False}),
               ('req', 0, (1, 3), False, [GAL], {})]
    out.append(sc)
    # (served by two threads in turn) a client reads an object, another client changes it, the first reads again
    T = {'op': 'create', 'good': True, 'rich': True, 'pol': 1}
    sc = [('req', 0, (1, 2), False, [T], {}), ('req', 0, (1, 2), False, [T], {}), ('req', 0, (1, 2), False, [C], {})]
    for i_, (ck, var, changer) in enumerate((('AActivate', 0, 101), ('AModifyAttribute', 0, 101), ('ARevoke', 1, 0), ('ADeleteAttribute', 0, 302))):
        for rk in ('AGetAttributes', 'AGet'):
            tgt = ['ref', i_ % 2]
            sc += [('req', 0, (1, 2), False, [A(rk, tgt)], {}), ('req', changer, (1, 2), False, [dict(A(ck, tgt), variant=var)], {}),
                   ('req', 0, (1, 2), True, [A(rk, tgt), A('AEncrypt', tgt), {'op': 'locatep', 'ft': None, 'off': 0, 'mx': None}], {})]
    sc += [('req', 0, (1, 2), False, [A('AGetAttributes', ['ref', 2])], {}), ('req', 0, (1, 2), False, [A('AActivate', ['ref', 2])], {}),
           ('req', 0, (1, 2), False, [A('AGetAttributes', ['ref', 2])], {}), ('req', 0, (1, 2), False, [A('AEncrypt', ['ref', 2])], {})]
    out.append(sc)
    return out


# ------------------------------------------------------------------ connection-level histories
SMALL = [40, 120, 200, 260, 400, 2000]


def conn_scenarios():
    C = {'op': 'create', 'good': True, 'rich': True}
    G = lambda t, k='AGet': {'op': 'addr', 'k': k, 'tgt': t}
    L = {'op': 'locate'}
    out = []
    # an earlier message with a small Maximum Response Size, then the probe without one (same connection)
    for m in SMALL:
        out.append([('req', 0, (1, 2), False, [C], {}), ('req', 0, (1, 2), False, [L], {'max_size': m}),
                    ('req', 0, (1, 2), False, [G(['ref', 0])], {}), ('req', 0, (1, 2), False, [G(['ref', 0])], {'max_size': m}),
                    ('req', 0, (1, 2), False, [G(['ref', 0], 'AGetAttributes')], {}), ('req', 0, (1, 4), False, [L], {})])
    # two connections, undecodable messages, failing requests, reconnect, restart
    out.append([('req', 0, (1, 2), False, [C], {}), ('req', 1, (1, 2), False, [C], {'max_size': 150}),
                ('req', 0, (1, 2), False, [G(['ref', 0])], {'max_size': 60}), ('req', 1, (1, 2), False, [G(['ref', 1])], {}),
                ('bad', 0), ('req', 0, (1, 2), False, [G(['ref', 0])], {}),
                ('req', 0, (1, 2), False, [L], {'max_size': 100, 'asynchronous': True}), ('req', 0, (1, 2), False, [G(['ref', 0])], {}),
                ('req', 0, (1, 2), False, [L], {'max_size': 100, 'stamp': 'stale'}), ('req', 0, (1, 2), False, [G(['ref', 0])], {}),
                ('reconnect', 0), ('req', 0, (1, 2), False, [G(['ref', 0])], {}),
                ('req', 0, (1, 2), False, [C], {'max_size': 10}), ('req', 0, (1, 2), False, [L], {}),
                ('restart',), ('req', 0, (1, 2), False, [G(['ref', 0])], {})])
    # messages that announce (and carry) about 1 MiB and more, then ordinary requests on the same connection
    sc = [('req', 0, (1, 2), False, [C], {})]
    for n_ in (1048568, 1048576, 1048577, 1048584, 3 * 1048576):
        sc += [('bad', 0, n_), ('req', 0, (1, 2), False, [G(['ref', 0])], {}), ('req', 0, (1, 4), False, [L], {}),
               ('req', 1, (1, 2), False, [L], {})]
    out.append(sc)
    # versions
    sc = [('req', 0, (1, 2), False, [C], {})]
    for v in kdrv.VERSIONS:
        sc += [('req', 0, v, False, [L], {'max_size': 200}), ('req', 0, v, False, [G(['ref', 0], 'AGetAttributeList')], {}),
               ('req', 0, (1, 2), False, [G(['ref', 0])], {})]
    out.append(sc)
    # a message rejected for its version / time stamp / options, then a message repeating those header values
    GAL = G(['ref', 0], 'AGetAttributeList')
    sc = [('req', 0, (1, 2), False, [C], {})]
    for last_valid in ((2, 0), (1, 0)):
        for bad in ((1, 5), (2, 1), (9, 9)):
            sc += [('req', 0, last_valid, False, [GAL], {}), ('req', 1, bad, False, [L], {}), ('req', 0, bad, False, [GAL], {}),
                   ('req', 0, (1, 2), False, [GAL], {})]
        for kw in ({'asynchronous': True}, {'undo': True}, {'stamp': 'stale'}):
            sc += [('req', 0, last_valid, False, [GAL], {}), ('req', 0, (1, 4), False, [L], dict(kw)), ('req', 0, (1, 4), False, [GAL], dict(kw)),
                   ('bad', 0), ('req', 0, (1, 4), False, [GAL], {})]
    out.append(sc)
    return out


def slugs_scenarios():
    """Connections authenticated through the (stubbed) SLUGS service; ONE settings object for all of them."""
    T = {'op': 'create', 'good': True, 'rich': True, 'pol': 1}
    G = lambda t, k='AGet': {'op': 'addr', 'k': k, 'tgt': t}
    L = {'op': 'locate'}
    alice, bob, carol, dave, mallory = [slugs_who(u) for u in range(5)]
    sc = [('req', alice, (1, 2), False, [T], {}), ('req', bob, (1, 2), False, [G(['ref', 0])], {}),
          ('req', bob, (1, 2), False, [G(['ref', 0])], {}), ('req', mallory, (1, 2), False, [L], {}),
          ('req', mallory, (1, 2), False, [T], {}), ('req', carol, (1, 4), False, [L], {}), ('req', dave, (1, 4), False, [L], {}),
          ('reconnect', None), ('req', bob, (1, 2), False, [G(['ref', 0], 'AGetAttributes')], {}),
          ('req', mallory, (1, 2), False, [L], {}), ('req', alice, (1, 2), False, [L], {'max_size': 100}),
          ('req', carol, (1, 2), False, [{'op': 'destroy', 'tgt': ['ref', 0]}], {}), ('req', alice, (1, 2), False, [G(['ref', 0])], {}),
          ('restart',), ('req', bob, (1, 2), False, [T], {}), ('req', carol, (1, 2), False, [G(['newest'])], {}),
          ('req', mallory, (2, 0), False, [L], {}), ('req', carol, (1, 2), False, [G(['newest'])], {})]
    return [sc]


def optional_field_scenarios():
    """Over the wire: a request that carries an optional field, then (same or another connection) a request of the same
    operation without it - the second must be read as if the first had never been sent."""
    C = {'op': 'create', 'good': True, 'rich': True}
    A = lambda k, t: {'op': 'addr', 'k': k, 'tgt': t}
    sc = [('req', 0, (1, 2), False, [C], {}), ('req', 0, (1, 2), False, [C], {})]
    for k in c07.KINDS:
        v = (2, 0) if k == 'ASetAttribute' else (1, 2)
        sc += [('req', 0, v, False, [A(k, ['ref', 0])], {}), ('req', 1, v, False, [A(k, None)], {}),
               ('req', 0, v, True, [C, A(k, None)], {}), ('req', 0, v, False, [A(k, None)], {})]
    sc += [('req', 0, (1, 2), False, [{'op': 'destroy', 'tgt': ['fresh', 5]}], {}), ('req', 0, (1, 2), False, [{'op': 'destroy', 'tgt': None}], {}),
           ('req', 0, (1, 2), False, [{'op': 'locatep', 'ft': 'TOpaque', 'off': 1, 'mx': 1}], {}), ('req', 0, (1, 2), False, [{'op': 'locate'}], {}),
           ('req', 1, (1, 2), False, [{'op': 'discover', 'vs': [[1, 0]]}], {}), ('req', 0, (1, 2), False, [{'op': 'discover', 'vs': []}], {}),
           ('req', 0, (1, 2), False, [{'op': 'getwrapped', 'tgt': ['ref', 0], 'w': ['ref', 1]}], {}), ('req', 0, (1, 2), False, [A('AGet', ['ref', 0])], {}),
           ('req', 0, (1, 2), False, [{'op': 'query', 'funcs': ['QUERY_OPERATIONS', 'QUERY_OBJECTS']}], {}),
           ('req', 0, (1, 2), False, [{'op': 'query', 'funcs': ['QUERY_SERVER_INFORMATION']}], {})]
    return [sc]


def play_conn(run, script):
    for ev in script:
        if ev[0] == 'restart':
            run.restart()
        elif ev[0] == 'bad':
            run.bad_frame(ev[1], ev[2] if len(ev) > 2 else None)
        elif ev[0] == 'reconnect':
            run.reconnect(ev[1])
        else:
            _, who, ver, cont, specs, kw = ev
            run.request(who, tuple(ver), cont, [dict(s) for s in specs], **kw)


def gen_conn_history(ctx, rng, run, length):
    tr, eng = run.tr, run.eng
    n = 0
    # with the authentication service in use the requester code of a user is what the service says about him
    whof = (lambda u: slugs_who(u)) if run.slugs else (lambda u: u)
    nusers = 5 if run.slugs else 3
    while n < length:
        x = rng.random()
        who = whof(rng.randrange(nusers))
        ver = c07.pick_version(rng)
        kw = {}
        if rng.random() < 0.35:
            kw['max_size'] = rng.choice(SMALL + [1, 100000])
        if x < 0.22:
            s_ = c07.gen_create_spec(rng, tr, cheap=True)
            if run.slugs and rng.random() < 0.6:
                s_['pol'] = 1
            run.request(who, ver, False, [s_], **kw)
        elif x < 0.62:                                 # read something (the answers that can be too large)
            tgt = c07.gen_target(rng, tr, allow_none=False, dead_bias=0.05)
            w = whof(c07.owner_of(tr, eng, tgt, rng) % 100 % nusers)
            if run.slugs and rng.random() < 0.4:
                w = whof(rng.choice([1, 2]))            # a custodian
            k = rng.choice(['AGet', 'AGet', 'AGetAttributes', 'AGetAttributeList'])
            run.request(w, ver, False, [{'op': 'addr', 'k': k, 'tgt': tgt}], **kw)
        elif x < 0.66:                                 # an operation with its optional fields, then the same operation without them
            ctx.count('pattern.optional_present_then_absent')
            tgt = c07.gen_target(rng, tr, allow_none=False, dead_bias=0.05)
            k = rng.choice(c07.KINDS)
            v2 = (2, 0) if k == 'ASetAttribute' else ver
            run.request(whof(c07.owner_of(tr, eng, tgt, rng) % 100 % nusers), v2, False, [{'op': 'addr', 'k': k, 'tgt': tgt}])
            w2 = whof(rng.randrange(nusers))
            if rng.random() < 0.5:
                run.request(w2, v2, True, [c07.gen_create_spec(rng, tr, cheap=True), {'op': 'addr', 'k': k, 'tgt': None}])
            else:
                run.request(w2, v2, False, [{'op': 'addr', 'k': k, 'tgt': None}])
            n += 1
        elif x < 0.70:
            run.request(who, ver, False, [{'op': 'locate'} if rng.random() < 0.5 else c07.gen_info_spec(rng)], **kw)
        elif x < 0.78:                                 # requests that end early, with a limit in the header
            y = rng.random()
            if y < 0.3:
                kw['asynchronous'] = True
            elif y < 0.5:
                kw['stamp'] = rng.choice(['stale', 'future'])
            elif y < 0.65:
                kw['undo'] = True
            else:
                ver = rng.choice([(1, 5), (2, 1), (9, 9)])
            run.request(who, ver, False, [{'op': 'locate'}], **kw)
            if rng.random() < 0.7:                     # ... repeated by the next message (same or another connection)
                ctx.count('pattern.rejected_header_repeated')
                tgt = c07.gen_target(rng, tr, allow_none=False, dead_bias=0.05)
                run.request(rng.choice([who, whof(rng.randrange(3))]), ver, False,
                            [{'op': 'addr', 'k': rng.choice(['AGetAttributeList', 'AGet']), 'tgt': tgt}], **kw)
                n += 1
        elif x < 0.86:
            run.bad_frame(who, rng.choice([None, None, 1048568, 1048576, 1048577, 1048584, 2097152]))
        elif x < 0.92:
            run.reconnect(rng.choice([None, who]))
            continue
        elif x < 0.95:
            run.restart(dispose=rng.random() < 0.5)
        else:
            run.request(who, ver, True, [c07.gen_create_spec(rng, tr, cheap=True), {'op': 'locate'}], **kw)
        n += 1


def play(run, script):
    for ev in script:
        if ev[0] == 'restart':
            run.restart()
        else:
            _, who, ver, cont, specs, kw = ev
            run.request(who, tuple(ver), cont, [dict(s) for s in specs], **kw)


def replay_events(run, events):
    for ev in events:
        for w in ev.get('reconnect_before') or []:
            run.reconnect(w)
        if ev['ev'] == 'restart':
            run.restart()
        elif ev['ev'] == 'bad_frame':
            run.bad_frame(ev['who'], ev.get('length'))
        else:
            specs = [{k: v for k, v in it.items() if k in ('op', 'good', 'rich', 't', 'bases', 'tgt', 'w', 'k', 'variant', 'pol', 'prot', 'vs', 'funcs', 'ft', 'off', 'mx', 'sp')}
                     for it in ev['items']]
            run.request(ev['who'], tuple(ev['ver']), ev['cont'], specs, stamp=ev.get('stamp', 'absent'),
                        asynchronous=ev.get('async'), undo=ev.get('undo', False), ids=ev.get('ids'), max_size=ev.get('max_size'))


def shrink(ctx, events, runner=None, pristine_slugs=None):
    """Drop prefix events (latest first) while the last request is still answered differently by live and fresh.
    pristine_slugs (connection level): every candidate runs in a process of its own forked from the pristine zygote, because
    state that lives in classes and modules would otherwise be carried from the run into the candidates."""
    def fails(evs):
        if pristine_slugs is not None:
            return reference().still_fails(evs, pristine_slugs, ctx.work)
        return fails_here(evs)

    def fails_here(evs):
        eng = c07.new_engine(ctx.work)
        try:
            run = (runner or XRunner)(c07.NullCtx(ctx.work), eng, fork=False)
            try:
                replay_events(run, evs[:-1])
                run.fork = True
                replay_events(run, evs[-1:])
            except Exception:
                return None
            return run.hits[0] if run.hits else None
        finally:
            eng.close()
    best = fails(events)
    if best is None:
        return None
    cur = best[1]['history']
    i, budget = len(cur) - 2, 80
    while i >= 0 and budget > 0:
        cand = cur[:i] + cur[i + 1:]
        budget -= 1
        got = fails(cand)
        if got is not None:
            best, cur = got, got[1]['history']
        i -= 1
    return best


def run(ctx):
    reference()                # the zygote of the reference processes: forked before this process has served a single request
    quick = ctx.tier == 'quick'
    ctx.cov['rule'] = (
        'every request of every generated history is a probe w.r.t. the history before it: it is sent to the live engine and to a '
        'fresh KmipEngine on a copy of the database file (same fake clock); answers and resulting databases must be equal. '
        'Histories: fixed scenarios (all identifier-less operations as own requests after each creating operation, by the same and '
        'another identity, under three versions; GetAttributeList under all version pairs; early-ending requests followed by '
        'probes) and seeded random histories biased to create-then-identifier-less-probe, version changes, header variations, '
        'restarts. Distinct = distinct (request, live answer, table state); non-trivial = the request carries an identifier-less '
        'item, or follows a request of another identity / version / early end.')
    ctx.cov['trusted_extra'] = [
        'harness/kdrv.py + harness/c07.py request builders, projection of responses (kdrv.plain / c07.classify)',
        'file copy of the SQLite database (+journal) as "the same persistent store"; kdrv.FakeClock for time stamps',
        'PRESENT table of harness/c11.py (attribute names a creating template leaves set) - an input of the model, checked by K',
        'coq/gen/AttrRuleTable.v regenerated from kmip/services/server/policy.py (tie T) for version-dependent attribute visibility']
    ctx.regen(only=['attrrules'])
    ctx.prove('props/C11.v')
    try:
        fields = engine_mutable_fields(ctx.repo)
        ctx.cov['engine_fields_written_outside_init'] = fields
        if set(fields) != MODELLED_FIELDS:
            raise ValueError('KmipEngine methods write %r; the model\'s transient record covers %r' % (
                sorted(set(fields) ^ MODELLED_FIELDS), sorted(MODELLED_FIELDS)))
    except Exception as e:      # fail closed: the model may no longer list everything a request leaves behind
        ctx.broken.append({'kind': 'translation', 'name': 'KmipEngine mutable fields vs Isolation.Model.transient',
                           'detail': repr(e), 'candidates': []})

    try:
        sf = class_mutable_fields(ctx.repo, 'kmip/services/server/session.py', 'KmipSession')
        ctx.cov['session_fields_written_outside_init'] = sf
        if set(sf) != SESSION_FIELDS_WRITTEN:
            raise ValueError('KmipSession methods write %r; the session model (Isolation/Session.v) has none of its fields written' % sorted(sf))
        why = process_request_is_synchronized(ctx.repo)
        ctx.cov['process_request_under_engine_lock'] = why is None
        if why:
            raise ValueError(why)
    except Exception as e:
        ctx.broken.append({'kind': 'translation', 'name': 'KmipSession fields / engine lock vs Isolation model',
                           'detail': repr(e), 'candidates': []})

    histories, all_hits = [], []
    forks = [0]

    def one(script=None, seed_name=None, length=0, threaded=False):
        eng = c07.new_engine(ctx.work)
        try:
            run_ = XRunner(ctx, eng)
            run_.threaded = threaded
            if threaded:
                ctx.count('history.every_request_on_its_own_thread')
                # what a thread-bound session still holds of an object depends on when the cycle collector last ran (SQLAlchemy's
                # identity map is weak): a server under light load does not collect between two requests - neither does this run
                import gc
                gc.disable()
            try:
                if script is not None:
                    play(run_, script)
                else:
                    gen_history(ctx, ctx.subrng(seed_name), run_, length, ckp_budget=1 if quick else 2)
            except NoAnswer:
                run_.coq = run_.coq[:len(run_.events) - 1]      # the history ends here; the hit is recorded
                run_.events = run_.events[:len(run_.coq)]
            histories.append((cp.lst(['(%s, %s)' % p for p in run_.coq], str), run_.events))
            all_hits.extend([(dict(sg, threaded=True), dict(w_, threaded=True), wh) for sg, w_, wh in run_.hits] if threaded else run_.hits)
            forks[0] += run_.forks
            prev = None
            for ev, (evt, obt) in zip(run_.events, run_.coq):
                nontriv = False
                if ev['ev'] == 'req':
                    nontriv = any(i.get('tgt', 0) is None and i['op'] in ('addr', 'destroy', 'getwrapped') for i in ev['items'])
                    if prev is not None and (prev.get('ev') == 'restart' or prev.get('who') != ev['who'] or prev.get('ver') != ev['ver']
                                             or prev.get('error')):
                        nontriv = True
                ctx.case_seen((evt, obt), nontrivial=nontriv)
                prev = ev
        finally:
            if threaded:
                import gc
                gc.enable()
                gc.collect()
            eng.close()

    scs = scenarios()
    for i, sc in enumerate(scs):
        one(script=sc, threaded=(i >= len(scs) - 3))
    n_hist = 40 if quick else 300
    for k in range(n_hist):
        one(seed_name='hist%d' % k, length=ctx.subrng('len%d' % k).randrange(10, 40), threaded=(k % 3 == 2))
    ctx.count('probe.live_vs_fresh_comparisons', forks[0])
    ctx.log('ran %d histories, %d events, %d live-vs-fresh comparisons, %d oracle hits' % (len(histories), sum(len(e) for _, e in histories), forks[0], len(all_hits)))

    bad = ctx.run_cases('histories', HEADER, [h for h, _ in histories], 'xcheck_history', shard=25,
                        what='Isolation.Model.run_history_t vs the live KmipEngine: request-level error class, class of every item, '
                             'identifiers issued, attribute-name lists under the request version, allocator and uid table after every event')
    for i in bad[:10]:
        where = ctx.model_output(HEADER, 'xfirst_bad %s' % histories[i][0])
        ctx.disagreement('histories', {'history_index': i, 'first_bad_event': where, 'events': histories[i][1][:60]},
                         model_says=ctx.model_output(HEADER, 'xmodel_trace %s' % histories[i][0])[:3000])
    # ---- connection level: the same comparison with a real KmipSession per connection
    conn_cases, conn_hits = [], []

    def one_conn(script=None, seed_name=None, length=0, slugs=False, pristine=None):
        eng = c07.new_engine(ctx.work)
        try:
            run_ = SessRunner(ctx, eng, slugs=slugs)
            run_.pristine_every = (pristine or 3) if script is not None else 6
            if script is not None:
                play_conn(run_, script)
            else:
                gen_conn_history(ctx, ctx.subrng(seed_name), run_, length)
            conn_cases.append((cp.lst(['(%s, %s)' % p_ for p_ in run_.coq], str), run_.events))
            forks[0] += run_.forks
            for ev, (evt, obt) in zip(run_.events, run_.coq):
                ctx.case_seen(('conn', evt, obt), nontrivial=ev['ev'] != 'restart')
        finally:
            if 'run_' in locals():
                conn_hits.extend([(dict(sg, auth='slugs'), dict(w_, slugs=True), wh) if slugs else (sg, w_, wh) for sg, w_, wh in run_.hits])
            eng.close()

    def guarded(**kw):
        try:
            one_conn(**kw)
        except Exception as e:
            import traceback
            ctx.broken.append({'kind': 'correspondence', 'name': 'connections',
                               'detail': 'connection-level driver raised: ' + traceback.format_exc()[-1500:], 'candidates': []})

    for sc in conn_scenarios():
        guarded(script=sc)
    for sc in slugs_scenarios():
        guarded(script=sc, slugs=True, pristine=1)
    for sc in optional_field_scenarios():
        guarded(script=sc, pristine=1)
    for k in range(16 if quick else 150):
        guarded(seed_name='conn%d' % k, length=ctx.subrng('clen%d' % k).randrange(8, 30), slugs=(k % 2 == 1))
    ctx.count('probe.live_vs_fresh_comparisons_incl_connections', forks[0])
    ctx.log('ran %d connection-level histories, %d events' % (len(conn_cases), sum(len(e) for _, e in conn_cases)))
    bad = ctx.run_cases('connections', HEADER_S, [h for h, _ in conn_cases], 'scheck_history', shard=25,
                        what='Isolation.Session.handle_message vs a real KmipSession per connection over the live engine: invalid / too large '
                             '/ answered, and the answer as at engine level')
    for i in bad[:10]:
        where = ctx.model_output(HEADER_S, 'sfirst_bad %s' % conn_cases[i][0])
        ctx.disagreement('connections', {'history_index': i, 'first_bad_event': where, 'events': conn_cases[i][1][:60]})
    for k, (sig, w, what) in enumerate(conn_hits):
        sig = dict(sig, level='connection')
        what = what.replace('by the live engine than by a fresh engine on a copy of the same database',
                            'on the live connection than on a new connection to a fresh engine on a copy of the same database')
        if k == 0:
            try:
                got = shrink(ctx, w['history'], pristine_slugs=bool(w.get('slugs')))
                if got is not None:
                    n0 = len(w['history'])
                    w = dict(got[1], shrunk_from=n0)
                    what = got[2].replace('by the live engine than by a fresh engine on a copy of the same database',
                                          'on the live connection than on a new connection to a fresh engine on a copy of the same database')
            except Exception as e:
                w = dict(w, shrink_error=repr(e))
        ctx.violation(sig, dict(w, level='connection', slugs=bool(sig.get('auth'))), what)

    first = True
    for sig, w, what in all_hits:
        if first:
            first = False
            try:
                import gc
                if w.get('threaded'):
                    gc.disable()
                try:
                    got = shrink(ctx, w['history'], runner=ThreadedXRunner if w.get('threaded') else None)
                finally:
                    gc.enable()
                if got is not None and w.get('threaded'):
                    got = (dict(got[0], threaded=True), dict(got[1], threaded=True), got[2])
                if got is not None:
                    n0 = len(w['history'])
                    sig, w, what = got
                    w = dict(w, shrunk_from=n0)
            except Exception as e:
                w = dict(w, shrink_error=repr(e))
        ctx.violation(sig, w, what)
    ctx.sample({'history': histories[0][1][:4]})
    ctx.sample({'history': histories[len(scenarios())][1][:6]})
    ctx.sample({'coq_case': histories[2][0][:800]})
    shutil.rmtree(os.path.join(str(ctx.work), 'forks'), ignore_errors=True)


def replay(ctx, data):
    reference()
    w = data.get('input') or {}
    events = w.get('history') or (data.get('first_disagreeing_cases') or [{}])[0].get('case', {}).get('events')
    if not events:
        print('replay file holds no history')
        return 2
    eng = c07.new_engine(ctx.work)
    try:
        conn_level = w.get('level') == 'connection'
        run_ = SessRunner(c07.NullCtx(ctx.work), eng, slugs=bool(w.get('slugs'))) if conn_level else XRunner(c07.NullCtx(ctx.work), eng)
        run_.threaded = bool(w.get('threaded'))
        if run_.threaded:
            import gc
            gc.disable()
        try:
            replay_events(run_, [e for e in events if e.get('error') != 'NO ANSWER'] + [e for e in events if e.get('error') == 'NO ANSWER'])
        except NoAnswer:
            pass
        for sig, wit, what in run_.hits:
            print('REPRODUCED:', what)
        text = cp.lst(['(%s, %s)' % p for p in run_.coq], str)
        if conn_level:
            ok, out, err = ctx.coq_eval('replay', HEADER_S + 'Eval vm_compute in (scheck_history %s, sfirst_bad %s).\n' % (text, text))
        else:
            ok, out, err = ctx.coq_eval('replay', HEADER + 'Eval vm_compute in (xcheck_history %s, xfirst_bad %s).\n' % (text, text))
        print('model agrees with the live engine on this history:', ' '.join(out.split()) if ok else err[-400:])
        return 1 if run_.hits or 'false' in out else 0
    finally:
        eng.close()
