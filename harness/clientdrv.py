"""C19 driver: the two PyKMIP clients wired, in process, to a scripted responder or to the real server stack.

    sock = ChunkSock(responder)            socket stand-in: sendall() hands the request to `responder`, which returns
                                           the list of chunks recv() will deliver (b'' for ever after they run out)
    cl   = make_client(version, sock)      real ProxyKmipClient (cl.proxy is the real KMIPProxy) on that socket
    Scripted(version, script)              responder: decodes the request with the real server-side classes and answers
                                           with the ResponseMessage described by `script`
    ServerStack()                          responder: real KmipSession in front of a real KmipEngine (kdrv.Engine)

Everything attaches from outside; /repo is not modified.
"""
import enum
import json
import logging
import time as _time

from kmip.core import enums, utils, primitives, objects as cobjects, attributes as cattrs, secrets as csecrets
from kmip.core import exceptions as cexc
from kmip.core.messages import messages, contents, payloads
from kmip.pie import client as pie_client, exceptions as pexc, objects as pobjects, factory as pie_factory
from kmip.services.kmip_protocol import KMIPProtocol, RequestLengthMismatch
from vlib import coqprint as cp

import kdrv

logging.getLogger('kmip').setLevel(logging.CRITICAL + 1)
logging.disable(logging.CRITICAL)

KV = enums.KMIPVersion
VERSIONS = [KV.KMIP_1_0, KV.KMIP_1_1, KV.KMIP_1_2, KV.KMIP_1_3, KV.KMIP_1_4, KV.KMIP_2_0]
VER_TUPLE = {KV.KMIP_1_0: (1, 0), KV.KMIP_1_1: (1, 1), KV.KMIP_1_2: (1, 2), KV.KMIP_1_3: (1, 3), KV.KMIP_1_4: (1, 4),
             KV.KMIP_2_0: (2, 0)}
OP = enums.Operation
RS = enums.ResultStatus
RR = enums.ResultReason


# ---------------------------------------------------------------------- transport
class ChunkSock:
    """recv(n) returns the next chunk, or its first n bytes when it is longer; b'' once the stream has ended."""

    def __init__(self, responder=None, chunks=None):
        self.responder = responder
        self.chunks = list(chunks or [])
        self.sent = []
        self.recv_calls = 0

    def sendall(self, data):
        data = bytes(data)
        self.sent.append(data)
        if self.responder is not None:
            self.chunks = [bytes(c) for c in self.responder(data)]

    # what KMIPProxy.open()/close() do with a socket
    def connect(self, address):
        self.connected = address

    def settimeout(self, t):
        pass

    def shutdown(self, how):
        self.was_shut_down = True

    def close(self):
        self.was_closed = True

    def recv(self, n):
        self.recv_calls += 1
        if not self.chunks:
            return b''
        c = self.chunks[0]
        if len(c) <= n:
            self.chunks.pop(0)
            return c
        self.chunks[0] = c[n:]
        return c[:n]


def make_client(version, sock):
    cl = pie_client.ProxyKmipClient(kmip_version=version)
    cl._is_open = True
    cl.proxy.protocol = KMIPProtocol(sock)
    return cl


def make_closed_client(version, sock):
    """A ProxyKmipClient that is NOT yet open: its real open() (and so `with client:`) runs, only the TLS wrapping of the
    socket is replaced from outside by handing over `sock`."""
    cl = pie_client.ProxyKmipClient(kmip_version=version)

    def _create_socket(real_sock):
        try:
            real_sock.close()
        except Exception:
            pass
        cl.proxy.socket = sock
    cl.proxy._create_socket = _create_socket
    return cl


def run_call_in_with_block(version, sock, fn):
    """fn(client) inside `with ProxyKmipClient(...) as client:`; the outcome is what arrives OUTSIDE the block.
    -> (outcome as run_call, notes) where notes lists control-flow anomalies of the context manager."""
    notes = []
    inner = {'exc': None, 'done': False, 'value': None, 'entered': None}
    cl = make_closed_client(version, sock)
    arrived = None
    try:
        with cl as c:
            inner['entered'] = c
            try:
                inner['value'] = fn(c)
                inner['done'] = True
            except BaseException as e:      # recorded and re-raised unchanged
                inner['exc'] = e
                raise
    except HarnessError:
        raise
    except Exception as e:
        arrived = e
    if inner['entered'] is not cl:
        notes.append('__enter__ did not return the client itself')
    if inner['exc'] is not None and arrived is None:
        notes.append('suppressed: %s raised inside the with block did not propagate out of it' % type(inner['exc']).__name__)
    elif inner['exc'] is not None and arrived is not inner['exc']:
        notes.append('replaced: %s raised inside the with block arrived outside as %s' % (type(inner['exc']).__name__, type(arrived).__name__))
    if cl._is_open:
        notes.append('the client is still open after the with block')
    if arrived is not None:
        return classify_exception(arrived), notes
    if inner['done']:
        return ('return', inner['value']), notes
    return ('return', None), notes       # the block was left without value and without exception


def chunk(data, plan, rng=None):
    """Split `data` according to a chunking class; ('truncate', k) ends the stream after k bytes."""
    kind = plan[0]
    n = len(data)
    if kind == 'whole':
        return [data] if data else []
    if kind == 'bytes':
        return [data[i:i + 1] for i in range(n)]
    if kind == 'cuts':
        cuts = sorted(set(c for c in plan[1] if 0 < c < n))
        out, prev = [], 0
        for c in cuts + [n]:
            out.append(data[prev:c])
            prev = c
        return [c for c in out if c]
    if kind == 'size':
        k = max(1, plan[1])
        return [data[i:i + k] for i in range(0, n, k)]
    if kind == 'truncate':
        k = max(0, min(n, plan[1]))
        inner = plan[2] if len(plan) > 2 else ('whole',)
        return chunk(data[:k], inner)
    raise ValueError(plan)


# ---------------------------------------------------------------------- projection to the model's `val`
# python form: None | ('i', int) | ('b', bytes) | ('l', [val...])
def _json_bytes(x):
    return json.dumps(kdrv.plain(x), sort_keys=True, default=str).encode('ascii', 'backslashreplace')


CP_FIELDS = ['block_cipher_mode', 'padding_method', 'hashing_algorithm', 'key_role_type', 'digital_signature_algorithm',
             'cryptographic_algorithm', 'random_iv', 'iv_length', 'tag_length', 'fixed_field_length',
             'invocation_field_length', 'counter_length', 'initial_counter_value']


def _all_none(v):
    return v is None or (v[0] == 'l' and all(_all_none(y) for y in v[1]))


def _norm(v):
    """An absent sub-structure and one whose every field is absent are the same information."""
    return None if _all_none(v) else v


def cp_val(cp_obj):
    """Cryptographic parameters: core struct, Pie dictionary, or None -> every field, in a fixed order."""
    if cp_obj is None or cp_obj == {}:
        return None
    get = (lambda n: cp_obj.get(n)) if isinstance(cp_obj, dict) else (lambda n: getattr(cp_obj, n))
    return _norm(('l', [to_val(get(n)) for n in CP_FIELDS]))


def key_info_val(ki):
    if ki is None or ki == {}:
        return None
    if isinstance(ki, dict):
        return _norm(('l', [to_val(ki.get('unique_identifier')), cp_val(ki.get('cryptographic_parameters'))]))
    return _norm(('l', [to_val(ki.unique_identifier), cp_val(ki.cryptographic_parameters)]))


def kwd_val(w):
    """Key wrapping data: core KeyWrappingData, Pie dictionary, or None -> every field and sub-field."""
    if w is None or w == {}:
        return None
    if isinstance(w, dict):
        return _norm(('l', [to_val(w.get('wrapping_method')), key_info_val(w.get('encryption_key_information')),
                            key_info_val(w.get('mac_signature_key_information')), to_val(w.get('mac_signature')),
                            to_val(w.get('iv_counter_nonce')), to_val(w.get('encoding_option'))]))
    return _norm(('l', [to_val(w.wrapping_method), key_info_val(w.encryption_key_information),
                        key_info_val(w.mac_signature_key_information), to_val(w.mac_signature),
                        to_val(w.iv_counter_nonce), to_val(w.encoding_option)]))


def secret_val(x):
    """Canonical view of a managed object, core (kmip.core.secrets) or Pie (kmip.pie.objects): every field the Pie
    object model carries, including every sub-field of the key wrapping data."""
    def kb(o):
        b = o.key_block
        return [('i', b.key_format_type.value.value), ('b', bytes(b.key_value.key_material.value)),
                ('i', b.cryptographic_algorithm.value.value) if b.cryptographic_algorithm is not None else None,
                ('i', b.cryptographic_length.value) if b.cryptographic_length is not None else None,
                kwd_val(b.key_wrapping_data)]
    if isinstance(x, csecrets.SplitKey):
        return ('l', [('i', 5)] + kb(x) + [to_val(x.split_key_parts), to_val(x.key_part_identifier), to_val(x.split_key_threshold),
                                          to_val(x.split_key_method), to_val(x.prime_field_size)])
    if isinstance(x, pobjects.SplitKey):
        return ('l', [('i', 5), ('i', x.key_format_type.value), ('b', bytes(x.value)),
                      ('i', x.cryptographic_algorithm.value) if x.cryptographic_algorithm is not None else None,
                      ('i', x.cryptographic_length) if x.cryptographic_length is not None else None,
                      kwd_val(x.key_wrapping_data),
                      to_val(x.split_key_parts), to_val(x.key_part_identifier), to_val(x.split_key_threshold),
                      to_val(x.split_key_method), to_val(x.prime_field_size)])
    if isinstance(x, (csecrets.SymmetricKey, csecrets.PublicKey, csecrets.PrivateKey)):
        code = {csecrets.SymmetricKey: 2, csecrets.PublicKey: 3, csecrets.PrivateKey: 4}[type(x)]
        return ('l', [('i', code)] + kb(x))
    if isinstance(x, (pobjects.SymmetricKey, pobjects.PublicKey, pobjects.PrivateKey)):
        return ('l', [('i', x.object_type.value), ('i', x.key_format_type.value), ('b', bytes(x.value)),
                      ('i', x.cryptographic_algorithm.value) if x.cryptographic_algorithm is not None else None,
                      ('i', x.cryptographic_length) if x.cryptographic_length is not None else None,
                      kwd_val(x.key_wrapping_data)])
    if isinstance(x, csecrets.Certificate):
        return ('l', [('i', 1), ('i', x.certificate_type.value.value), ('b', bytes(x.certificate_value.value))])
    if isinstance(x, pobjects.Certificate):
        return ('l', [('i', 1), ('i', x.certificate_type.value), ('b', bytes(x.value))])
    if isinstance(x, csecrets.SecretData):
        return ('l', [('i', 7), ('i', x.secret_data_type.value.value), ('b', bytes(x.key_block.key_value.key_material.value))])
    if isinstance(x, pobjects.SecretData):
        return ('l', [('i', 7), ('i', x.data_type.value), ('b', bytes(x.value))])
    if isinstance(x, csecrets.OpaqueObject):
        return ('l', [('i', 8), ('i', x.opaque_data_type.value.value), ('b', bytes(x.opaque_data_value.value))])
    if isinstance(x, pobjects.OpaqueObject):
        return ('l', [('i', 8), ('i', x.opaque_type.value), ('b', bytes(x.value))])
    return None


def to_val(x):
    if x is None:
        return None
    if isinstance(x, bool):
        return ('i', 1 if x else 0)
    if isinstance(x, int):
        return ('i', x)
    if isinstance(x, enum.Enum):
        return ('i', x.value)
    if isinstance(x, str):
        return ('b', x.encode('utf-8'))
    if isinstance(x, (bytes, bytearray)):
        return ('b', bytes(x))
    if isinstance(x, (list, tuple)):
        return ('l', [to_val(y) for y in x])
    sv = secret_val(x)
    if sv is not None:
        return sv
    if isinstance(x, cobjects.Attribute):
        return ('l', [to_val(x.attribute_name.value if x.attribute_name is not None else None),
                      to_val(x.attribute_index.value if x.attribute_index is not None else None),
                      ('b', _json_bytes(x.attribute_value))])
    if isinstance(x, primitives.Struct):
        return ('b', type(x).__name__.encode() + b':' + _json_bytes(x))
    if isinstance(x, primitives.Base) and hasattr(x, 'value'):
        return to_val(x.value)
    return ('b', b'?' + repr(x).encode('ascii', 'backslashreplace'))


def val_coq(v):
    if v is None:
        return 'VNone'
    t, a = v
    if t == 'i':
        return '(VInt %s)' % cp.z(a)
    if t == 'b':
        return '(VBytes %s)' % cp.byts(a)
    return '(VList [%s])' % '; '.join(val_coq(y) for y in a)


def opt_coq(x, pr):
    return 'None' if x is None else '(Some %s)' % pr(x)


# payload / result / dict attribute names of the model
P_ATTR = [('PUniqueIdentifier', 'unique_identifier'), ('PObjectType', 'object_type'), ('PTemplateAttribute', 'template_attribute'),
          ('PPrivUid', 'private_key_unique_identifier'), ('PPubUid', 'public_key_unique_identifier'),
          ('PPrivTemplate', 'private_key_template_attribute'), ('PPubTemplate', 'public_key_template_attribute'),
          ('PSecret', 'secret'), ('PAttributes', 'attributes'), ('PAttributeNames', 'attribute_names'),
          ('PUniqueIdentifiers', 'unique_identifiers'), ('PMacData', 'mac_data'), ('PData', 'data'),
          ('PIvCounterNonce', 'iv_counter_nonce'), ('PValidityIndicator', 'validity_indicator'),
          ('PSignatureData', 'signature_data'), ('PUsageLimitsCount', 'usage_limits_count'),
          ('PCryptoUsageMask', 'cryptographic_usage_mask'), ('PLeaseTime', 'lease_time'), ('PAttribute', 'attribute'),
          ('PProtocolVersions', 'protocol_versions'), ('POperations', 'operations'), ('PObjectTypes', 'object_types'),
          ('PVendor', 'vendor_identification'), ('PServerInfo', 'server_information'),
          ('PNamespaces', 'application_namespaces'), ('PExtensions', 'extension_information')]
R_ATTR = [('RUuid', 'uuid'), ('RObjectType', 'object_type'), ('RTemplate', 'template_attribute'),
          ('RPrivUuid', 'private_key_uuid'), ('RPubUuid', 'public_key_uuid'),
          ('RPrivTemplate', 'private_key_template_attribute'), ('RPubTemplate', 'public_key_template_attribute'),
          ('RSecret', 'secret'), ('RAttributes', 'attributes'), ('RUid', 'uid'), ('RNames', 'names'), ('RUuids', 'uuids'),
          ('RUniqueIdentifier', 'unique_identifier'), ('RMacData', 'mac_data'), ('RProtocolVersions', 'protocol_versions'),
          ('ROperations', 'operations'), ('RObjectTypes', 'object_types'), ('RVendor', 'vendor_identification'),
          ('RServerInfo', 'server_information'), ('RNamespaces', 'application_namespaces'),
          ('RExtensions', 'extension_information')]
D_ATTR = [('DUniqueIdentifier', 'unique_identifier'), ('DTemplateAttribute', 'template_attribute'), ('DData', 'data'),
          ('DIvCounterNonce', 'iv_counter_nonce'), ('DValidityIndicator', 'validity_indicator'), ('DSignature', 'signature'),
          ('DUsageLimitsCount', 'usage_limits_count'), ('DCryptoUsageMask', 'cryptographic_usage_mask'),
          ('DLeaseTime', 'lease_time')]
R_CLASS = {'CreateResult': 'CCreate', 'RegisterResult': 'CRegister', 'GetResult': 'CGet', 'ActivateResult': 'CActivate',
           'DestroyResult': 'CDestroy', 'RevokeResult': 'CRevoke', 'LocateResult': 'CLocate', 'MACResult': 'CMac',
           'CreateKeyPairResult': 'CCreateKeyPair', 'RekeyKeyPairResult': 'CRekeyKeyPair',
           'GetAttributesResult': 'CGetAttributes', 'GetAttributeListResult': 'CGetAttributeList',
           'QueryResult': 'CQuery', 'DiscoverVersionsResult': 'CDiscoverVersions', 'OperationResult': 'COperationResult'}


def obj_attrs(o, table, secret_override=None):
    """[(model name, val)] for every attribute of the table the Python object has."""
    out = []
    for mname, pyname in table:
        if isinstance(o, dict):
            if pyname in o:
                out.append((mname, to_val(o[pyname])))
        elif hasattr(o, pyname):
            v = getattr(o, pyname)
            out.append((mname, to_val(v)))
    return out


def attrs_coq(a):
    return '[' + '; '.join('(%s, %s)' % (n, val_coq(v)) for n, v in a) + ']'


# ---------------------------------------------------------------------- response scripts
class Item:
    """One response batch item.  op: 'same' | None | an enums.Operation."""

    def __init__(self, status=RS.SUCCESS, reason=None, message=None, payload=None, op='same', hv=None):
        self.status, self.reason, self.message, self.payload, self.op = status, reason, message, payload, op
        self.hv = hv        # on the first item: protocol version (major, minor) the RESPONSE HEADER announces, None = the client's

    def describe(self):
        return {'op': self.op if isinstance(self.op, (str, type(None))) else self.op.name, 'status': self.status.name,
                'reason': self.reason.name if self.reason is not None else None, 'message': self.message,
                'payload': type(self.payload).__name__ if self.payload is not None else None}


def build_response(version, request_op, items, header_version=None):
    """ResponseMessage bytes for the given items, written under `version` by the real encoder."""
    batch = []
    for it in items:
        if it.op == 'same':
            opv = request_op
        else:
            opv = it.op
        batch.append(messages.ResponseBatchItem(
            operation=(contents.Operation(opv) if opv is not None else None),
            result_status=contents.ResultStatus(it.status),
            result_reason=(contents.ResultReason(it.reason) if it.reason is not None else None),
            result_message=(contents.ResultMessage(it.message) if it.message is not None else None),
            response_payload=it.payload))
    hv = header_version or VER_TUPLE[version]
    hdr = messages.ResponseHeader(protocol_version=contents.ProtocolVersion(*hv),
                                  time_stamp=contents.TimeStamp(1600000000),
                                  batch_count=contents.BatchCount(len(batch)))
    msg = messages.ResponseMessage(response_header=hdr, batch_items=batch)
    s = utils.BytearrayStream()
    msg.write(s, kmip_version=version)
    return bytes(s.buffer)


def decode_response(version, data):
    """What the real decoder makes of the bytes under the client's version: ResponseMessage or None (raises)."""
    m = messages.ResponseMessage()
    try:
        m.read(utils.BytearrayStream(data), kmip_version=version)
    except Exception:
        return None
    return m


def ritem_of_batch_item(bi):
    return {'op': bi.operation.value.value if bi.operation is not None else None,
            'status': bi.result_status.value.value,
            'reason': bi.result_reason.value.value if bi.result_reason is not None else None,
            'msg': bi.result_message.value.encode('utf-8') if bi.result_message is not None else None,
            'payload': obj_attrs(bi.response_payload, P_ATTR) if bi.response_payload is not None else None}


def ritem_coq(r):
    return '{| ri_op := %s; ri_status := %s; ri_reason := %s; ri_msg := %s; ri_payload := %s |}' % (
        opt_coq(r['op'], cp.z), cp.z(r['status']), opt_coq(r['reason'], cp.z), opt_coq(r['msg'], cp.byts),
        opt_coq(r['payload'], attrs_coq))


def resp_coq(items):
    if items is None:
        return 'Undecodable'
    return '(Decoded [%s])' % '; '.join(ritem_coq(r) for r in items)


class HarnessError(BaseException):
    """A failure of the harness itself (never to be mistaken for client behaviour)."""


class Scripted:
    """Responder: decode the request with the real server-side classes, answer as scripted."""

    def __init__(self, version, items=None, raw=None, mangle=None, plan=('whole',), header_version=None):
        self.version, self.items, self.raw, self.mangle, self.plan = version, items, raw, mangle, plan
        self.header_version = header_version
        self.request = None
        self.request_error = None
        self.response_bytes = None

    def __call__(self, data):
        req = messages.RequestMessage()
        try:
            req.read(utils.BytearrayStream(data), kmip_version=self.version)
            self.request = req
            rop = req.batch_items[0].operation.value
        except Exception as e:      # the request is not decodable by the server-side classes
            self.request_error = '%s: %s' % (type(e).__name__, e)
            rop = None
        try:
            if self.raw is not None:
                out = self.raw
            elif self.request is None:
                # what a server does with a request it cannot parse: a request-level failure without Operation
                out = build_response(self.version, None, [Item(RS.OPERATION_FAILED, RR.INVALID_MESSAGE,
                                                              'Error parsing request message.', op=None)], self.header_version)
            else:
                hv = self.header_version or (self.items[0].hv if self.items else None)
                out = build_response(self.version, rop, self.items, hv)
                if self.mangle is not None:
                    out = self.mangle(out)
        except Exception as e:
            import traceback
            raise HarnessError('cannot build scripted response: %s' % traceback.format_exc())
        self.response_bytes = out
        return chunk(out, self.plan)


# ---------------------------------------------------------------------- outcomes
def classify_exception(e):
    if isinstance(e, pexc.KmipOperationFailure):
        return ('raise', 'FPie', e.status, e.reason, e.message)
    if isinstance(e, cexc.OperationFailure):
        return ('raise', 'FCore', e.status, e.reason, e.args[0] if e.args else None)
    return ('other', type(e).__name__, str(e)[:160])


def run_call(fn):
    try:
        r = fn()
    except Exception as e:
        return classify_exception(e)
    return ('return', r)


def outcome_coq(out):
    if out[0] == 'return':
        return '(Return %s)' % val_coq(to_val(out[1]))
    if out[0] == 'raise':
        _, cls, st, rs, msg = out
        return '(Raise %s %s %s %s)' % (cls, cp.z(st.value), cp.z(rs.value),
                                        opt_coq(msg.encode('utf-8') if msg is not None else None, cp.byts))
    return 'RaiseOther'


def outcome_plain(out):
    if out[0] == 'return':
        return {'kind': 'return', 'value': repr(to_val(out[1]))[:300]}
    if out[0] == 'raise':
        return {'kind': 'raise', 'class': out[1], 'status': out[2].name, 'reason': out[3].name, 'message': out[4]}
    return {'kind': 'other-exception', 'class': out[1], 'text': out[2]}


# ---------------------------------------------------------------------- generators of values
ALPH = 'abcdefghijklmnopqrstuvwxyzABCDEFGHIJKLMNOPQRSTUVWXYZ0123456789-_ .:/"\'\\{}%'


def gen_text(rng, lo=0, hi=24):
    return ''.join(rng.choice(ALPH) for _ in range(rng.randint(lo, hi)))


def gen_uid(rng):
    r = rng.random()
    if r < 0.5:
        return str(rng.randint(1, 10 ** rng.randint(1, 9)))
    return gen_text(rng, 1, 40)


def gen_bytes(rng, lo=0, hi=40):
    return bytes(rng.randrange(256) for _ in range(rng.randint(lo, hi)))


FACTORY = pie_factory.ObjectFactory()
CA_ = enums.CryptographicAlgorithm


def gen_cp_core(rng, salt):
    """CryptographicParameters with a random subset of (truthy) fields; `salt` makes two structures pairwise different."""
    menu = {
        'block_cipher_mode': [enums.BlockCipherMode.CBC, enums.BlockCipherMode.GCM, enums.BlockCipherMode.NIST_KEY_WRAP, enums.BlockCipherMode.CTR],
        'padding_method': [enums.PaddingMethod.PKCS5, enums.PaddingMethod.PSS, enums.PaddingMethod.OAEP, enums.PaddingMethod.PKCS1v15],
        'hashing_algorithm': [enums.HashingAlgorithm.SHA_256, enums.HashingAlgorithm.SHA_1, enums.HashingAlgorithm.SHA_512, enums.HashingAlgorithm.MD5],
        'key_role_type': [enums.KeyRoleType.KEK, enums.KeyRoleType.BDK, enums.KeyRoleType.MKAC, enums.KeyRoleType.DEK],
        'digital_signature_algorithm': [enums.DigitalSignatureAlgorithm.SHA256_WITH_RSA_ENCRYPTION, enums.DigitalSignatureAlgorithm.SHA1_WITH_RSA_ENCRYPTION,
                                        enums.DigitalSignatureAlgorithm.DSA_WITH_SHA1, enums.DigitalSignatureAlgorithm.ECDSA_WITH_SHA256],
        'cryptographic_algorithm': [CA_.AES, CA_.RSA, CA_.HMAC_SHA256, CA_.TRIPLE_DES],
        'random_iv': [True], 'iv_length': [96, 128, 64, 32], 'tag_length': [12, 16, 8, 4], 'fixed_field_length': [32, 16, 8, 4],
        'invocation_field_length': [64, 32, 16, 8], 'counter_length': [32, 16, 8, 64], 'initial_counter_value': [1, 2, 3, 4]}
    kw = {}
    for n, vals in menu.items():
        if rng.random() < 0.6:
            kw[n] = vals[(salt + rng.randrange(2) * 2) % len(vals)]      # salt 0 / 1 pick from disjoint halves
    if not kw:
        kw['block_cipher_mode'] = menu['block_cipher_mode'][salt % 4]
    return cattrs.CryptographicParameters(**kw)


def gen_wrapping_data(rng, shape=None):
    """KeyWrappingData with every optional sub-structure present or absent (shape picks which) and pairwise
    different values in the two key informations."""
    shape = shape if shape is not None else rng.choice(['both', 'both', 'enc-only', 'mac-only', 'both-no-params', 'enc-params-only',
                                                        'mac-params-only'])
    eki = mski = None
    if shape in ('both', 'enc-only', 'both-no-params', 'enc-params-only', 'mac-params-only'):
        eki = cobjects.EncryptionKeyInformation(
            unique_identifier='e' + gen_uid(rng),
            cryptographic_parameters=gen_cp_core(rng, 0) if shape in ('both', 'enc-only', 'enc-params-only') else None)
    if shape in ('both', 'mac-only', 'both-no-params', 'enc-params-only', 'mac-params-only'):
        mski = cobjects.MACSignatureKeyInformation(
            unique_identifier='m' + gen_uid(rng),
            cryptographic_parameters=gen_cp_core(rng, 1) if shape in ('both', 'mac-only', 'mac-params-only') else None)
    if shape == 'enc-only':
        method = enums.WrappingMethod.ENCRYPT
    elif shape == 'mac-only':
        method = enums.WrappingMethod.MAC_SIGN
    else:
        method = rng.choice([enums.WrappingMethod.ENCRYPT_THEN_MAC_SIGN, enums.WrappingMethod.MAC_SIGN_THEN_ENCRYPT])
    return cobjects.KeyWrappingData(
        wrapping_method=method, encryption_key_information=eki, mac_signature_key_information=mski,
        mac_signature=(gen_bytes(rng, 4, 32) if mski is not None and rng.random() < 0.7 else None),
        iv_counter_nonce=(gen_bytes(rng, 8, 16) if rng.random() < 0.5 else None),
        encoding_option=rng.choice([None, enums.EncodingOption.NO_ENCODING, enums.EncodingOption.TTLV_ENCODING])), shape


def gen_wrapped_key(rng, shape=None):
    """(core key whose KeyBlock carries Key Wrapping Data, object type, shape) - core constructors only."""
    from kmip.core import misc as cmisc
    kind = rng.randrange(4)
    cls, ot, fmt, alg, length = [
        (csecrets.SymmetricKey, enums.ObjectType.SYMMETRIC_KEY, enums.KeyFormatType.RAW, CA_.AES, rng.choice([128, 256])),
        (csecrets.PublicKey, enums.ObjectType.PUBLIC_KEY, enums.KeyFormatType.X_509, CA_.RSA, 2048),
        (csecrets.PrivateKey, enums.ObjectType.PRIVATE_KEY, enums.KeyFormatType.PKCS_8, CA_.RSA, 2048),
        (csecrets.SplitKey, enums.ObjectType.SPLIT_KEY, enums.KeyFormatType.RAW, CA_.AES, 128)][kind]
    if shape == 'none':
        kwd = None
    else:
        kwd, shape = gen_wrapping_data(rng, shape)
    kb = cobjects.KeyBlock(
        key_format_type=cmisc.KeyFormatType(fmt), key_compression_type=None,
        key_value=cobjects.KeyValue(cobjects.KeyMaterial(gen_bytes(rng, 8, 48))),       # wrapped: length unrelated to `length`
        cryptographic_algorithm=cattrs.CryptographicAlgorithm(alg), cryptographic_length=cattrs.CryptographicLength(length),
        key_wrapping_data=kwd)
    if cls is csecrets.SplitKey:
        parts = rng.randint(2, 6)
        prime = rng.choice([None, 104729, 7919])
        return csecrets.SplitKey(split_key_parts=parts, key_part_identifier=rng.randint(1, parts),
                                 split_key_threshold=rng.randint(1, parts),
                                 split_key_method=(enums.SplitKeyMethod.POLYNOMIAL_SHARING_PRIME_FIELD if prime else
                                                   rng.choice([enums.SplitKeyMethod.XOR, enums.SplitKeyMethod.POLYNOMIAL_SHARING_GF_2_8])),
                                 prime_field_size=prime, key_block=kb), ot, shape
    return cls(kb), ot, shape


def gen_split_key(rng):
    """An unwrapped split key (core), pairwise different part numbers."""
    from kmip.core import misc as cmisc
    kb = cobjects.KeyBlock(key_format_type=cmisc.KeyFormatType(enums.KeyFormatType.RAW), key_compression_type=None,
                           key_value=cobjects.KeyValue(cobjects.KeyMaterial(gen_bytes(rng, 16, 16))),
                           cryptographic_algorithm=cattrs.CryptographicAlgorithm(CA_.AES),
                           cryptographic_length=cattrs.CryptographicLength(128))
    return csecrets.SplitKey(split_key_parts=5, key_part_identifier=rng.choice([1, 2]), split_key_threshold=rng.choice([3, 4]),
                             split_key_method=enums.SplitKeyMethod.POLYNOMIAL_SHARING_PRIME_FIELD, prime_field_size=rng.choice([104729, 7919]),
                             key_block=kb), enums.ObjectType.SPLIT_KEY


def gen_secret(rng):
    """(core secret for the payload, object type) built from random parameters through the Pie constructors."""
    k = rng.randrange(6)
    if k == 0:
        n = rng.choice([8, 16, 24, 32, 64])
        alg = rng.choice([enums.CryptographicAlgorithm.AES, enums.CryptographicAlgorithm.TRIPLE_DES,
                          enums.CryptographicAlgorithm.HMAC_SHA256, enums.CryptographicAlgorithm.BLOWFISH])
        o = pobjects.SymmetricKey(alg, n * 8, gen_bytes(rng, n, n))
    elif k == 1:
        o = pobjects.PublicKey(enums.CryptographicAlgorithm.RSA, rng.choice([1024, 2048, 4096]), gen_bytes(rng, 1, 60),
                               rng.choice([enums.KeyFormatType.X_509, enums.KeyFormatType.PKCS_1, enums.KeyFormatType.RAW]))
    elif k == 2:
        o = pobjects.PrivateKey(enums.CryptographicAlgorithm.RSA, rng.choice([1024, 2048]), gen_bytes(rng, 1, 60),
                                rng.choice([enums.KeyFormatType.PKCS_8, enums.KeyFormatType.PKCS_1, enums.KeyFormatType.RAW]))
    elif k == 3:
        o = pobjects.X509Certificate(gen_bytes(rng, 1, 60))
    elif k == 4:
        o = pobjects.SecretData(gen_bytes(rng, 1, 40), rng.choice(list(enums.SecretDataType)))
    else:
        o = pobjects.OpaqueObject(gen_bytes(rng, 0, 40), enums.OpaqueDataType.NONE)
    return FACTORY.convert(o), o.object_type


def gen_attribute(rng, v=None):
    k = rng.randrange(6 if (v is not None and v >= KV.KMIP_1_4) else 5)
    if k == 5:
        return kdrv.attr('SENSITIVE', rng.choice([True, False]))
    if k == 0:
        idx = None if (v is not None and v >= KV.KMIP_2_0) else rng.choice([None, 0, 1, 2])
        return kdrv.attr('NAME', kdrv.name_value(gen_text(rng, 1, 12)), idx)
    if k == 1:
        return kdrv.attr('CRYPTOGRAPHIC_LENGTH', rng.choice([128, 192, 256, 2048]))
    if k == 2:
        return kdrv.attr('CRYPTOGRAPHIC_ALGORITHM', rng.choice([enums.CryptographicAlgorithm.AES, enums.CryptographicAlgorithm.RSA]))
    if k == 3:
        return kdrv.attr('STATE', rng.choice(list(enums.State)))
    return kdrv.attr('OBJECT_TYPE', rng.choice([enums.ObjectType.SYMMETRIC_KEY, enums.ObjectType.CERTIFICATE]))


ATTR_NAMES = ['Name', 'State', 'Object Type', 'Cryptographic Length', 'Cryptographic Algorithm', 'Unique Identifier',
              'Operation Policy Name', 'Initial Date', 'Digest', 'Cryptographic Usage Mask', 'Lease Time', 'Sensitive']


# ---------------------------------------------------------------------- the operations
CA = enums.CryptographicAlgorithm
CUM = enums.CryptographicUsageMask


def _uid_attr(s):
    return cattrs.UniqueIdentifier(s)


def gen_cp_dict(rng):
    r = rng.random()
    if r < 0.3:
        return None
    d = {}
    if rng.random() < 0.6:
        d['block_cipher_mode'] = rng.choice([enums.BlockCipherMode.CBC, enums.BlockCipherMode.GCM, enums.BlockCipherMode.ECB])
    if rng.random() < 0.5:
        d['padding_method'] = rng.choice([enums.PaddingMethod.PKCS5, enums.PaddingMethod.PSS, enums.PaddingMethod.NONE])
    if rng.random() < 0.5:
        d['hashing_algorithm'] = rng.choice([enums.HashingAlgorithm.SHA_256, enums.HashingAlgorithm.SHA_1])
    if rng.random() < 0.5:
        d['cryptographic_algorithm'] = rng.choice([CA.AES, CA.RSA, CA.HMAC_SHA256])
    if rng.random() < 0.3:
        d['digital_signature_algorithm'] = enums.DigitalSignatureAlgorithm.SHA256_WITH_RSA_ENCRYPTION
    if rng.random() < 0.3:
        d['random_iv'] = rng.choice([True, False])
    if rng.random() < 0.3:
        d['iv_length'] = rng.choice([0, 96, 128])
    if rng.random() < 0.3:
        d['tag_length'] = rng.choice([12, 16])
    if rng.random() < 0.2:
        d['initial_counter_value'] = 1
    return d


class Op:
    """name: ProxyKmipClient method; model: constructor of Client.op; code: enums.Operation."""
    pie = True

    def __init__(self, name, model, code, args, payload, expect, proxy=None, min_version=None, req=None):
        self.name, self.model, self.code = name, model, code
        self.args = args            # rng, version -> dict of keyword arguments for the Pie method
        self.payload = payload      # rng, version -> response payload object of a successful answer
        self.expect = expect        # payload -> Python value the caller must get (projected with to_val)
        self.proxy = proxy          # rng, version -> (callable on KMIPProxy) for the KMIPProxy-level check
        self.min_version = min_version
        self.req = req              # (kwargs, decoded request payload, version) -> list of (what, expected, got)


def _masks(rng):
    return rng.sample([CUM.ENCRYPT, CUM.DECRYPT, CUM.SIGN, CUM.VERIFY, CUM.MAC_GENERATE, CUM.WRAP_KEY], rng.randint(1, 3))


def a_create(rng, v):
    return dict(algorithm=rng.choice([CA.AES, CA.TRIPLE_DES, CA.BLOWFISH]), length=rng.choice([64, 128, 192, 256]),
                operation_policy_name=rng.choice([None, 'default', 'public']), name=rng.choice([None, gen_text(rng, 1, 20)]),
                cryptographic_usage_mask=rng.choice([None, _masks(rng)]))


def a_create_key_pair(rng, v):
    return dict(algorithm=CA.RSA, length=rng.choice([1024, 2048]), operation_policy_name=rng.choice([None, 'default']),
                public_name=rng.choice([None, gen_text(rng, 1, 12)]), public_usage_mask=rng.choice([None, [CUM.VERIFY]]),
                private_name=rng.choice([None, gen_text(rng, 1, 12)]), private_usage_mask=rng.choice([None, [CUM.SIGN]]))


def gen_pie_wrapping_dict(rng):
    """Pie key_wrapping_data dictionary with both key informations carrying different parameters (or one of them)."""
    shape = rng.choice(['both', 'both', 'enc-only', 'mac-only'])
    d = {'wrapping_method': {'both': enums.WrappingMethod.ENCRYPT_THEN_MAC_SIGN, 'enc-only': enums.WrappingMethod.ENCRYPT,
                             'mac-only': enums.WrappingMethod.MAC_SIGN}[shape],
         'encoding_option': rng.choice([None, enums.EncodingOption.NO_ENCODING])}
    if shape != 'mac-only':
        d['encryption_key_information'] = {'unique_identifier': 'e' + gen_uid(rng),
                                           'cryptographic_parameters': {'block_cipher_mode': enums.BlockCipherMode.NIST_KEY_WRAP,
                                                                        'cryptographic_algorithm': CA_.AES}}
    if shape != 'enc-only':
        d['mac_signature_key_information'] = {'unique_identifier': 'm' + gen_uid(rng),
                                              'cryptographic_parameters': {'hashing_algorithm': enums.HashingAlgorithm.SHA_256,
                                                                           'cryptographic_algorithm': CA_.HMAC_SHA256}}
        d['mac_signature'] = gen_bytes(rng, 8, 32)
    if rng.random() < 0.5:
        d['iv_counter_nonce'] = gen_bytes(rng, 8, 16)
    return d


def gen_pie_object(rng):
    k = rng.randrange(8)
    nm = gen_text(rng, 1, 16)
    if k == 6:
        return pobjects.SymmetricKey(CA_.AES, 128, gen_bytes(rng, 24, 40), masks=[enums.CryptographicUsageMask.ENCRYPT], name=nm,
                                     key_wrapping_data=gen_pie_wrapping_dict(rng))
    if k == 7:
        return pobjects.SplitKey(cryptographic_algorithm=CA_.AES, cryptographic_length=128, key_value=gen_bytes(rng, 16, 16),
                                 cryptographic_usage_masks=[enums.CryptographicUsageMask.EXPORT], name=nm,
                                 split_key_parts=4, key_part_identifier=rng.choice([1, 2]), split_key_threshold=3,
                                 split_key_method=enums.SplitKeyMethod.XOR)
    if k == 0:
        n = rng.choice([16, 24, 32])
        return pobjects.SymmetricKey(CA.AES, n * 8, gen_bytes(rng, n, n), masks=_masks(rng), name=nm)
    if k == 1:
        return pobjects.PublicKey(CA.RSA, 2048, gen_bytes(rng, 8, 60), enums.KeyFormatType.X_509, masks=[CUM.VERIFY], name=nm)
    if k == 2:
        return pobjects.PrivateKey(CA.RSA, 2048, gen_bytes(rng, 8, 60), enums.KeyFormatType.PKCS_8, masks=[CUM.SIGN], name=nm)
    if k == 3:
        return pobjects.X509Certificate(gen_bytes(rng, 8, 60), name=nm)
    if k == 4:
        return pobjects.SecretData(gen_bytes(rng, 1, 32), enums.SecretDataType.PASSWORD, masks=[CUM.DERIVE_KEY], name=nm)
    return pobjects.OpaqueObject(gen_bytes(rng, 1, 32), enums.OpaqueDataType.NONE, name=nm)


def a_register(rng, v):
    return dict(managed_object=gen_pie_object(rng))


def a_locate(rng, v):
    attrs = None
    if rng.random() < 0.6:
        attrs = [gen_attribute(rng) for _ in range(rng.randint(0, 3))]
    return dict(maximum_items=rng.choice([None, 0, 1, 7]), offset_items=rng.choice([None, 0, 2]),
                storage_status_mask=rng.choice([None, 1, 3]),
                object_group_member=rng.choice([None, enums.ObjectGroupMember.GROUP_MEMBER_FRESH]), attributes=attrs)


def a_uid(rng, v):
    return dict(uid=rng.choice([None, gen_uid(rng), gen_uid(rng)]))


def a_get(rng, v):
    spec = None
    if rng.random() < 0.3:
        spec = {'wrapping_method': enums.WrappingMethod.ENCRYPT,
                'encryption_key_information': {'unique_identifier': gen_uid(rng) or '1',
                                               'cryptographic_parameters': {'block_cipher_mode': enums.BlockCipherMode.NIST_KEY_WRAP}},
                'encoding_option': enums.EncodingOption.NO_ENCODING}
        if rng.random() < 0.5:
            spec['attribute_names'] = rng.sample(ATTR_NAMES, 2)
    return dict(uid=rng.choice([None, gen_uid(rng)]), key_wrapping_specification=spec)


def a_get_attributes(rng, v):
    return dict(uid=rng.choice([None, gen_uid(rng)]),
                attribute_names=rng.choice([None, [], rng.sample(ATTR_NAMES, rng.randint(1, 4))]))


def a_revoke(rng, v):
    return dict(revocation_reason=rng.choice(list(enums.RevocationReasonCode)), uid=rng.choice([None, gen_uid(rng)]),
                revocation_message=rng.choice([None, gen_text(rng, 0, 20)]),
                compromise_occurrence_date=rng.choice([None, 0, 1500000000]))


def a_mac(rng, v):
    return dict(data=gen_bytes(rng, 0, 40), uid=gen_uid(rng), algorithm=rng.choice([None, CA.HMAC_SHA256, CA.HMAC_SHA512]))


def a_rekey(rng, v):
    kw = dict(uid=rng.choice([None, gen_uid(rng)]), offset=rng.choice([None, 0, 3600]))
    for d in ('activation_date', 'process_start_date', 'protect_stop_date', 'deactivation_date'):
        if rng.random() < 0.3:
            kw[d] = rng.randint(1, 2000000000)
    return kw


def a_derive_key(rng, v):
    params = {}
    if rng.random() < 0.7:
        params['cryptographic_parameters'] = gen_cp_dict(rng)
    if rng.random() < 0.5:
        params['derivation_data'] = gen_bytes(rng, 1, 20)
    if rng.random() < 0.3:
        params['salt'] = gen_bytes(rng, 1, 8)
        params['iteration_count'] = rng.choice([1, 1000])
    if rng.random() < 0.3:
        params['initialization_vector'] = gen_bytes(rng, 8, 16)
    kw = dict(object_type=rng.choice([enums.ObjectType.SYMMETRIC_KEY, enums.ObjectType.SECRET_DATA]),
              unique_identifiers=[gen_uid(rng) for _ in range(rng.randint(1, 3))],
              derivation_method=rng.choice([enums.DerivationMethod.HASH, enums.DerivationMethod.PBKDF2, enums.DerivationMethod.HMAC]),
              derivation_parameters=params)
    if rng.random() < 0.6:
        kw['cryptographic_length'] = rng.choice([128, 256])
    if rng.random() < 0.6:
        kw['cryptographic_algorithm'] = CA.AES
    return kw


def a_check(rng, v):
    return dict(uid=rng.choice([None, gen_uid(rng)]), usage_limits_count=rng.choice([None, 0, 10]),
                cryptographic_usage_mask=_masks(rng), lease_time=rng.choice([None, 0, 60]))


def a_crypt(rng, v):
    return dict(data=gen_bytes(rng, 0, 48), uid=rng.choice([None, gen_uid(rng)]), cryptographic_parameters=gen_cp_dict(rng),
                iv_counter_nonce=rng.choice([None, gen_bytes(rng, 1, 16)]))


def a_sign(rng, v):
    return dict(data=gen_bytes(rng, 0, 48), uid=rng.choice([None, gen_uid(rng)]), cryptographic_parameters=gen_cp_dict(rng))


def a_sigver(rng, v):
    return dict(message=gen_bytes(rng, 0, 48), signature=gen_bytes(rng, 1, 48), uid=rng.choice([None, gen_uid(rng)]),
                cryptographic_parameters=gen_cp_dict(rng))


def a_delete_attribute(rng, v):
    if v < KV.KMIP_2_0:
        return dict(unique_identifier=rng.choice([None, gen_uid(rng)]), attribute_name=rng.choice(ATTR_NAMES),
                    attribute_index=rng.choice([None, 0, 1, 3]))
    if rng.random() < 0.5:
        return dict(unique_identifier=rng.choice([None, gen_uid(rng)]),
                    attribute_reference=cobjects.AttributeReference(vendor_identification='Acme', attribute_name=rng.choice(ATTR_NAMES)))
    return dict(unique_identifier=rng.choice([None, gen_uid(rng)]),
                current_attribute=cobjects.CurrentAttribute(attribute=primitives.Integer(rng.choice([128, 256]), enums.Tags.CRYPTOGRAPHIC_LENGTH)))


def a_set_attribute(rng, v):
    k = rng.randrange(3)
    if k == 0:
        return dict(unique_identifier=rng.choice([None, gen_uid(rng)]), attribute_name='Sensitive', attribute_value=rng.choice([True, False]))
    if k == 1:
        return dict(unique_identifier=rng.choice([None, gen_uid(rng)]), attribute_name='Cryptographic Length', attribute_value=rng.choice([128, 256]))
    return dict(unique_identifier=gen_uid(rng), attribute_name='Operation Policy Name', attribute_value=gen_text(rng, 1, 12))


def a_modify_attribute(rng, v):
    if v < KV.KMIP_2_0:
        return dict(unique_identifier=rng.choice([None, gen_uid(rng)]), attribute=gen_attribute(rng))
    return dict(unique_identifier=rng.choice([None, gen_uid(rng)]),
                new_attribute=cobjects.NewAttribute(attribute=primitives.Integer(rng.choice([128, 256]), enums.Tags.CRYPTOGRAPHIC_LENGTH)))


# --- response payloads of successful answers
def p_create(rng, v):
    return payloads.CreateResponsePayload(object_type=enums.ObjectType.SYMMETRIC_KEY, unique_identifier=gen_uid(rng))


def p_create_key_pair(rng, v):
    return payloads.CreateKeyPairResponsePayload(private_key_unique_identifier=gen_uid(rng), public_key_unique_identifier=gen_uid(rng))


def p_register(rng, v):
    return payloads.RegisterResponsePayload(unique_identifier=gen_uid(rng))


def p_locate(rng, v):
    return payloads.LocateResponsePayload(unique_identifiers=[gen_uid(rng) for _ in range(rng.choice([0, 1, 1, 2, 5]))])


def p_get(rng, v, shape=None):
    if shape == 'split':
        s, ot = gen_split_key(rng)
    elif shape is not None or rng.random() < 0.4:
        s, ot, _ = gen_wrapped_key(rng, shape)
    else:
        s, ot = gen_secret(rng)
    return payloads.GetResponsePayload(object_type=ot, unique_identifier=gen_uid(rng), secret=s)


def p_get_attributes(rng, v):
    return payloads.GetAttributesResponsePayload(unique_identifier=gen_uid(rng),
                                                 attributes=[gen_attribute(rng, v) for _ in range(rng.randint(1 if v >= KV.KMIP_2_0 else 0, 4))] +
                                                 ([kdrv.attr('SENSITIVE', rng.choice([True, False]))] if v >= KV.KMIP_1_4 and rng.random() < 0.6 else []))


def p_get_attribute_list(rng, v):
    return payloads.GetAttributeListResponsePayload(unique_identifier=gen_uid(rng),
                                                    attribute_names=rng.sample(ATTR_NAMES, rng.randint(1, 6)))


def p_activate(rng, v):
    return payloads.ActivateResponsePayload(unique_identifier=_uid_attr(gen_uid(rng)))


def p_revoke(rng, v):
    return payloads.RevokeResponsePayload(unique_identifier=_uid_attr(gen_uid(rng)))


def p_destroy(rng, v):
    return payloads.DestroyResponsePayload(unique_identifier=_uid_attr(gen_uid(rng)))


def p_mac(rng, v):
    return payloads.MACResponsePayload(unique_identifier=_uid_attr(gen_uid(rng)), mac_data=cobjects.MACData(gen_bytes(rng, 0, 64)))


def p_rekey(rng, v):
    return payloads.RekeyResponsePayload(unique_identifier=gen_uid(rng))


def p_derive_key(rng, v):
    return payloads.DeriveKeyResponsePayload(unique_identifier=gen_uid(rng))


def p_check(rng, v):
    return payloads.CheckResponsePayload(unique_identifier=gen_uid(rng), usage_limits_count=rng.choice([None, 5]),
                                         cryptographic_usage_mask=rng.choice([None, 12]), lease_time=rng.choice([None, 30]))


def p_encrypt(rng, v):
    return payloads.EncryptResponsePayload(unique_identifier=gen_uid(rng), data=gen_bytes(rng, 0, 64),
                                           iv_counter_nonce=rng.choice([None, gen_bytes(rng, 1, 16)]))


def p_decrypt(rng, v):
    return payloads.DecryptResponsePayload(unique_identifier=gen_uid(rng), data=gen_bytes(rng, 0, 64))


def p_sigver(rng, v):
    return payloads.SignatureVerifyResponsePayload(unique_identifier=gen_uid(rng), validity_indicator=rng.choice(list(enums.ValidityIndicator)))


def p_sign(rng, v):
    return payloads.SignResponsePayload(unique_identifier=gen_uid(rng), signature_data=gen_bytes(rng, 1, 64))


def p_delete_attribute(rng, v):
    if v < KV.KMIP_2_0:
        return payloads.DeleteAttributeResponsePayload(unique_identifier=gen_uid(rng), attribute=gen_attribute(rng, v))
    return payloads.DeleteAttributeResponsePayload(unique_identifier=gen_uid(rng))


def p_set_attribute(rng, v):
    return payloads.SetAttributeResponsePayload(unique_identifier=gen_uid(rng))


def p_modify_attribute(rng, v):
    if v < KV.KMIP_2_0:
        return payloads.ModifyAttributeResponsePayload(unique_identifier=gen_uid(rng), attribute=gen_attribute(rng))
    return payloads.ModifyAttributeResponsePayload(unique_identifier=gen_uid(rng))


def p_query(rng, v):
    return payloads.QueryResponsePayload(operations=rng.sample([OP.CREATE, OP.GET, OP.DESTROY, OP.LOCATE, OP.QUERY], rng.randint(0, 4)),
                                         object_types=rng.sample([enums.ObjectType.SYMMETRIC_KEY, enums.ObjectType.CERTIFICATE], rng.randint(0, 2)),
                                         vendor_identification=rng.choice([None, gen_text(rng, 1, 12)]))


def p_discover(rng, v):
    return payloads.DiscoverVersionsResponsePayload(
        protocol_versions=[contents.ProtocolVersion(*VER_TUPLE[x]) for x in rng.sample(VERSIONS, rng.randint(0, 4))])


def p_rekey_key_pair(rng, v):
    return payloads.RekeyKeyPairResponsePayload(gen_uid(rng), gen_uid(rng))


# --- what the caller must get from a successful answer (the direct oracle's expectation, no model involved)
def _v(x):
    return x.value if isinstance(x, primitives.Base) and not isinstance(x, primitives.Struct) else x


OPS = [
    Op('create', 'OCreate', OP.CREATE, a_create, p_create, lambda p: p.unique_identifier),
    Op('create_key_pair', 'OCreateKeyPair', OP.CREATE_KEY_PAIR, a_create_key_pair, p_create_key_pair,
       lambda p: (p.public_key_unique_identifier, p.private_key_unique_identifier)),
    Op('register', 'ORegister', OP.REGISTER, a_register, p_register, lambda p: p.unique_identifier),
    Op('locate', 'OLocate', OP.LOCATE, a_locate, p_locate, lambda p: p.unique_identifiers),
    Op('get', 'OGet', OP.GET, a_get, p_get, lambda p: p.secret),
    Op('get_attributes', 'OGetAttributes', OP.GET_ATTRIBUTES, a_get_attributes, p_get_attributes,
       lambda p: (p.unique_identifier, p.attributes)),
    Op('get_attribute_list', 'OGetAttributeList', OP.GET_ATTRIBUTE_LIST, a_uid, p_get_attribute_list,
       lambda p: sorted(p.attribute_names)),
    Op('activate', 'OActivate', OP.ACTIVATE, a_uid, p_activate, lambda p: None),
    Op('revoke', 'ORevoke', OP.REVOKE, a_revoke, p_revoke, lambda p: None),
    Op('destroy', 'ODestroy', OP.DESTROY, a_uid, p_destroy, lambda p: None),
    Op('mac', 'OMac', OP.MAC, a_mac, p_mac, lambda p: (_v(p.unique_identifier), _v(p.mac_data))),
    Op('rekey', 'ORekey', OP.REKEY, a_rekey, p_rekey, lambda p: p.unique_identifier),
    Op('derive_key', 'ODeriveKey', OP.DERIVE_KEY, a_derive_key, p_derive_key, lambda p: p.unique_identifier),
    Op('check', 'OCheck', OP.CHECK, a_check, p_check, lambda p: p.unique_identifier),
    Op('encrypt', 'OEncrypt', OP.ENCRYPT, a_crypt, p_encrypt, lambda p: (p.data, p.iv_counter_nonce)),
    Op('decrypt', 'ODecrypt', OP.DECRYPT, a_crypt, p_decrypt, lambda p: p.data),
    Op('signature_verify', 'OSignatureVerify', OP.SIGNATURE_VERIFY, a_sigver, p_sigver, lambda p: p.validity_indicator),
    Op('sign', 'OSign', OP.SIGN, a_sign, p_sign, lambda p: p.signature_data),
    Op('delete_attribute', 'ODeleteAttribute', OP.DELETE_ATTRIBUTE, a_delete_attribute, p_delete_attribute,
       lambda p: (p.unique_identifier, p.attribute)),
    Op('set_attribute', 'OSetAttribute', OP.SET_ATTRIBUTE, a_set_attribute, p_set_attribute, lambda p: p.unique_identifier,
       min_version=KV.KMIP_2_0),
    Op('modify_attribute', 'OModifyAttribute', OP.MODIFY_ATTRIBUTE, a_modify_attribute, p_modify_attribute,
       lambda p: (p.unique_identifier, p.attribute)),
]
OPS_BY_NAME = {o.name: o for o in OPS}


def call_pie(cl, op, kwargs):
    return getattr(cl, op.name)(**kwargs)


# ---------------------------------------------------------------------- KMIPProxy level
def proxy_observe(fn):
    """Run a KMIPProxy call -> ('result', obj) | ('dict', d) | ('payload', p) | ('fail', st, rs, msg) | ('exc', name, text)."""
    from kmip.services import results as kresults
    try:
        r = fn()
    except cexc.OperationFailure as e:
        return ('fail', e.status, e.reason, e.args[0] if e.args else None)
    except Exception as e:
        return ('exc', type(e).__name__, str(e)[:160])
    if isinstance(r, kresults.OperationResult):
        return ('result', r)
    if isinstance(r, dict):
        return ('dict', r)
    if isinstance(r, payloads.ResponsePayload):
        return ('payload', r)
    return ('exc', 'unexpected-return', repr(r)[:160])


def _pv(x):
    return x.value if x is not None and hasattr(x, 'value') else x


def pout_coq(obs):
    k = obs[0]
    if k == 'result':
        r = obs[1]
        st, rs, m = _pv(r.result_status), _pv(r.result_reason), _pv(r.result_message)
        return ('(PResult {| pr_class := %s; pr_status := %s; pr_reason := %s; pr_msg := %s; pr_fields := %s |})' % (
            R_CLASS[type(r).__name__], cp.z(st.value), opt_coq(rs.value if rs is not None else None, cp.z),
            opt_coq(m.encode('utf-8') if m is not None else None, cp.byts), attrs_coq(obj_attrs(r, R_ATTR))))
    if k == 'dict':
        d = obs[1]
        st, rs, m = d.get('result_status'), d.get('result_reason'), d.get('result_message')
        return '(PDict %s %s %s %s)' % (cp.z(st.value), opt_coq(rs.value if rs is not None else None, cp.z),
                                       opt_coq(m.encode('utf-8') if m is not None else None, cp.byts),
                                       attrs_coq(obj_attrs(d, D_ATTR)))
    if k == 'payload':
        return '(PPayload %s)' % attrs_coq(obj_attrs(obs[1], P_ATTR))
    if k == 'fail':
        return '(PFail %s %s %s)' % (cp.z(obs[1].value), cp.z(obs[2].value),
                                    opt_coq(obs[3].encode('utf-8') if obs[3] is not None else None, cp.byts))
    return 'PExc'


def pout_plain(obs):
    k = obs[0]
    if k == 'result':
        r = obs[1]
        return {'kind': type(r).__name__, 'status': str(_pv(r.result_status)), 'reason': str(_pv(r.result_reason)),
                'message': _pv(r.result_message)}
    if k == 'dict':
        return {'kind': 'dict', 'status': str(obs[1].get('result_status')), 'reason': str(obs[1].get('result_reason')),
                'message': obs[1].get('result_message')}
    if k == 'payload':
        return {'kind': 'payload', 'class': type(obs[1]).__name__}
    if k == 'fail':
        return {'kind': 'OperationFailure', 'status': obs[1].name, 'reason': obs[2].name, 'message': obs[3]}
    return {'kind': 'exception', 'class': obs[1], 'text': obs[2]}


def pout_triple(obs):
    """(status value, reason value | None, message | None) carried by what KMIPProxy handed back, or None."""
    k = obs[0]
    if k == 'result':
        r = obs[1]
        st, rs, m = _pv(r.result_status), _pv(r.result_reason), _pv(r.result_message)
        return (st.value, rs.value if rs is not None else None, m)
    if k == 'dict':
        d = obs[1]
        rs = d.get('result_reason')
        return (d['result_status'].value, rs.value if rs is not None else None, d.get('result_message'))
    if k == 'fail':
        return (obs[1].value, obs[2].value, obs[3])
    return None


def _ta(*attrs):
    return cobjects.TemplateAttribute(attributes=list(attrs))


PROXY_CALLS = {
    'create': lambda px, rng: px.create(enums.ObjectType.SYMMETRIC_KEY, _ta(kdrv.attr('CRYPTOGRAPHIC_ALGORITHM', CA.AES), kdrv.attr('CRYPTOGRAPHIC_LENGTH', 128))),
    'create_key_pair': lambda px, rng: px.create_key_pair(common_template_attribute=cobjects.TemplateAttribute(
        attributes=[kdrv.attr('CRYPTOGRAPHIC_ALGORITHM', CA.RSA), kdrv.attr('CRYPTOGRAPHIC_LENGTH', 2048)], tag=enums.Tags.COMMON_TEMPLATE_ATTRIBUTE)),
    'register': lambda px, rng: px.register(enums.ObjectType.OPAQUE_DATA, _ta(), FACTORY.convert(pobjects.OpaqueObject(b'\x01\x02', enums.OpaqueDataType.NONE))),
    'locate': lambda px, rng: px.locate(maximum_items=3),
    'get': lambda px, rng: px.get(gen_uid(rng)),
    'get_attributes': lambda px, rng: px.get_attributes(gen_uid(rng), ['Name']),
    'get_attribute_list': lambda px, rng: px.get_attribute_list(gen_uid(rng)),
    'activate': lambda px, rng: px.activate(gen_uid(rng)),
    'revoke': lambda px, rng: px.revoke(enums.RevocationReasonCode.KEY_COMPROMISE, gen_uid(rng)),
    'destroy': lambda px, rng: px.destroy(gen_uid(rng)),
    'mac': lambda px, rng: px.mac(b'data', gen_uid(rng)),
    'rekey': lambda px, rng: px.rekey(uuid=gen_uid(rng)),
    'derive_key': lambda px, rng: px.derive_key(enums.ObjectType.SYMMETRIC_KEY, [gen_uid(rng)], enums.DerivationMethod.HASH,
                                                cattrs.DerivationParameters(derivation_data=b'x'), _ta(kdrv.attr('CRYPTOGRAPHIC_LENGTH', 128))),
    'check': lambda px, rng: px.check(gen_uid(rng), 2, [CUM.ENCRYPT], 10),
    'encrypt': lambda px, rng: px.encrypt(b'data', gen_uid(rng)),
    'decrypt': lambda px, rng: px.decrypt(b'data', gen_uid(rng)),
    'signature_verify': lambda px, rng: px.signature_verify(b'm', b's', gen_uid(rng)),
    'sign': lambda px, rng: px.sign(b'data', gen_uid(rng)),
    'delete_attribute': lambda px, rng: px.send_request_payload(OP.DELETE_ATTRIBUTE, payloads.DeleteAttributeRequestPayload(
        unique_identifier=gen_uid(rng), attribute_name='Name', attribute_index=0)),
    'modify_attribute': lambda px, rng: px.send_request_payload(OP.MODIFY_ATTRIBUTE, payloads.ModifyAttributeRequestPayload(
        unique_identifier=gen_uid(rng), attribute=gen_attribute(rng))),
    'set_attribute': lambda px, rng: px.send_request_payload(OP.SET_ATTRIBUTE, payloads.SetAttributeRequestPayload(
        unique_identifier=gen_uid(rng), new_attribute=cobjects.NewAttribute(attribute=primitives.Integer(128, enums.Tags.CRYPTOGRAPHIC_LENGTH)))),
    'query': lambda px, rng: px.query(query_functions=[enums.QueryFunction.QUERY_OPERATIONS, enums.QueryFunction.QUERY_OBJECTS]),
    'discover_versions': lambda px, rng: px.discover_versions(),
    'rekey_key_pair': lambda px, rng: px.rekey_key_pair(private_key_uuid=cattrs.PrivateKeyUniqueIdentifier(gen_uid(rng))),
}
# modify_attribute / delete_attribute through send_request_payload need 1.x shaped payloads; 2.0 shaped ones below
PROXY_CALLS_20 = {
    'delete_attribute': lambda px, rng: px.send_request_payload(OP.DELETE_ATTRIBUTE, payloads.DeleteAttributeRequestPayload(
        unique_identifier=gen_uid(rng), attribute_reference=cobjects.AttributeReference(vendor_identification='Acme', attribute_name='Name'))),
    'modify_attribute': lambda px, rng: px.send_request_payload(OP.MODIFY_ATTRIBUTE, payloads.ModifyAttributeRequestPayload(
        unique_identifier=gen_uid(rng), new_attribute=cobjects.NewAttribute(attribute=primitives.Integer(128, enums.Tags.CRYPTOGRAPHIC_LENGTH)))),
}
PROXY_ONLY = [
    Op('query', 'OQuery', OP.QUERY, None, p_query, None),
    Op('discover_versions', 'ODiscoverVersions', OP.DISCOVER_VERSIONS, None, p_discover, None, min_version=KV.KMIP_1_1),
    Op('rekey_key_pair', 'ORekeyKeyPair', OP.REKEY_KEY_PAIR, None, p_rekey_key_pair, None, min_version=KV.KMIP_1_1),
]


# ---------------------------------------------------------------------- the real server stack
_CERT = None


def client_certificate(common_name='alice'):
    """DER certificate with one CN and the clientAuth extended key usage (what KmipSession looks at)."""
    global _CERT
    if _CERT is None:
        import datetime
        from cryptography import x509
        from cryptography.hazmat.primitives import hashes, serialization
        from cryptography.hazmat.primitives.asymmetric import ec
        from cryptography.x509.oid import NameOID, ExtendedKeyUsageOID
        key = ec.generate_private_key(ec.SECP256R1())
        name = x509.Name([x509.NameAttribute(NameOID.COMMON_NAME, common_name)])
        cert = (x509.CertificateBuilder().subject_name(name).issuer_name(name).public_key(key.public_key())
                .serial_number(1000).not_valid_before(datetime.datetime(2020, 1, 1)).not_valid_after(datetime.datetime(2040, 1, 1))
                .add_extension(x509.ExtendedKeyUsage([ExtendedKeyUsageOID.CLIENT_AUTH]), critical=False)
                .sign(key, hashes.SHA256()))
        _CERT = cert.public_bytes(serialization.Encoding.DER)
    return _CERT


class _Conn:
    def __init__(self, data):
        self.data, self.out = data, []

    def recv(self, n):
        c, self.data = self.data[:n], self.data[n:]
        return c

    def sendall(self, b):
        self.out.append(bytes(b))

    def getpeercert(self, binary_form=False):
        return client_certificate()

    def cipher(self):
        return ('ECDHE-RSA-AES256-GCM-SHA384', 'TLSv1.2', 256)

    def shared_ciphers(self):
        return None


class ServerStack:
    """Responder: a real KmipSession in front of a real KmipEngine; records what the server decoded and answered."""

    def __init__(self, workdir, plan=('whole',)):
        from kmip.services.server import session as session_mod
        self.session_mod = session_mod
        self.eng = kdrv.Engine(workdir=workdir)
        self.plan = plan
        self.decoded = []           # RequestMessage objects that reached KmipEngine.process_request
        self.responses = []         # bytes the session sent
        inner = self.eng.engine.process_request

        def recording(request, credential=None):
            self.decoded.append(request)
            return inner(request, credential)
        self.eng.engine.process_request = recording

    def __call__(self, data):
        conn = _Conn(data)
        s = self.session_mod.KmipSession(self.eng.engine, conn, ('127.0.0.1', 5696), name='c19', enable_tls_client_auth=True)
        s._logger.setLevel(logging.CRITICAL + 1)
        from kmip.services.server import engine as engine_mod
        engine_mod.time = self.eng.clock
        s._handle_message_loop()
        out = b''.join(conn.out)
        self.responses.append(out)
        return chunk(out, self.plan)

    def close(self):
        self.eng.close()


# ---------------------------------------------------------------------- request check: decoded payload vs arguments
def _val(x):
    """Plain value of a primitive / enum-carrying object / plain value."""
    if x is None:
        return None
    if isinstance(x, cattrs.Name):
        return x.name_value.value
    if isinstance(x, primitives.Base) and not isinstance(x, primitives.Struct) and hasattr(x, 'value'):
        return _val(x.value)
    if isinstance(x, (bytes, bytearray)):
        return bytes(x)
    return x


def attr_pairs(template):
    """[(attribute name, plain value)] of a TemplateAttribute (as the server decoded it), sorted."""
    if template is None:
        return []
    out = []
    for a in template.attributes:
        out.append((a.attribute_name.value, repr(_val(a.attribute_value))))
    return sorted(out)


def mask_of(ms):
    m = 0
    for x in ms:
        m |= x.value
    return m


def cp_pairs(cp_obj):
    if cp_obj is None:
        return None
    names = ['block_cipher_mode', 'padding_method', 'hashing_algorithm', 'key_role_type', 'digital_signature_algorithm',
             'cryptographic_algorithm', 'random_iv', 'iv_length', 'tag_length', 'fixed_field_length',
             'invocation_field_length', 'counter_length', 'initial_counter_value']
    return {n: getattr(cp_obj, n) for n in names if getattr(cp_obj, n) is not None}


def cp_expected(d):
    if d is None:
        return None
    return {k: v for k, v in d.items() if v is not None}


def _uidv(x):
    return _val(x)


def request_expectations(op, kw, p, version):
    """[(what, expected, decoded)] comparing the arguments given to the Pie method with the request payload the
    SERVER decoded.  Written from the documented meaning of each argument, not from the client code."""
    n = op.name
    E = []
    v2 = version >= KV.KMIP_2_0

    def add(what, exp, got):
        E.append((what, exp, got))
    if n == 'create':
        add('object_type', enums.ObjectType.SYMMETRIC_KEY, p.object_type)
        exp = [('Cryptographic Algorithm', repr(kw['algorithm'])), ('Cryptographic Length', repr(kw['length'])),
               ('Cryptographic Usage Mask', repr(mask_of([CUM.ENCRYPT, CUM.DECRYPT] + (kw['cryptographic_usage_mask'] or []))))]
        if kw['operation_policy_name']:
            exp.append(('Operation Policy Name', repr(kw['operation_policy_name'])))
        if kw['name']:
            exp.append(('Name', repr(kw['name'])))
        add('attributes', sorted(exp), attr_pairs(p.template_attribute))
    elif n == 'create_key_pair':
        exp = [('Cryptographic Algorithm', repr(kw['algorithm'])), ('Cryptographic Length', repr(kw['length']))]
        if kw['operation_policy_name']:
            exp.append(('Operation Policy Name', repr(kw['operation_policy_name'])))
        add('common attributes', sorted(exp), attr_pairs(p.common_template_attribute))
        for side in ('public', 'private'):
            exp = []
            if kw[side + '_name']:
                exp.append(('Name', repr(kw[side + '_name'])))
            if kw[side + '_usage_mask']:
                exp.append(('Cryptographic Usage Mask', repr(mask_of(kw[side + '_usage_mask']))))
            add(side + ' attributes', sorted(exp), attr_pairs(getattr(p, side + '_key_template_attribute')))
    elif n == 'register':
        o = kw['managed_object']
        add('object_type', o.object_type, p.object_type)
        add('object', to_val(o), to_val(p.managed_object))
        exp = [('Name', repr(nm)) for nm in o.names]
        if getattr(o, 'cryptographic_usage_masks', None) is not None and hasattr(o, 'cryptographic_usage_masks'):
            exp.append(('Cryptographic Usage Mask', repr(mask_of(o.cryptographic_usage_masks))))
        if getattr(o, 'operation_policy_name', None) is not None:
            exp.append(('Operation Policy Name', repr(o.operation_policy_name)))
        add('attributes', sorted(exp), attr_pairs(p.template_attribute))
    elif n == 'locate':
        add('maximum_items', kw['maximum_items'], p.maximum_items)
        add('offset_items', kw['offset_items'], p.offset_items)
        add('storage_status_mask', kw['storage_status_mask'], p.storage_status_mask)
        add('object_group_member', kw['object_group_member'], p.object_group_member)
        add('attributes', sorted((a.attribute_name.value, repr(_val(a.attribute_value))) for a in (kw['attributes'] or [])),
            sorted((a.attribute_name.value, repr(_val(a.attribute_value))) for a in (p.attributes or [])))
    elif n == 'get':
        add('unique_identifier', kw['uid'], p.unique_identifier)
        spec = kw['key_wrapping_specification']
        got = p.key_wrapping_specification
        add('wrapping spec present', spec is not None, got is not None)
        if spec is not None and got is not None:
            add('wrapping_method', spec.get('wrapping_method'), got.wrapping_method)
            add('encoding_option', spec.get('encoding_option'), got.encoding_option)
            add('attribute_names', spec.get('attribute_names'), got.attribute_names)
            eki = spec.get('encryption_key_information')
            add('encryption key id', eki['unique_identifier'] if eki else None,
                got.encryption_key_information.unique_identifier if got.encryption_key_information else None)
            add('encryption key parameters', cp_expected(eki.get('cryptographic_parameters')) if eki else None,
                cp_pairs(got.encryption_key_information.cryptographic_parameters) if got.encryption_key_information else None)
            mki = spec.get('mac_signature_key_information')
            add('MAC/signature key id', mki['unique_identifier'] if mki else None,
                got.mac_signature_key_information.unique_identifier if got.mac_signature_key_information else None)
            add('MAC/signature key parameters', cp_expected(mki.get('cryptographic_parameters')) if mki else None,
                cp_pairs(got.mac_signature_key_information.cryptographic_parameters) if got.mac_signature_key_information else None)
    elif n == 'get_attributes':
        add('unique_identifier', kw['uid'], p.unique_identifier)
        add('attribute_names', sorted(kw['attribute_names'] or []), sorted(p.attribute_names or []))
    elif n in ('get_attribute_list',):
        add('unique_identifier', kw['uid'], p.unique_identifier)
    elif n in ('activate', 'destroy'):
        add('unique_identifier', kw['uid'], _uidv(p.unique_identifier))
    elif n == 'revoke':
        add('unique_identifier', kw['uid'], _uidv(p.unique_identifier))
        add('revocation code', kw['revocation_reason'], _val(p.revocation_reason.revocation_code))
        add('revocation message', kw['revocation_message'], _val(p.revocation_reason.revocation_message))
        add('compromise date', kw['compromise_occurrence_date'], _val(p.compromise_occurrence_date))
    elif n == 'mac':
        add('unique_identifier', kw['uid'], _uidv(p.unique_identifier))
        add('data', kw['data'], _val(p.data))
        add('algorithm', kw['algorithm'], p.cryptographic_parameters.cryptographic_algorithm if p.cryptographic_parameters else None)
    elif n == 'rekey':
        add('unique_identifier', kw['uid'], p.unique_identifier)
        add('offset', kw['offset'], p.offset)
        names = {'activation_date': 'Activation Date', 'process_start_date': 'Process Start Date',
                 'protect_stop_date': 'Protect Stop Date', 'deactivation_date': 'Deactivation Date'}
        add('dates', sorted((names[k], repr(kw[k])) for k in names if kw.get(k)), attr_pairs(p.template_attribute))
    elif n == 'derive_key':
        add('object_type', kw['object_type'], p.object_type)
        add('unique_identifiers', kw['unique_identifiers'], p.unique_identifiers)
        add('derivation_method', kw['derivation_method'], p.derivation_method)
        dp, g = kw['derivation_parameters'], p.derivation_parameters
        add('derivation_data', dp.get('derivation_data'), g.derivation_data)
        add('salt', dp.get('salt'), g.salt)
        add('iteration_count', dp.get('iteration_count'), g.iteration_count)
        add('initialization_vector', dp.get('initialization_vector'), g.initialization_vector)
        add('derivation cryptographic parameters', cp_expected(dp.get('cryptographic_parameters')), cp_pairs(g.cryptographic_parameters))
        exp = []
        if kw.get('cryptographic_length'):
            exp.append(('Cryptographic Length', repr(kw['cryptographic_length'])))
        if kw.get('cryptographic_algorithm'):
            exp.append(('Cryptographic Algorithm', repr(kw['cryptographic_algorithm'])))
        if kw.get('cryptographic_usage_mask'):
            exp.append(('Cryptographic Usage Mask', repr(mask_of(kw['cryptographic_usage_mask']))))
        add('attributes', sorted(exp), attr_pairs(p.template_attribute))
    elif n == 'check':
        add('unique_identifier', kw['uid'], p.unique_identifier)
        add('usage_limits_count', kw['usage_limits_count'], p.usage_limits_count)
        add('cryptographic_usage_mask', mask_of(kw['cryptographic_usage_mask']), p.cryptographic_usage_mask)
        add('lease_time', kw['lease_time'], p.lease_time)
    elif n in ('encrypt', 'decrypt'):
        add('unique_identifier', kw['uid'], p.unique_identifier)
        add('data', kw['data'], p.data)
        add('iv_counter_nonce', kw['iv_counter_nonce'], p.iv_counter_nonce)
        add('cryptographic_parameters', cp_expected(kw['cryptographic_parameters']), cp_pairs(p.cryptographic_parameters))
    elif n == 'sign':
        add('unique_identifier', kw['uid'], p.unique_identifier)
        add('data', kw['data'], p.data)
        add('cryptographic_parameters', cp_expected(kw['cryptographic_parameters']), cp_pairs(p.cryptographic_parameters))
    elif n == 'signature_verify':
        add('unique_identifier', kw['uid'], p.unique_identifier)
        add('data', kw['message'], p.data)
        add('signature_data', kw['signature'], p.signature_data)
        add('cryptographic_parameters', cp_expected(kw['cryptographic_parameters']), cp_pairs(p.cryptographic_parameters))
    elif n == 'delete_attribute':
        add('unique_identifier', kw['unique_identifier'], p.unique_identifier)
        if not v2:
            add('attribute_name', kw['attribute_name'], p.attribute_name)
            add('attribute_index', kw['attribute_index'], p.attribute_index)
        else:
            add('attribute_reference', to_val(kw.get('attribute_reference')), to_val(p.attribute_reference))
            add('current_attribute', to_val(kw.get('current_attribute')), to_val(p.current_attribute))
    elif n == 'set_attribute':
        add('unique_identifier', kw['unique_identifier'], p.unique_identifier)
        a = p.new_attribute.attribute if p.new_attribute is not None else None
        add('attribute tag', enums.convert_attribute_name_to_tag(kw['attribute_name']), a.tag if a is not None else None)
        add('attribute value', kw['attribute_value'], _val(a))
    elif n == 'modify_attribute':
        add('unique_identifier', kw['unique_identifier'], p.unique_identifier)
        if not v2:
            add('attribute', to_val(kw['attribute']), to_val(p.attribute))
        else:
            add('new_attribute', to_val(kw['new_attribute']), to_val(p.new_attribute))
            add('current_attribute', to_val(kw.get('current_attribute')), to_val(p.current_attribute))
    else:
        raise HarnessError('no request expectation for ' + n)
    return E


# ---------------------------------------------------------------------- optional header / batch item fields (own TTLV writer)
def ttlv(tag, ty, value):
    """One TTLV item written by the specification (9.1), independent of PyKMIP: value = bytes (already typed)."""
    return int(tag).to_bytes(3, 'big') + bytes([ty]) + len(value).to_bytes(4, 'big') + value + b'\x00' * ((-len(value)) % 8)


def t_struct(tag, *items):
    return ttlv(tag.value, 1, b''.join(items))


def t_text(tag, s):
    return ttlv(tag.value, 7, s.encode('utf-8'))


def t_bytes(tag, b):
    return ttlv(tag.value, 8, bytes(b))


def t_enum(tag, v):
    return ttlv(tag.value, 5, int(v).to_bytes(4, 'big'))


def t_bool(tag, b):
    return ttlv(tag.value, 6, (1 if b else 0).to_bytes(8, 'big'))


def t_date(tag, v):
    return ttlv(tag.value, 9, int(v).to_bytes(8, 'big', signed=True))


def _items(bs, off, end):
    """[(offset, tag, total length incl. padding)] of the items between off and end."""
    out = []
    while off + 8 <= end:
        ln = int.from_bytes(bs[off + 4:off + 8], 'big')
        tot = 8 + ln + (-ln) % 8
        out.append((off, int.from_bytes(bs[off:off + 3], 'big'), tot))
        off += tot
    return out


def _set_len(bs, off, delta):
    ln = int.from_bytes(bs[off + 4:off + 8], 'big') + delta
    return bs[:off + 4] + ln.to_bytes(4, 'big') + bs[off + 8:]


T = enums.Tags
HEADER_ORDER = [T.PROTOCOL_VERSION, T.TIME_STAMP, T.NONCE, T.SERVER_HASHED_PASSWORD, T.ATTESTATION_TYPE,
                T.CLIENT_CORRELATION_VALUE, T.SERVER_CORRELATION_VALUE, T.BATCH_COUNT]      # KMIP 1.2 - 2.0 tables


def with_header_fields(frame, fields, time_stamp=None):
    """The same response with optional Response Header fields added: fields = {Tags member: [encoded items]}, placed in
    the order of the specification's Response Header table; all enclosing lengths are adjusted."""
    hdr_off = 8
    hl = int.from_bytes(frame[hdr_off + 4:hdr_off + 8], 'big')
    present = _items(frame, hdr_off + 8, hdr_off + 8 + hl)
    pieces = {}
    for off, tag, tot in present:
        pieces.setdefault(tag, []).append(frame[off:off + tot])
    if time_stamp is not None:
        pieces[T.TIME_STAMP.value] = [t_date(T.TIME_STAMP, time_stamp)]
    for tag, enc in fields.items():
        pieces.setdefault(tag.value, []).extend(enc)
    body = b''.join(b''.join(pieces.get(t.value, [])) for t in HEADER_ORDER)
    new_hdr = ttlv(T.RESPONSE_HEADER.value, 1, body)
    rest = frame[hdr_off + 8 + hl:]
    return ttlv(T.RESPONSE_MESSAGE.value, 1, new_hdr + rest)


def with_batch_item_fields(frame, before_status=b'', after_payload=b'', after_message=b''):
    """The same one-item response with optional Batch Item fields added (Unique Batch Item ID before the status,
    Asynchronous Correlation Value after the message/reason/status, Message Extension last)."""
    hdr_off = 8
    hl = int.from_bytes(frame[hdr_off + 4:hdr_off + 8], 'big')
    bi_off = hdr_off + 8 + hl
    bl = int.from_bytes(frame[bi_off + 4:bi_off + 8], 'big')
    items = _items(frame, bi_off + 8, bi_off + 8 + bl)
    out = b''
    placed_async = False
    for off, tag, tot in items:
        if tag == T.RESULT_STATUS.value:
            out += before_status
        if tag == T.RESPONSE_PAYLOAD.value and not placed_async:
            out += after_message
            placed_async = True
        out += frame[off:off + tot]
    if not placed_async:
        out += after_message
    out += after_payload
    new_bi = ttlv(T.BATCH_ITEM.value, 1, out)
    return ttlv(T.RESPONSE_MESSAGE.value, 1, frame[8:bi_off] + new_bi + frame[bi_off + 8 + bl:])


# ---------------------------------------------------------------------- argument menus: every optional argument
def full_cp_dict(rng):
    """All 13 cryptographic parameters present (truthy values)."""
    return {'block_cipher_mode': enums.BlockCipherMode.CBC, 'padding_method': enums.PaddingMethod.PKCS5,
            'hashing_algorithm': enums.HashingAlgorithm.SHA_256, 'key_role_type': enums.KeyRoleType.KEK,
            'digital_signature_algorithm': enums.DigitalSignatureAlgorithm.SHA256_WITH_RSA_ENCRYPTION,
            'cryptographic_algorithm': CA.AES, 'random_iv': True, 'iv_length': 96, 'tag_length': 16, 'fixed_field_length': 32,
            'invocation_field_length': 64, 'counter_length': 32, 'initial_counter_value': 1}


def arg_menu(op, rng, v):
    """(required keyword arguments, optional keyword arguments with a value for EVERY optional argument) of a Pie method."""
    n = op.name
    v2 = v >= KV.KMIP_2_0
    uid = gen_uid(rng)
    if n == 'create':
        return (dict(algorithm=CA.AES, length=256),
                dict(operation_policy_name='default', name=gen_text(rng, 1, 12), cryptographic_usage_mask=[CUM.WRAP_KEY, CUM.MAC_GENERATE]))
    if n == 'create_key_pair':
        return (dict(algorithm=CA.RSA, length=1024),
                dict(operation_policy_name='default', public_name='pub' + gen_text(rng, 1, 6), public_usage_mask=[CUM.VERIFY],
                     private_name='prv' + gen_text(rng, 1, 6), private_usage_mask=[CUM.SIGN]))
    if n == 'register':
        return dict(managed_object=gen_pie_object(rng)), {}
    if n == 'locate':
        return {}, dict(maximum_items=5, offset_items=2, storage_status_mask=3,
                        object_group_member=enums.ObjectGroupMember.GROUP_MEMBER_DEFAULT,
                        attributes=[gen_attribute(rng), kdrv.attr('OBJECT_TYPE', enums.ObjectType.SYMMETRIC_KEY)])
    if n == 'get':
        spec = {'wrapping_method': enums.WrappingMethod.ENCRYPT_THEN_MAC_SIGN,
                'encryption_key_information': {'unique_identifier': 'e' + uid, 'cryptographic_parameters': {'block_cipher_mode': enums.BlockCipherMode.NIST_KEY_WRAP}},
                'mac_signature_key_information': {'unique_identifier': 'm' + uid, 'cryptographic_parameters': {'hashing_algorithm': enums.HashingAlgorithm.SHA_512}},
                'attribute_names': ['Name', 'Cryptographic Length'], 'encoding_option': enums.EncodingOption.TTLV_ENCODING}
        return {}, dict(uid=uid, key_wrapping_specification=spec)
    if n == 'get_attributes':
        return {}, dict(uid=uid, attribute_names=['Name', 'State', 'Object Type'])
    if n in ('get_attribute_list', 'activate', 'destroy'):
        return {}, dict(uid=uid)
    if n == 'revoke':
        return (dict(revocation_reason=enums.RevocationReasonCode.KEY_COMPROMISE),
                dict(uid=uid, revocation_message=gen_text(rng, 1, 20), compromise_occurrence_date=1500000000 + rng.randrange(10 ** 6)))
    if n == 'mac':
        return dict(data=gen_bytes(rng, 1, 20), uid=uid), dict(algorithm=CA.HMAC_SHA256)
    if n == 'rekey':
        return {}, dict(uid=uid, offset=3600, activation_date=1600000000, process_start_date=1600000100,
                        protect_stop_date=1700000000, deactivation_date=1800000000)
    if n == 'derive_key':
        return (dict(object_type=enums.ObjectType.SYMMETRIC_KEY, unique_identifiers=[uid, 'k' + uid],
                     derivation_method=enums.DerivationMethod.PBKDF2,
                     derivation_parameters={'cryptographic_parameters': full_cp_dict(rng), 'initialization_vector': gen_bytes(rng, 8, 16),
                                            'derivation_data': gen_bytes(rng, 1, 16), 'salt': gen_bytes(rng, 4, 8), 'iteration_count': 1000}),
                dict(cryptographic_length=256, cryptographic_algorithm=CA.AES, cryptographic_usage_mask=[CUM.ENCRYPT, CUM.DECRYPT]))
    if n == 'check':
        return dict(cryptographic_usage_mask=[CUM.ENCRYPT]), dict(uid=uid, usage_limits_count=10, lease_time=60)
    if n in ('encrypt', 'decrypt'):
        return dict(data=gen_bytes(rng, 1, 32)), dict(uid=uid, cryptographic_parameters=full_cp_dict(rng), iv_counter_nonce=gen_bytes(rng, 12, 16))
    if n == 'sign':
        return dict(data=gen_bytes(rng, 1, 32)), dict(uid=uid, cryptographic_parameters=full_cp_dict(rng))
    if n == 'signature_verify':
        return dict(message=gen_bytes(rng, 1, 32), signature=gen_bytes(rng, 8, 32)), dict(uid=uid, cryptographic_parameters=full_cp_dict(rng))
    if n == 'delete_attribute':
        if not v2:
            return dict(attribute_name='Name'), dict(unique_identifier=uid, attribute_index=2)
        return (dict(attribute_reference=cobjects.AttributeReference(vendor_identification='Acme', attribute_name='Name')),
                dict(unique_identifier=uid))
    if n == 'set_attribute':
        return dict(attribute_name='Cryptographic Length', attribute_value=256), dict(unique_identifier=uid)
    if n == 'modify_attribute':
        if not v2:
            return dict(attribute=kdrv.attr('NAME', kdrv.name_value(gen_text(rng, 1, 8)), 1)), dict(unique_identifier=uid)
        return (dict(new_attribute=cobjects.NewAttribute(attribute=primitives.Integer(256, enums.Tags.CRYPTOGRAPHIC_LENGTH))),
                dict(unique_identifier=uid,
                     current_attribute=cobjects.CurrentAttribute(attribute=primitives.Integer(128, enums.Tags.CRYPTOGRAPHIC_LENGTH))))
    raise HarnessError('no argument menu for ' + n)


# names request_expectations indexes directly (absent optional = None)
ALL_KEYS = {
    'create': ['operation_policy_name', 'name', 'cryptographic_usage_mask'],
    'create_key_pair': ['operation_policy_name', 'public_name', 'public_usage_mask', 'private_name', 'private_usage_mask'],
    'locate': ['maximum_items', 'offset_items', 'storage_status_mask', 'object_group_member', 'attributes'],
    'get': ['uid', 'key_wrapping_specification'], 'get_attributes': ['uid', 'attribute_names'], 'get_attribute_list': ['uid'],
    'activate': ['uid'], 'destroy': ['uid'], 'revoke': ['uid', 'revocation_message', 'compromise_occurrence_date'],
    'mac': ['algorithm'], 'rekey': ['uid', 'offset'], 'check': ['uid', 'usage_limits_count', 'lease_time'],
    'encrypt': ['uid', 'cryptographic_parameters', 'iv_counter_nonce'], 'decrypt': ['uid', 'cryptographic_parameters', 'iv_counter_nonce'],
    'sign': ['uid', 'cryptographic_parameters'], 'signature_verify': ['uid', 'cryptographic_parameters'],
    'delete_attribute': ['unique_identifier', 'attribute_name', 'attribute_index'], 'set_attribute': ['unique_identifier'],
    'modify_attribute': ['unique_identifier'],
}


def menus_for(op, rng, v):
    """[(label, kwargs)]: no optional argument, every optional argument, and each optional argument alone."""
    out = []
    req, opt = arg_menu(op, rng, v)
    base = {k: None for k in ALL_KEYS.get(op.name, [])}
    names = list(opt)
    choices = [('none', [])] + ([('all', names)] if names else []) + ([('only-' + k, [k]) for k in names] if len(names) > 1 else [])
    for label, chosen in choices:
        kw = dict(base)
        kw.update(req)
        kw.update({k: opt[k] for k in chosen})
        out.append((label, kw))
    return out


# ---------------------------------------------------------------------- falsy-but-present values in successful answers
def _uidattr(s):
    return cattrs.UniqueIdentifier(s)


FALSY_PAYLOADS = {
    'create': [('uid-empty', lambda rng, v: payloads.CreateResponsePayload(object_type=enums.ObjectType.SYMMETRIC_KEY, unique_identifier=''))],
    'register': [('uid-empty', lambda rng, v: payloads.RegisterResponsePayload(unique_identifier=''))],
    'create_key_pair': [('uids-empty', lambda rng, v: payloads.CreateKeyPairResponsePayload(private_key_unique_identifier='', public_key_unique_identifier=''))],
    'locate': [('no-ids', lambda rng, v: payloads.LocateResponsePayload(unique_identifiers=[])),
               ('empty-id', lambda rng, v: payloads.LocateResponsePayload(unique_identifiers=['', gen_uid(rng)]))],
    'get_attributes': [('no-attributes', lambda rng, v: payloads.GetAttributesResponsePayload(unique_identifier=gen_uid(rng), attributes=[]) if v < KV.KMIP_2_0 else None),
                       ('uid-empty', lambda rng, v: payloads.GetAttributesResponsePayload(unique_identifier='', attributes=[gen_attribute(rng, v)]))],
    'mac': [('mac-empty', lambda rng, v: payloads.MACResponsePayload(unique_identifier=_uidattr(gen_uid(rng)), mac_data=cobjects.MACData(b'')))],
    'rekey': [('uid-empty', lambda rng, v: payloads.RekeyResponsePayload(unique_identifier=''))],
    'derive_key': [('uid-empty', lambda rng, v: payloads.DeriveKeyResponsePayload(unique_identifier=''))],
    'check': [('count-0', lambda rng, v: payloads.CheckResponsePayload(unique_identifier=gen_uid(rng), usage_limits_count=0)),
              ('mask-0', lambda rng, v: payloads.CheckResponsePayload(unique_identifier=gen_uid(rng), cryptographic_usage_mask=0)),
              ('lease-0', lambda rng, v: payloads.CheckResponsePayload(unique_identifier=gen_uid(rng), lease_time=0)),
              ('all-0', lambda rng, v: payloads.CheckResponsePayload(unique_identifier='', usage_limits_count=0, cryptographic_usage_mask=0, lease_time=0))],
    'encrypt': [('data-empty', lambda rng, v: payloads.EncryptResponsePayload(unique_identifier=gen_uid(rng), data=b'', iv_counter_nonce=gen_bytes(rng, 8, 16))),
                ('iv-empty', lambda rng, v: payloads.EncryptResponsePayload(unique_identifier=gen_uid(rng), data=gen_bytes(rng, 1, 16), iv_counter_nonce=b'')),
                ('both-empty', lambda rng, v: payloads.EncryptResponsePayload(unique_identifier='', data=b'', iv_counter_nonce=b''))],
    'decrypt': [('data-empty', lambda rng, v: payloads.DecryptResponsePayload(unique_identifier=gen_uid(rng), data=b''))],
    'sign': [('signature-empty', lambda rng, v: payloads.SignResponsePayload(unique_identifier=gen_uid(rng), signature_data=b''))],
    'signature_verify': [('uid-empty', lambda rng, v: payloads.SignatureVerifyResponsePayload(unique_identifier='', validity_indicator=enums.ValidityIndicator.INVALID))],
    'delete_attribute': [('uid-empty', lambda rng, v: payloads.DeleteAttributeResponsePayload(unique_identifier='', attribute=gen_attribute(rng, v)) if v < KV.KMIP_2_0
                          else payloads.DeleteAttributeResponsePayload(unique_identifier=''))],
    'set_attribute': [('uid-empty', lambda rng, v: payloads.SetAttributeResponsePayload(unique_identifier=''))],
    'modify_attribute': [('uid-empty', lambda rng, v: payloads.ModifyAttributeResponsePayload(unique_identifier='', attribute=gen_attribute(rng, v)) if v < KV.KMIP_2_0
                          else payloads.ModifyAttributeResponsePayload(unique_identifier=''))],
}


def _mask_members(m):
    return None if m is None else [e for e in enums.CryptographicUsageMask if m & e.value]


# KMIPProxy: which payload field each field of the result object / dictionary must carry (the direct oracle's table,
# written from the documented result fields; (result name, payload attribute, transformation))
PROXY_EXPECT = {
    'create': [('uuid', 'unique_identifier', None), ('object_type', 'object_type', None)],
    'register': [('uuid', 'unique_identifier', None)],
    'create_key_pair': [('private_key_uuid', 'private_key_unique_identifier', None), ('public_key_uuid', 'public_key_unique_identifier', None)],
    'rekey_key_pair': [('private_key_uuid', 'private_key_unique_identifier', None), ('public_key_uuid', 'public_key_unique_identifier', None)],
    'locate': [('uuids', 'unique_identifiers', None)],
    'get': [('uuid', 'unique_identifier', None), ('object_type', 'object_type', None), ('secret', 'secret', None)],
    'get_attributes': [('uuid', 'unique_identifier', None), ('attributes', 'attributes', None)],
    'get_attribute_list': [('uid', 'unique_identifier', None), ('names', 'attribute_names', None)],
    'activate': [('uuid', 'unique_identifier', None)], 'destroy': [('uuid', 'unique_identifier', None)],
    'revoke': [('unique_identifier', 'unique_identifier', None)],
    'mac': [('uuid', 'unique_identifier', None), ('mac_data', 'mac_data', None)],
    'discover_versions': [('protocol_versions', 'protocol_versions', None)],
    'rekey': [('unique_identifier', 'unique_identifier', None)], 'derive_key': [('unique_identifier', 'unique_identifier', None)],
    'check': [('unique_identifier', 'unique_identifier', None), ('usage_limits_count', 'usage_limits_count', None),
              ('cryptographic_usage_mask', 'cryptographic_usage_mask', _mask_members), ('lease_time', 'lease_time', None)],
    'encrypt': [('unique_identifier', 'unique_identifier', None), ('data', 'data', None), ('iv_counter_nonce', 'iv_counter_nonce', None)],
    'decrypt': [('unique_identifier', 'unique_identifier', None), ('data', 'data', None)],
    'signature_verify': [('unique_identifier', 'unique_identifier', None), ('validity_indicator', 'validity_indicator', None)],
    'sign': [('unique_identifier', 'unique_identifier', None), ('signature', 'signature_data', None)],
    'delete_attribute': [('unique_identifier', 'unique_identifier', None), ('attribute', 'attribute', None)],
    'modify_attribute': [('unique_identifier', 'unique_identifier', None), ('attribute', 'attribute', None)],
    'set_attribute': [('unique_identifier', 'unique_identifier', None)],
}


def proxy_data_mismatches(opname, obs, payload):
    """[(field, expected, got)]: fields of what KMIPProxy handed back that differ from the payload of the successful answer."""
    out = []
    k = obs[0]
    if k not in ('result', 'dict', 'payload'):
        return out
    r = obs[1]
    for rname, pname, tr in PROXY_EXPECT.get(opname, []):
        exp = getattr(payload, pname, None)
        if tr is not None:
            exp = tr(exp)
        if k == 'dict':
            got = r.get(rname)
        elif k == 'payload':
            got = getattr(r, pname, None)
        else:
            got = getattr(r, rname, None)
        if to_val(exp) != to_val(got):
            out.append((rname, repr(to_val(exp))[:160], repr(to_val(got))[:160]))
    return out
