"""C06 - cryptographic operations compute what they claim.

  T   translate/gen_cryptotables.py -> gen/CryptoTables.v (engine tables by reflection + library probe)
  P   props/C06.v (plans, paddings, constructions; abstract primitives as Section hypotheses)
  K   the finite parameter grid: the real CryptographyEngine methods (directly and through the server
      handlers) are run with the `cryptography` constructors wrapped from outside, so that the primitive
      call the engine makes (cipher class, key, mode, IV, tag, AAD, padded data, hash, KDF arguments ...)
      is observed; Coq compares outcome class + observed call with the model's plan (Crypto/Cases.v).
  O   direct oracle (testing, labelled so): bytes equal to harness/cryptoref.py, Decrypt(Encrypt m) = m,
      GCM tamper rejection, SignatureVerify valid exactly for Sign's signatures, exact lengths, freshness.
"""
import itertools
import json
import logging
import os
import warnings

import cryptoref as R
import gen_cryptotables
from vlib import coqprint as cp

warnings.simplefilter('ignore')
LEVEL = 'proof (partial)'

HEADER = ('From PK Require Import Base.Bytes Crypto.Padding Crypto.Plan Crypto.Cases.\n'
          'From PKGen Require Import CryptoTables.\n'
          'From Coq Require Import List ZArith.\nImport ListNotations.\nOpen Scope Z_scope.\n')

from kmip.core import enums, exceptions as kexc  # noqa: E402
from kmip.services.server.crypto import engine as ce  # noqa: E402

A = enums.CryptographicAlgorithm
M = enums.BlockCipherMode
P = enums.PaddingMethod
H = enums.HashingAlgorithm
D = enums.DerivationMethod
W = enums.WrappingMethod
DSA = enums.DigitalSignatureAlgorithm


# ============================================================================ recorder (attached from outside)
class Proxy:
    def __init__(self, real, **over):
        self.__dict__['_real'] = real
        self.__dict__['_over'] = over

    def __getattr__(self, n):
        o = self.__dict__['_over']
        return o[n] if n in o else getattr(self.__dict__['_real'], n)


REC = []          # primitive calls of the current engine call
_ORIG = {}


def _hname(alg):
    return R_HASH_ID.get(getattr(alg, 'name', None))


R_HASH_ID = {'md5': 1, 'sha1': 2, 'sha224': 3, 'sha256': 4, 'sha384': 5, 'sha512': 6}


class RecCtx:
    def __init__(self, ctx, rec):
        self._c, self._r = ctx, rec

    def authenticate_additional_data(self, d):
        self._r['aad'] = bytes(d)
        return self._c.authenticate_additional_data(d)

    def update(self, d):
        self._r['data'] += bytes(d)
        o = self._c.update(d)
        self._r['out'] += o
        return o

    def finalize(self):
        o = self._c.finalize()
        self._r['out'] += o
        self._r['fin'] = True
        return o

    @property
    def tag(self):
        return self._c.tag


class RecCipher:
    def __init__(self, algorithm, mode, backend=None):
        r = {'k': 'cipher', 'alg': type(algorithm).__name__, 'key': bytes(algorithm.key),
             'mode': type(mode).__name__ if mode is not None else None, 'iv': None, 'tag': None, 'mintag': None,
             'aad': None, 'data': b'', 'out': b'', 'fin': False}
        for a in ('initialization_vector', 'nonce'):
            if hasattr(mode, a):
                r['iv'] = bytes(getattr(mode, a))
        if type(mode).__name__ == 'GCM':
            r['tag'] = None if mode.tag is None else bytes(mode.tag)
            r['mintag'] = mode._min_tag_length
        REC.append(r)
        self._c = _ORIG['ciphers'].Cipher(algorithm, mode)

    def encryptor(self):
        return RecCtx(self._c.encryptor(), REC[-1])

    def decryptor(self):
        return RecCtx(self._c.decryptor(), REC[-1])


class RecMac:
    def __init__(self, kind, real, rec):
        self._real, self._r = real, rec

    def update(self, d):
        self._r['data'] += bytes(d)
        return self._real.update(d)

    def finalize(self):
        return self._real.finalize()


def rec_hmac(key, algorithm, backend=None):
    r = {'k': 'hmac', 'h': _hname(algorithm), 'key': bytes(key), 'data': b''}
    REC.append(r)
    return RecMac('hmac', _ORIG['hmac'].HMAC(key, algorithm), r)


def rec_cmac(algorithm, backend=None):
    r = {'k': 'cmac', 'alg': type(algorithm).__name__, 'key': bytes(algorithm.key), 'data': b''}
    REC.append(r)
    return RecMac('cmac', _ORIG['cmac'].CMAC(algorithm), r)


def rec_hash(algorithm, backend=None):
    r = {'k': 'hash', 'h': _hname(algorithm), 'data': b''}
    REC.append(r)
    return RecMac('hash', _ORIG['hashes'].Hash(algorithm), r)


class RecKdf:
    def __init__(self, real, rec, field):
        self._real, self._r, self._f = real, rec, field

    def derive(self, km):
        self._r[self._f] = None if km is None else bytes(km)
        self._r['derived'] = True
        return self._real.derive(km)


def _ob(x):
    return None if x is None else bytes(x)


def rec_hkdf(algorithm, length, salt, info, backend=None):
    r = {'k': 'hkdf', 'h': _hname(algorithm), 'len': length, 'salt': _ob(salt), 'info': _ob(info), 'ikm': None, 'derived': False}
    REC.append(r)
    return RecKdf(_ORIG['hkdf'].HKDF(algorithm=algorithm, length=length, salt=salt, info=info), r, 'ikm')


def rec_pbkdf2(algorithm, length, salt, iterations, backend=None):
    r = {'k': 'pbkdf2', 'h': _hname(algorithm), 'len': length, 'salt': _ob(salt), 'iters': iterations, 'pw': None, 'derived': False}
    REC.append(r)
    return RecKdf(_ORIG['pbkdf2'].PBKDF2HMAC(algorithm=algorithm, length=length, salt=salt, iterations=iterations), r, 'pw')


def rec_kbkdf(algorithm, mode, length, rlen, llen, location, label, context, fixed, backend=None, **kw):
    kb = _ORIG['kbkdf']
    shape = (mode is kb.Mode.CounterMode and rlen == 4 and llen is None and location is kb.CounterLocation.BeforeFixed
             and label is None and context is None and not kw)
    r = {'k': 'kbkdf', 'h': _hname(algorithm), 'len': length, 'fixed': _ob(fixed), 'key': None, 'shape': bool(shape), 'derived': False}
    REC.append(r)
    return RecKdf(kb.KBKDFHMAC(algorithm=algorithm, mode=mode, length=length, rlen=rlen, llen=llen, location=location,
                               label=label, context=context, fixed=fixed, **kw), r, 'key')


def rec_wrap(wrapping_key, key_to_wrap, backend=None):
    REC.append({'k': 'wrap', 'kek': bytes(wrapping_key), 'key': bytes(key_to_wrap)})
    return _ORIG['keywrap'].aes_key_wrap(wrapping_key, key_to_wrap)


class RecKey:
    """Stands for a loaded RSA key; records the padding objects it is used with."""
    def __init__(self, real, raw):
        self._real, self._raw = real, raw

    def __getattr__(self, n):
        return getattr(self._real, n)

    @staticmethod
    def _sigpad(p, alg):
        kind = {'PSS': 2, 'PKCS1v15': 1}.get(type(p).__name__, 9)
        mgf = _hname(p._mgf._algorithm) if kind == 2 else None
        from cryptography.hazmat.primitives.asymmetric import padding
        smax = kind == 2 and p._salt_length is padding.PSS.MAX_LENGTH
        return {'k': 'rsasig', 'pad': kind, 'h': _hname(alg), 'mgf': mgf, 'smax': bool(smax)}

    @staticmethod
    def _encpad(p, raw):
        kind = {'OAEP': 0, 'PKCS1v15': 1}.get(type(p).__name__, 9)
        if kind == 0:
            return {'k': 'rsacrypt', 'key': raw, 'pad': 0, 'h': _hname(p._algorithm), 'mgf': _hname(p._mgf._algorithm), 'label_none': p._label is None}
        return {'k': 'rsacrypt', 'key': raw, 'pad': kind, 'h': None, 'mgf': None, 'label_none': True}

    def sign(self, data, padding, algorithm):
        REC.append(self._sigpad(padding, algorithm))
        return self._real.sign(data, padding, algorithm)

    def verify(self, signature, data, padding, algorithm):
        REC.append(self._sigpad(padding, algorithm))
        return self._real.verify(signature, data, padding, algorithm)

    def encrypt(self, pt, padding):
        REC.append(self._encpad(padding, self._raw))
        return self._real.encrypt(pt, padding)

    def decrypt(self, ct, padding):
        REC.append(self._encpad(padding, self._raw))
        return self._real.decrypt(ct, padding)


def _rec_loader(name):
    def load(data, *a, **kw):
        kw.pop('backend', None)
        real = getattr(_ORIG['serialization'], name)(data, *a, **kw)
        return RecKey(real, bytes(data))
    return load


def rec_urandom(n):
    b = _ORIG['os'].urandom(n)
    REC.append({'k': 'urandom', 'n': n})
    return b


def rec_rsagen(public_exponent, key_size, backend=None):
    REC.append({'k': 'rsagen', 'bits': key_size, 'e': public_exponent})
    return _ORIG['rsa'].generate_private_key(public_exponent=public_exponent, key_size=key_size)


def install_recorder():
    if _ORIG:
        return
    for n in ('ciphers', 'hmac', 'cmac', 'hashes', 'hkdf', 'pbkdf2', 'kbkdf', 'keywrap', 'serialization', 'os', 'rsa'):
        _ORIG[n] = getattr(ce, n)
    ce.ciphers = Proxy(_ORIG['ciphers'], Cipher=RecCipher)
    ce.hmac = Proxy(_ORIG['hmac'], HMAC=rec_hmac)
    ce.cmac = Proxy(_ORIG['cmac'], CMAC=rec_cmac)
    ce.hashes = Proxy(_ORIG['hashes'], Hash=rec_hash)
    ce.hkdf = Proxy(_ORIG['hkdf'], HKDF=rec_hkdf)
    ce.pbkdf2 = Proxy(_ORIG['pbkdf2'], PBKDF2HMAC=rec_pbkdf2)
    ce.kbkdf = Proxy(_ORIG['kbkdf'], KBKDFHMAC=rec_kbkdf)
    ce.keywrap = Proxy(_ORIG['keywrap'], aes_key_wrap=rec_wrap)
    ce.serialization = Proxy(_ORIG['serialization'], **{n: _rec_loader(n) for n in (
        'load_der_public_key', 'load_pem_public_key', 'load_der_private_key', 'load_pem_private_key')})
    ce.os = Proxy(_ORIG['os'], urandom=rec_urandom)
    ce.rsa = Proxy(_ORIG['rsa'], generate_private_key=rec_rsagen)


def uninstall_recorder():
    for n, v in _ORIG.items():
        setattr(ce, n, v)
    _ORIG.clear()


def call(fn, *a, **kw):
    """Run one engine method; returns (outcome, value, calls).  outcome: 'done' | 'IF' | 'CF' | 'crash:<type>'"""
    del REC[:]
    try:
        v = fn(*a, **kw)
        return 'done', v, list(REC)
    except kexc.InvalidField as e:
        return 'IF', str(e), list(REC)
    except kexc.CryptographicFailure as e:
        return 'CF', str(e), list(REC)
    except kexc.KmipError as e:
        return 'kmip:' + type(e).__name__, str(e), list(REC)
    except Exception as e:      # non-KMIP exception: what the server turns into GENERAL_FAILURE
        return 'crash:' + type(e).__name__, str(e), list(REC)


# ============================================================================ printers
TABLES = {}
# Independent of the engine's tables (by enum NAME): what each KMIP name means.
HASH_ID = {'MD5': 1, 'SHA_1': 2, 'SHA_224': 3, 'SHA_256': 4, 'SHA_384': 5, 'SHA_512': 6}
DSA_HASH = {'MD5_WITH_RSA_ENCRYPTION': 1, 'SHA1_WITH_RSA_ENCRYPTION': 2, 'SHA224_WITH_RSA_ENCRYPTION': 3,
            'SHA256_WITH_RSA_ENCRYPTION': 4, 'SHA384_WITH_RSA_ENCRYPTION': 5, 'SHA512_WITH_RSA_ENCRYPTION': 6}
HMAC_HASH = {'HMAC_MD5': 1, 'HMAC_SHA1': 2, 'HMAC_SHA224': 3, 'HMAC_SHA256': 4, 'HMAC_SHA384': 5, 'HMAC_SHA512': 6}
CIPHER_OF = {'TRIPLE_DES': 'TripleDES', 'AES': 'AES', 'BLOWFISH': 'Blowfish', 'CAMELLIA': 'Camellia', 'CAST5': 'CAST5',
             'IDEA': 'IDEA', 'RC4': 'ARC4'}
MODE_OF_CLASS = {'CBC': 1, 'ECB': 2, 'CFB': 4, 'OFB': 5, 'CTR': 6, 'GCM': 9}


def hid_of_hash(h):
    return None if h is None else HASH_ID.get(h.name)


def hid_of_dsa(d):
    return None if d is None else DSA_HASH.get(d.name)



def tables():
    """Cipher classes of the grid, from the library by NAME (independent of the engine's own tables, so that the grid
    and the oracle still run when the translator refuses the engine)."""
    if not TABLES:
        TABLES['alg_of_class'] = {cn: A[n].value for n, cn in CIPHER_OF.items()}
        TABLES['mode_of_class'] = dict(MODE_OF_CLASS)
        sym = {}
        for n, cn in CIPHER_OF.items():
            klass = R._alg_class(cn)
            sym[A[n].value] = (cn, getattr(klass, 'block_size', None) or 0, sorted(int(k) for k in klass.key_sizes))
        TABLES['sym'] = sym
    return TABLES


def ev(x):
    return None if x is None else int(x.value)


def oz(x):
    return cp.option(x, cp.z)


def ob(x):
    return cp.option(x, cp.byts)


def outcome_term(o):
    if o == 'done':
        return 'ODone'
    if o == 'IF':
        return '(OErr InvalidField)'
    if o == 'CF':
        return '(OErr CryptographicFailure)'
    return 'OCrash'


def tdes_expand(k):
    # cryptography's TripleDES: 8-byte keys are used as k|k|k, 16-byte keys as k1|k2|k1 (two-key 3DES)
    return k * 3 if len(k) == 8 else (k + k[:8] if len(k) == 16 else k)


def call_term(c, passed_key=None):
    t = tables()
    if c is None:
        return 'PNoCall'
    k = c['k']
    if k in ('cipher', 'cmac') and c['alg'] == 'TripleDES' and passed_key is not None and c['key'] == tdes_expand(passed_key):
        c = dict(c, key=passed_key)
    if k == 'cipher':
        return '(PCipher (mkCC %s %s %s %s %s %s %s %s %s %s))' % (
            cp.z(t['alg_of_class'].get(c['alg'], -9)), cp.byts(c['key']),
            cp.z(-1 if c['mode'] is None else t['mode_of_class'].get(c['mode'], -9)),
            ob(c['iv']), ob(c['tag']), oz(c['mintag']), ob(c['aad']), cp.byts(c['data']), cp.boolean(c['fin']), cp.byts(c['out']))
    if k == 'rsacrypt':
        return '(PRsaCrypt %s %s %s %s %s)' % (cp.byts(c['key']), cp.z(c['pad']), oz(c['h']), oz(c['mgf']), cp.boolean(c['label_none']))
    if k == 'rsasig':
        return '(PRsaSig %s %s %s %s)' % (cp.z(c['pad']), oz(c['h']), oz(c['mgf']), cp.boolean(c['smax']))
    if k == 'hmac':
        return '(PHmac %s %s %s)' % (cp.z(c['h'] or -9), cp.byts(c['key']), cp.byts(c['data']))
    if k == 'cmac':
        return '(PCmac %s %s %s)' % (cp.z(t['alg_of_class'].get(c['alg'], -9)), cp.byts(c['key']), cp.byts(c['data']))
    if k == 'hkdf':
        return '(PHkdf %s %s %s %s %s)' % (cp.z(c['h'] or -9), cp.z(c['len']), ob(c['salt']), ob(c['info']), ob(c['ikm']))
    if k == 'hash':
        return '(PHash %s %s)' % (cp.z(c['h'] or -9), cp.byts(c['data']))
    if k == 'pbkdf2':
        return '(PPbkdf2 %s %s %s %s %s)' % (cp.z(c['h'] or -9), cp.z(c['len']), cp.byts(c['salt'] or b''), cp.z(c['iters']), ob(c['pw']))
    if k == 'kbkdf':
        return '(PKbkdf %s %s %s %s %s)' % (cp.z(c['h'] or -9), cp.z(c['len']), ob(c['fixed']), ob(c['key']), cp.boolean(c['shape']))
    if k == 'wrap':
        return '(PWrap %s %s)' % (cp.byts(c['kek']), cp.byts(c['key']))
    if k == 'urandom':
        return '(PUrandom %s %s %s)' % (cp.z(c['n']), cp.z(c.get('alg', -9)), cp.z(c.get('outlen', -9)))
    if k == 'rsagen':
        return '(PRsaGen %s %s)' % (cp.z(c['bits']), cp.z(c['e']))
    raise KeyError(k)


def last_call(calls, kind=None):
    for c in reversed(calls):
        if kind is None or c['k'] == kind:
            return c
    return None


def enc_params_term(p, dec_tag=None):
    return '(mkEnc %s %s %s %s %s %s %s %s %s %s)' % (
        oz(ev(p['alg'])), cp.byts(p['key']), cp.boolean(p.get('key_loads', False)), oz(ev(p['mode'])), oz(ev(p['pad'])),
        ob(p['iv']), ob(p['aad']), oz(p['taglen']), ob(dec_tag), oz(ev(p.get('hash'))))


def pj(p):
    """JSON-able parameter tuple for replays / samples."""
    out = {}
    for k, v in p.items():
        if isinstance(v, (bytes, bytearray)):
            out[k] = bytes(v).hex()
        elif hasattr(v, 'name') and hasattr(v, 'value'):
            out[k] = v.name
        else:
            out[k] = v
    return out


# ============================================================================ symmetric grid
MODE_NAME = {M.CBC: 'CBC', M.ECB: 'ECB', M.CFB: 'CFB', M.OFB: 'OFB', M.CTR: 'CTR', M.GCM: 'GCM'}
PAD_SCHEME = {P.PKCS5: 0, P.ANSI_X923: 1}


def key_choices(ctx, rng, alg):
    """(key sizes in bits) of the grid for one algorithm."""
    t = tables()['sym']
    full = ctx.tier != 'quick'
    if alg not in (a for a in A if a.value in t):
        return [128]
    ks = t[alg.value][2]
    pick = {A.BLOWFISH: [32, 128, 448], A.CAST5: [40, 128], A.RC4: [40, 128, 256]}.get(alg, ks)
    pick = [k for k in pick if k in ks]
    if not full:
        pick = [pick[rng.randrange(len(pick))]]
        if alg == A.AES and 512 not in pick and rng.random() < 0.5:
            pick.append(512)
    return pick + [24]            # 3 bytes: a key length no algorithm accepts


def sym_tuples(ctx, rng):
    """The finite grid of _encrypt_symmetric / _decrypt_symmetric parameter tuples (without key bytes / message)."""
    algs = [A.TRIPLE_DES, A.AES, A.BLOWFISH, A.CAMELLIA, A.CAST5, A.IDEA, A.RC4, A.DES, None]
    out = []
    for alg in algs:
        if alg is None or alg == A.DES:
            out.append(dict(alg=alg, bits=128, mode=M.CBC, pad=P.PKCS5, ivk='right', aad=None, taglen=None))
            out.append(dict(alg=alg, bits=128, mode=None, pad=None, ivk='absent', aad=None, taglen=None))
            continue
        for bits in key_choices(ctx, rng, alg):
            for mode in [None, M.CBC, M.ECB, M.CFB, M.OFB, M.CTR, M.GCM, M.CCM]:
                if bits == 24 and mode not in (M.CBC, M.GCM, None):
                    continue
                if mode in (M.CBC, M.ECB):
                    pads = [None, P.PKCS5, P.ANSI_X923, P.ZEROS]
                else:
                    pads = [None, P.PKCS5]
                if mode == M.GCM:
                    ivs = ['absent', 'right', 'gcm16', 'wrong']
                    extra = [(a, t) for a in (None, b'associated data') for t in (None, 3, 4, 12, 16, 17)]
                    pads = [None]
                elif mode in (M.ECB, None, M.CCM):
                    ivs = ['absent', 'right']
                    extra = [(None, None), (b'associated data', None), (None, 16)]
                else:
                    ivs = ['absent', 'right', 'wrong']
                    extra = [(None, None), (b'associated data', None), (None, 16)]
                for pad in pads:
                    for ivk in ivs:
                        for aad, taglen in extra:
                            out.append(dict(alg=alg, bits=bits, mode=mode, pad=pad, ivk=ivk, aad=aad, taglen=taglen))
            if bits != 24:
                out.append(dict(alg=alg, bits=bits, mode=M.GCM, pad=P.PKCS5, ivk='right', aad=b'x', taglen=16))
    return out


def block_bytes(alg):
    t = tables()['sym']
    if alg is not None and alg.value in t:
        return t[alg.value][1] // 8
    return 16


def make_iv(rng, t):
    bs = block_bytes(t['alg']) or 8
    k = t['ivk']
    if k == 'absent':
        return None
    if t['mode'] == M.GCM:
        n = {'right': 12, 'gcm16': 16, 'wrong': 7}[k]
    else:
        n = bs if k in ('right', 'gcm16') else bs - 1
    return bytes(rng.randrange(256) for _ in range(n))


def msg_lengths(alg):
    bs = block_bytes(alg) or 8
    return [0, 1, bs - 1, bs, bs + 1, 1000]


def rbytes(rng, n):
    return bytes(rng.getrandbits(8) for _ in range(n))


def ref_encrypt(p, iv, msg):
    """Reference ciphertext (and 16-byte tag) for an accepted tuple; None when the reference does not cover it."""
    cn = CIPHER_OF[p['alg'].name]
    if cn == 'ARC4':
        return R.sym_encrypt('ARC4', p['key'], None, None, None, msg)
    mode = MODE_NAME.get(p['mode'])
    if mode is None:
        return None
    return R.sym_encrypt(cn, p['key'], mode, iv, PAD_SCHEME.get(p['pad']), msg, p['aad'])


def viol(ctx, op, what, p, extra=None):
    sig = {'op': op, 'what': what}
    w = {'op': op, 'params': pj(p)}
    if extra:
        w.update(extra)
    ctx.violation(sig, w, 'C06 %s: %s' % (op, what))


def flip(b, i=0):
    b = bytearray(b)
    b[i % len(b)] ^= 0x01
    return bytes(b)


def run_authenticated_empty(ctx, eng, cases, meta):
    """Every authenticated mode over the EMPTY message (and one byte): tag, AAD and nonce each changed must be refused."""
    rng = ctx.subrng('auth-empty')
    for bits in (128, 192, 256):
        key = rbytes(rng, bits // 8)
        for aad in (None, b'', b'header'):
            for taglen in (4, 12, 16):
                for ivk in ('absent', 12, 16):
                    for msg in (b'', b'\x00'):
                        iv = None if ivk == 'absent' else rbytes(rng, ivk)
                        p = dict(alg=A.AES, key=key, mode=M.GCM, pad=None, iv=iv, aad=aad, taglen=taglen)
                        one_symmetric(ctx, eng, rng, p, msg, True, cases, meta)


def run_symmetric(ctx, eng, cases, meta):
    rng = ctx.subrng('sym')
    quick = ctx.tier == 'quick'
    tuples = sym_tuples(ctx, rng)
    keys = {}
    n_long = 0
    for ti, t in enumerate(tuples):
        kk = (t['alg'], t['bits'])
        if kk not in keys:
            keys[kk] = rbytes(rng, t['bits'] // 8)
        lens = msg_lengths(t['alg'])
        coq_lens = lens[:5]
        if quick:
            # stratified: every tuple with one short length (rotating) in Coq; python oracle on two lengths
            coq_lens = [lens[ti % 5]]
            lens = coq_lens + [lens[(ti + 3) % 6]]
        for ln in dict.fromkeys(lens):
            msg = rbytes(rng, ln)
            iv = make_iv(rng, t)
            p = dict(alg=t['alg'], key=keys[kk], mode=t['mode'], pad=t['pad'], iv=iv, aad=t['aad'], taglen=t['taglen'])
            in_coq = ln in coq_lens or (ln == 1000 and n_long < (12 if quick else 150) and t['ivk'] != 'wrong' and t['bits'] != 24)
            if ln == 1000 and in_coq:
                n_long += 1
            one_symmetric(ctx, eng, rng, p, msg, in_coq, cases, meta)


def one_symmetric(ctx, eng, rng, p, msg, in_coq, cases, meta):
    o, v, calls = call(eng.encrypt, p['alg'], p['key'], msg, cipher_mode=p['mode'], padding_method=p['pad'],
                       iv_nonce=p['iv'], auth_additional_data=p['aad'], auth_tag_length=p['taglen'])
    ctx.count('encrypt.%s' % o.split(':')[0])
    new = ctx.case_seen(('enc', pj(p), len(msg)), nontrivial=True)
    c = last_call(calls, 'cipher')
    ct = iv_ret = tag = None
    if o == 'done':
        ct, iv_ret, tag = v.get('cipher_text'), v.get('iv_nonce'), v.get('auth_tag')
        if set(v) - {'cipher_text', 'iv_nonce', 'auth_tag'}:
            viol(ctx, 'encrypt', 'unexpected result fields', p, {'fields': sorted(v)})
    if o.startswith('kmip:'):
        viol(ctx, 'encrypt', 'unexpected KMIP error class ' + o, p)
    if in_coq:
        cases.append('KEnc %s %s %s %s %s %s %s false' % (
            enc_params_term(p), cp.byts(msg), outcome_term(o), call_term(c, p['key']), ob(iv_ret),
            oz(None if tag is None else len(tag)), cp.z(-1 if ct is None else len(ct))))
        meta.append(('encrypt', pj(p), len(msg), o))
    if o == 'done':
        used_iv = iv_ret if iv_ret is not None else p['iv']
        # ---- direct oracle: an IV mode with the IV omitted in the request must hand the generated IV back
        needs_iv = p['mode'] in (M.CBC, M.CFB, M.OFB, M.CTR, M.GCM) and p['alg'] != A.RC4
        if needs_iv and used_iv is None:
            viol(ctx, 'encrypt', 'IV omitted in the request: the result does not carry the generated IV', p,
                 {'msg': msg.hex()[:200], 'result_fields': sorted(v)})
        # ---- direct oracle: bytes equal to the independent reference
        ref = ref_encrypt(p, used_iv, msg) if not (needs_iv and used_iv is None) else None
        if ref is not None:
            rct, rtag = ref
            if rct != ct:
                viol(ctx, 'encrypt', 'ciphertext differs from the independent reference', p,
                     {'msg': msg.hex(), 'iv_used': None if used_iv is None else used_iv.hex(), 'got': ct.hex()[:200], 'ref': rct.hex()[:200]})
            if rtag is not None and tag != rtag[:len(tag)]:
                viol(ctx, 'encrypt', 'GCM tag differs from the reference', p, {'msg': msg.hex(), 'got': tag.hex(), 'ref': rtag.hex()})
            if p['mode'] == M.GCM and p['taglen'] is not None and len(tag) != min(p['taglen'], 16):
                viol(ctx, 'encrypt', 'GCM tag length is not the requested one', p, {'len': len(tag)})
        if iv_ret is not None:
            # freshness smoke check: a second call gives a different IV
            o2, v2, _ = call(eng.encrypt, p['alg'], p['key'], msg, cipher_mode=p['mode'], padding_method=p['pad'],
                             iv_nonce=None, auth_additional_data=p['aad'], auth_tag_length=p['taglen'])
            if o2 != 'done' or v2.get('iv_nonce') == iv_ret:
                viol(ctx, 'encrypt', 'generated IV repeats', p, {'iv': iv_ret.hex()})
            if len(iv_ret) != block_bytes(p['alg']):
                viol(ctx, 'encrypt', 'generated IV has the wrong length', p, {'iv': iv_ret.hex()})
        # ---- Decrypt inverts Encrypt
        dp = dict(p, iv=used_iv)
        one_decrypt(ctx, eng, dp, ct, tag, msg, in_coq, cases, meta, 'roundtrip')
        if p['mode'] == M.GCM and ct is not None and tag:
            if ct:
                one_decrypt(ctx, eng, dp, flip(ct, rng.randrange(len(ct))), tag, None, in_coq, cases, meta, 'tamper-ct')
            one_decrypt(ctx, eng, dp, ct, flip(tag, rng.randrange(len(tag))), None, in_coq, cases, meta, 'tamper-tag')
            aad2 = flip(p['aad']) if p['aad'] else b'x'
            one_decrypt(ctx, eng, dict(dp, aad=aad2), ct, tag, None, in_coq, cases, meta, 'tamper-aad')
            if used_iv:
                one_decrypt(ctx, eng, dict(dp, iv=flip(used_iv, rng.randrange(len(used_iv)))), ct, tag, None, in_coq, cases, meta, 'tamper-nonce')
            if p['aad']:
                one_decrypt(ctx, eng, dict(dp, aad=None), ct, tag, None, in_coq, cases, meta, 'tamper-aad')
        # ---- decrypt-side parameter variations on a valid ciphertext
        if in_coq:
            one_decrypt(ctx, eng, dict(dp, iv=None), ct, tag, 'any', True, cases, meta, 'no-iv')
            if p['mode'] in (M.CBC, M.ECB) and ct:
                other = P.ANSI_X923 if p['pad'] == P.PKCS5 else P.PKCS5
                one_decrypt(ctx, eng, dict(dp, pad=other), ct, tag, 'any', True, cases, meta, 'other-padding')
                one_decrypt(ctx, eng, dict(dp, pad=None), ct, tag, 'any', True, cases, meta, 'no-padding')
                one_decrypt(ctx, eng, dp, ct[:-1], tag, 'any', True, cases, meta, 'short-ct')
                one_decrypt(ctx, eng, dp, flip(ct, len(ct) - 1 - rng.randrange(min(len(ct), 2 * block_bytes(p['alg'])))), tag,
                            'any', True, cases, meta, 'garbled')
            if p['mode'] == M.GCM:
                one_decrypt(ctx, eng, dp, ct, None, 'any', True, cases, meta, 'no-tag')
                one_decrypt(ctx, eng, dp, ct, tag + b'\x00' * 5, 'any', True, cases, meta, 'long-tag')
    else:
        # decrypt with the same (rejected) tuple and arbitrary bytes: classes must agree with the model too
        if in_coq and (ctx.tier != 'quick' or rng.random() < 0.35):
            tagg = None if p['taglen'] is None else bytes(min(max(p['taglen'], 0), 20))
            one_decrypt(ctx, eng, p, msg, tagg, 'any', True, cases, meta, 'rejected-tuple')


def one_decrypt(ctx, eng, p, ct, tag, expect, in_coq, cases, meta, label):
    o, v, calls = call(eng.decrypt, p['alg'], p['key'], ct, cipher_mode=p['mode'], padding_method=p['pad'],
                       iv_nonce=p['iv'], auth_additional_data=p['aad'], auth_tag=tag)
    ctx.count('decrypt.%s.%s' % (label, o.split(':')[0]))
    ctx.case_seen(('dec', label, pj(p), len(ct)), nontrivial=True)
    c = last_call(calls, 'cipher')
    if in_coq:
        cases.append('KDec %s %s %s %s %s false' % (
            enc_params_term(p, dec_tag=tag), cp.byts(ct), outcome_term(o), call_term(c, p['key']), cp.byts(v if o == 'done' else b'')))
        meta.append(('decrypt/' + label, pj(p), len(ct), o))
    if expect == 'any':
        return
    if expect is None:
        if o == 'done':
            viol(ctx, 'decrypt', 'GCM accepted a modified %s%s' % (label.split('-')[1], '' if ct else ' (empty message)'), p, {'ct': ct.hex()[:200], 'tag': tag.hex()})
    else:
        if o != 'done' or v != expect:
            viol(ctx, 'decrypt', 'Decrypt does not invert Encrypt', p,
                 {'msg': expect.hex()[:200], 'ct': ct.hex()[:200], 'tag': None if tag is None else tag.hex(), 'outcome': o,
                  'got': v.hex()[:200] if isinstance(v, bytes) else str(v)[:200]})
        # reference decrypt of the engine's ciphertext
        cn = CIPHER_OF[p['alg'].name]
        mode = MODE_NAME.get(p['mode'])
        if (cn == 'ARC4' or mode) and mode != 'GCM' and not (mode in ('CBC', 'CFB', 'OFB', 'CTR') and p['iv'] is None):
            r = R.sym_decrypt(cn, p['key'], mode, p['iv'], PAD_SCHEME.get(p['pad']), ct)
            if r != expect:
                viol(ctx, 'encrypt', 'the reference cannot decrypt the engine ciphertext', p, {'msg': expect.hex()[:200]})


# ============================================================================ padding vs the library's padder
def run_padding(ctx, cases, meta):
    from cryptography.hazmat.primitives import padding as libpad
    rng = ctx.subrng('padding')
    klass = {0: libpad.PKCS7, 1: libpad.ANSIX923}
    for s in (0, 1):
        for bs in (8, 16):
            for n in list(range(0, 2 * bs + 2)) + [1000]:
                m = rbytes(rng, n)
                pd = klass[s](bs * 8).padder()
                padded = pd.update(m) + pd.finalize()
                cases.append('KPad %d %d %s %s' % (s, bs, cp.byts(m), cp.byts(padded)))
                meta.append(('pad', {'scheme': s, 'bs': bs}, n, 'done'))
                ctx.case_seen(('pad', s, bs, n))
                if R.pad(s, bs, m) != padded:
                    viol(ctx, 'padding', 'library padder differs from the reference', {'scheme': s, 'bs': bs}, {'msg': m.hex()})
                if n > 40:
                    continue
                variants = [padded, padded[:-1], flip(padded, len(padded) - 1), flip(padded, len(padded) - 2) if len(padded) > 1 else b'',
                            m, padded[:-1] + b'\x00', padded[:-1] + bytes([bs + 1]), b'']
                for d in variants:
                    u = klass[s](bs * 8).unpadder()
                    try:
                        r = u.update(d) + u.finalize()
                    except ValueError:
                        r = None
                    cases.append('KUnpad %d %d %s %s' % (s, bs, cp.byts(d), ob(r)))
                    meta.append(('unpad', {'scheme': s, 'bs': bs, 'data': d.hex()}, len(d), 'done' if r is not None else 'reject'))
                    ctx.case_seen(('unpad', s, bs, d))
                    if R.unpad(s, bs, d) != r:
                        viol(ctx, 'padding', 'library unpadder differs from the reference', {'scheme': s, 'bs': bs}, {'data': d.hex()})


# ============================================================================ MAC
def run_mac(ctx, eng, cases, meta):
    rng = ctx.subrng('mac')
    t = tables()
    algs = [A.HMAC_SHA1, A.HMAC_SHA224, A.HMAC_SHA256, A.HMAC_SHA384, A.HMAC_SHA512, A.HMAC_MD5,
            A.TRIPLE_DES, A.AES, A.BLOWFISH, A.CAMELLIA, A.CAST5, A.IDEA, A.RC4, A.RSA, A.DES, A.HMAC_SHA3_256]
    quick = ctx.tier == 'quick'
    for ai, alg in enumerate(algs):
        # around both HMAC block sizes (64: MD5/SHA-1/224/256, 128: SHA-384/512) a long key is replaced by its digest
        klens = [16, 24, 8, 5, 0, 32, 63, 64, 65, 100, 127, 128, 129, 200]
        if quick and alg.name not in HMAC_HASH:
            klens = [16, 24, 8, 5, 0, 200]
        for ki, kl in enumerate(klens):
            key = rbytes(rng, kl)
            lens = msg_lengths(alg if alg.value in t['sym'] else A.AES)
            if quick:
                lens = [lens[(ai + ki) % 6], lens[(ai + ki + 2) % 6]]
            for ln in lens:
                data = rbytes(rng, ln)
                o, v, calls = call(eng.mac, alg, key, data)
                ctx.count('mac.%s' % o.split(':')[0])
                ctx.case_seen(('mac', alg.name, kl, ln))
                c = last_call(calls)
                if c is not None and c['k'] not in ('hmac', 'cmac'):
                    c = None
                if ln <= 64 or (kl == 16):
                    cases.append('KMac %s %s %s %s %s %s' % (cp.z(alg.value), cp.byts(key), cp.byts(data), outcome_term(o),
                                                          call_term(c, key), cp.z(len(v) if o == 'done' else -1)))
                    meta.append(('mac', {'alg': alg.name, 'key': key.hex()}, ln, o))
                if o.startswith('crash') or o.startswith('kmip:'):
                    viol(ctx, 'mac', 'mac() left with ' + o, {'alg': alg, 'key': key}, {'data': data.hex()[:100]})
                if o == 'done':
                    if alg.name in HMAC_HASH:
                        ref = R.hmac_fn(HMAC_HASH[alg.name])(key, data)
                    else:
                        enc, _, bs = R.block_fns(CIPHER_OF[alg.name], key)
                        ref = R.cmac(enc, bs, data)
                    if ref != v:
                        viol(ctx, 'mac', 'MAC differs from the independent reference', {'alg': alg, 'key': key},
                             {'data': data.hex()[:200], 'got': v.hex(), 'ref': ref.hex()})


# ============================================================================ derive_key
def der_params_term(p):
    return '(mkDer %s %s %s %s %s %s %s %s %s %s %s %s)' % (
        oz(ev(p['method'])), cp.z(p['len']), ob(p['data']), ob(p['key']), oz(ev(p['hash'])), ob(p['salt']), oz(p['iters']),
        oz(ev(p['alg'])), oz(ev(p['mode'])), oz(ev(p['pad'])), ob(p['iv']), cp.boolean(False))


def ref_derive(p, hid):
    m = p['method']
    prf, hl = R.hmac_fn(hid), R.DIGEST[hid]
    if m == D.HMAC:
        return R.hkdf(prf, hl, p['len'], p['salt'], p['data'], p['key'])
    if m == D.HASH:
        return R.digest(hid, p['data'] if p['data'] is not None else p['key'])
    if m == D.PBKDF2:
        return R.pbkdf2(prf, hl, p['len'], p['salt'], p['iters'], p['key'])
    if m == D.NIST800_108_C:
        return R.kbkdf_counter(prf, hl, p['len'], p['data'], p['key'])
    return None


def derive_tuples(ctx, rng):
    quick = ctx.tier == 'quick'
    hashes = [None, H.MD5, H.SHA_1, H.SHA_224, H.SHA_256, H.SHA_384, H.SHA_512, H.MD2, H.SHA3_256]
    out = []
    base = dict(alg=None, mode=None, pad=None, iv=None, salt=None, iters=None)
    for method in [D.HMAC, D.HASH, D.PBKDF2, D.NIST800_108_C, D.NIST800_108_F, None]:
        for h in hashes:
            datas = [None, b'', 'r']
            keys = [None, 'k', b'']
            if method == D.PBKDF2:
                salts, iters = [None, b'', 's'], [None, 0, 1, 3]
            elif method == D.HMAC:
                salts, iters = [None, b'', 's'], [None]
            else:
                salts, iters = [None], [None]
            if method in (D.NIST800_108_F, None) or h in (None, H.MD2, H.SHA3_256):
                datas, keys, salts, iters = ['r'], ['k'], salts[-1:], iters[-1:]
            lens = [1, 16, 'd', 'd+1', 100]
            if h in (H.SHA_256, H.MD5) and method == D.HMAC:
                lens = lens + ['max', 'max+1', 0]
            for d, k, s, it in itertools.product(datas, keys, salts, iters):
                ls = lens
                if quick:
                    ls = [lens[rng.randrange(len(lens))]] + [x for x in lens if x in ('max+1',)]
                for ln in ls:
                    out.append(dict(base, method=method, hash=h, data=d, key=k, salt=s, iters=it, len=ln))
    # ENCRYPT: the symmetric path with the derivation data as the message and the handler's iv conventions
    for alg in [A.AES, A.TRIPLE_DES, A.BLOWFISH, A.CAMELLIA, A.CAST5, A.IDEA, A.RC4, A.RSA, None, A.DES]:
        for mode in [None, M.CBC, M.ECB, M.CFB, M.OFB, M.CTR, M.GCM, M.CCM]:
            for pad in [None, P.PKCS5, P.ANSI_X923, P.ZEROS]:
                if mode not in (M.CBC, M.ECB) and pad in (P.ANSI_X923, P.ZEROS):
                    continue
                for ivk in ['absent', 'right', 'empty']:
                    for d in ['r', None] if (mode == M.CBC and pad == P.PKCS5) else ['r']:
                        out.append(dict(method=D.ENCRYPT, hash=(H.SHA_256 if ivk == 'right' else None), data=d, key='k', salt=None,
                                        iters=None, len=16, alg=alg, mode=mode, pad=pad, iv=ivk))
    return out


def run_derive(ctx, eng, cases, meta):
    rng = ctx.subrng('derive')
    t = tables()
    for tp in derive_tuples(ctx, rng):
        p = dict(tp)
        hid = hid_of_hash(p['hash'])
        hl = R.DIGEST.get(hid, 32)
        ln = p['len']
        p['len'] = {'d': hl, 'd+1': hl + 1, 'max': 255 * hl, 'max+1': 255 * hl + 1}.get(ln, ln)
        if p['data'] == 'r':
            p['data'] = rbytes(rng, rng.choice([1, 7, 16, 33]))
        if p['salt'] == 's':
            p['salt'] = rbytes(rng, rng.choice([1, 8, 16]))
        if p['key'] == 'k':
            if p['method'] == D.ENCRYPT and p['alg'] is not None and p['alg'].value in t['sym']:
                ks = t['sym'][p['alg'].value][2]
                p['key'] = rbytes(rng, (128 if 128 in ks else ks[-1]) // 8)
            else:
                p['key'] = rbytes(rng, rng.choice([16, 20, 32]))
        if p['method'] == D.ENCRYPT:
            bs = block_bytes(p['alg']) or 8
            p['iv'] = {'absent': None, 'empty': b'', 'right': rbytes(rng, 12 if p['mode'] == M.GCM else bs)}[p['iv']]
        o, v, calls = call(eng.derive_key, p['method'], p['len'], derivation_data=p['data'], key_material=p['key'],
                           hash_algorithm=p['hash'], salt=p['salt'], iteration_count=p['iters'],
                           encryption_algorithm=p['alg'], cipher_mode=p['mode'], padding_method=p['pad'], iv_nonce=p['iv'])
        ctx.count('derive.%s.%s' % (p['method'].name if p['method'] else 'None', o.split(':')[0]))
        ctx.case_seen(('derive', pj(p)))
        c = last_call(calls)
        if c is not None and c['k'] in ('urandom',):
            c = None
        if c is not None and c['k'] in ('hkdf', 'pbkdf2', 'kbkdf') and not c['derived']:
            c = dict(c)   # constructed but derive() not reached: still the observed constructor arguments
        outlen = len(v) if o == 'done' and isinstance(v, bytes) else -1
        if p['len'] <= 2000 or True:
            cases.append('KDerive %s %s %s %s false' % (der_params_term(p), outcome_term(o), call_term(c, p['key']), cp.z(outlen)))
            meta.append(('derive', pj(p), p['len'], o))
        if o.startswith('kmip:'):
            viol(ctx, 'derive_key', 'unexpected KMIP error class ' + o, p)
        if o == 'done':
            if p['method'] == D.ENCRYPT:
                c2 = last_call(calls, 'cipher')
                ep = dict(alg=p['alg'], key=p['key'], mode=p['mode'], pad=p['pad'], aad=None)
                ref = ref_encrypt(ep, c2['iv'] if c2 else None, p['data']) if p['alg'].name in CIPHER_OF else None
                if ref is not None and ref[0] != v:
                    viol(ctx, 'derive_key', 'ENCRYPT derivation differs from the reference cipher', p, {'got': v.hex()[:200]})
            else:
                ref = ref_derive(p, hid)
                if ref is not None and ref != v:
                    viol(ctx, 'derive_key', 'derived bytes differ from the independent reference', p,
                         {'got': v.hex()[:200], 'ref': ref.hex()[:200]})
                if p['method'] in (D.HMAC, D.PBKDF2, D.NIST800_108_C) and len(v) != p['len']:
                    viol(ctx, 'derive_key', 'derived length is not the requested length', p, {'len': len(v)})


# ============================================================================ wrap_key
def run_wrap(ctx, eng, cases, meta):
    rng = ctx.subrng('wrap')
    for method in [W.ENCRYPT, W.MAC_SIGN, None]:
        for alg in [M.NIST_KEY_WRAP, M.CBC, M.AES_KEY_WRAP_PADDING, None]:
            for kekl in [16, 24, 32, 5, 0]:
                for kl in [16, 24, 32, 40, 64, 8, 17, 0]:
                    if (method != W.ENCRYPT or alg != M.NIST_KEY_WRAP) and (kekl, kl) not in ((16, 16), (5, 17)):
                        continue
                    kek, key = rbytes(rng, kekl), rbytes(rng, kl)
                    o, v, calls = call(eng.wrap_key, key, method, alg, kek)
                    ctx.count('wrap.%s' % o.split(':')[0])
                    ctx.case_seen(('wrap', ev(method), ev(alg), kekl, kl))
                    c = last_call(calls, 'wrap')
                    p = dict(method=method, alg=alg, kek=kek, key=key)
                    cases.append('KWrap %s %s %s %s %s %s %s' % (oz(ev(method)), oz(ev(alg)), cp.byts(key), cp.byts(kek),
                                                               outcome_term(o), call_term(c), cp.z(len(v) if o == 'done' else -1)))
                    meta.append(('wrap', pj(p), kl, o))
                    if o.startswith('crash') or o.startswith('kmip:'):
                        viol(ctx, 'wrap_key', 'wrap_key() left with ' + o, p)
                    if o == 'done':
                        enc, dec, _ = R.block_fns('AES', kek)
                        ref = R.rfc3394_wrap(enc, key)
                        if ref != v:
                            viol(ctx, 'wrap_key', 'wrapped key differs from the RFC 3394 reference', p, {'got': v.hex(), 'ref': ref.hex()})
                        if R.rfc3394_unwrap(dec, v) != key:
                            viol(ctx, 'wrap_key', 'RFC 3394 unwrap of the result is not the key', p, {'got': v.hex()})


# ============================================================================ key creation
def run_freshness(ctx, eng):
    """Round 8 (C06O): everything ONE engine instance generates (symmetric keys of mixed sizes, IVs of IV-less Encrypt calls)
    over several times 4096 octets of output must be pairwise free of shared 8-octet windows: catches material served twice
    from a buffer, a counter that restarts, a generator reseeded with the same state.  (For independent uniform octets the
    chance of one shared window in this volume is below 1e-10.)"""
    rng = ctx.subrng('freshness')
    t = tables()
    sizes = []
    for alg in list(A):
        if alg.value in t['sym']:
            sizes += [(alg, ln) for ln in t['sym'][alg.value][2] if 64 <= ln <= 512 and ln % 8 == 0]
    target = (4 if ctx.tier == 'quick' else 24) * 4096 + 777
    vals, total = [], 0
    aes_key = b'\x07' * 16
    while total < target and sizes:
        if rng.random() < 0.8:
            alg, ln = rng.choice(sizes)
            o, v, _ = call(eng.create_symmetric_key, alg, ln)
            if o != 'done':
                continue
            vals.append(('key %s-%d' % (alg.name, ln), v['value']))
        else:
            o, v, _ = call(eng.encrypt, A.AES, aes_key, b'm' * 16, cipher_mode=M.CBC, padding_method=enums.PaddingMethod.PKCS5,
                           iv_nonce=None, auth_additional_data=None, auth_tag_length=None)
            if o != 'done' or not v.get('iv_nonce'):
                continue
            vals.append(('IV of an IV-less AES-CBC Encrypt', v['iv_nonce']))
        total += len(vals[-1][1])
    seen = {}
    for i, (label, b) in enumerate(vals):
        for j in range(0, len(b) - 7):
            w = b[j:j + 8]
            k = seen.get(w)
            if k is not None and k[0] != i:
                viol(ctx, 'freshness', 'generated material repeats octets of an earlier generated value of the same engine',
                     {'alg': None}, {'value_index': i, 'value': label, 'offset': j, 'earlier_index': k[0], 'earlier': vals[k[0]][0],
                                      'earlier_offset': k[1], 'generated_before_octets': sum(len(x[1]) for x in vals[:i]),
                                      'how': 'one CryptographyEngine, create_symmetric_key / encrypt(iv_nonce=None) in this order: '
                                             + ', '.join(x[0] for x in vals[max(0, k[0] - 1):i + 1][:12])})
                ctx.count('freshness.values', len(vals))
                return
            seen.setdefault(w, (i, j))
    ctx.count('freshness.values', len(vals))
    ctx.count('freshness.octets', total)
    ctx.log('  freshness: %d generated values, %d octets, no shared 8-octet window' % (len(vals), total))


def run_create(ctx, eng, cases, meta, rsa_cache):
    rng = ctx.subrng('create')
    t = tables()
    seen_keys = set()
    for alg in list(A):
        if alg.value in t['sym']:
            ks = t['sym'][alg.value][2]
            lens = sorted(set(ks) | {0, 8, 100, 129, 1024, min(ks) - 8, max(ks) + 8, -8})
            if ctx.tier == 'quick' and len(ks) > 12:
                lens = sorted(set(rng.sample(ks, 8)) | {min(ks), max(ks), min(ks) - 8, max(ks) + 8, 0})
        else:
            lens = [128]
        for ln in lens:
            o, v, calls = call(eng.create_symmetric_key, alg, ln)
            ctx.count('create.%s' % o.split(':')[0])
            ctx.case_seen(('create', alg.name, ln))
            c = last_call(calls, 'urandom')
            if c is not None:
                c = dict(c, alg=alg.value, outlen=len(v['value']) if o == 'done' else -1)
            cases.append('KCreate %s %s %s %s' % (cp.z(alg.value), cp.z(ln), outcome_term(o), call_term(c)))
            meta.append(('create', {'alg': alg.name}, ln, o))
            p = {'alg': alg, 'length': ln}
            if o.startswith('crash') or o.startswith('kmip:'):
                viol(ctx, 'create_symmetric_key', 'left with ' + o, p)
            if o == 'done':
                kb = v['value']
                if len(kb) * 8 != ln or v.get('format') != enums.KeyFormatType.RAW:
                    viol(ctx, 'create_symmetric_key', 'key material does not have the requested length', p, {'len': len(kb)})
                if ln >= 64:
                    if kb in seen_keys:
                        viol(ctx, 'create_symmetric_key', 'key material repeats', p)
                    seen_keys.add(kb)
                    o2, v2, _ = call(eng.create_symmetric_key, alg, ln)
                    if o2 != 'done' or v2['value'] == kb:
                        viol(ctx, 'create_symmetric_key', 'two calls give the same key', p)
    for alg, ln in [(A.RSA, 1024), (A.RSA, 2048), (A.RSA, 512), (A.RSA, 1000), (A.DSA, 1024), (A.EC, 256), (A.AES, 128)]:
        if ctx.tier == 'quick' and (alg, ln) == (A.RSA, 1000):
            continue
        o, v, calls = call(eng.create_asymmetric_key_pair, alg, ln)
        ctx.count('create_pair.%s' % o.split(':')[0])
        ctx.case_seen(('pair', alg.name, ln))
        c = last_call(calls, 'rsagen')
        cases.append('KPair %s %s %s %s' % (cp.z(alg.value), cp.z(ln), outcome_term(o), call_term(c)))
        meta.append(('create_pair', {'alg': alg.name}, ln, o))
        p = {'alg': alg, 'length': ln}
        if o.startswith('crash') or o.startswith('kmip:'):
            viol(ctx, 'create_asymmetric_key_pair', 'left with ' + o, p)
        if o == 'done':
            pub, priv = v
            rsa_cache[ln] = (pub['value'], priv['value'])
            k = R.load_private(priv['value'])
            kp = R.load_public(pub['value'])
            if k.key_size != ln or kp.key_size != ln or kp.public_numbers() != k.public_key().public_numbers():
                viol(ctx, 'create_asymmetric_key_pair', 'pair is not a matching RSA pair of the requested size', p)
            if k.public_key().public_numbers().e != 65537:
                viol(ctx, 'create_asymmetric_key_pair', 'unexpected public exponent', p)
    (ctx.work / 'rsa_keys.json').write_text(json.dumps({str(k): [a.hex(), b.hex()] for k, (a, b) in rsa_cache.items()}))


# ============================================================================ RSA encrypt / decrypt, sign / verify
def sig_params_term(p, loads):
    return '(mkSig %s %s %s %s %s)' % (oz(ev(p['dsa'])), oz(ev(p['alg'])), oz(ev(p['hash'])), oz(ev(p['pad'])), cp.boolean(loads))


def run_rsa(ctx, eng, cases, meta, rsa_cache):
    rng = ctx.subrng('rsa')
    t = tables()
    quick = ctx.tier == 'quick'
    sizes = [s for s in (1024, 2048) if s in rsa_cache]
    others = {}
    for s in sizes:     # a second key of each size ("other key")
        o, v, _ = call(eng.create_asymmetric_key_pair, A.RSA, s)
        others[s] = (v[0]['value'], v[1]['value'])
    garbage = b'\x30\x82\x01\x0a' + bytes(40)
    # ---------------- encryption
    for size in sizes:
        pub, priv = rsa_cache[size]
        kbytes = size // 8
        for pad in [P.OAEP, P.PKCS1v15, P.PSS, None, P.PKCS5]:
            for h in [None, H.MD5, H.SHA_1, H.SHA_224, H.SHA_256, H.SHA_384, H.SHA_512, H.MD2]:
                if pad != P.OAEP and h not in (None, H.SHA_256):
                    continue
                if quick and size == 2048 and h not in (None, H.SHA_256, H.SHA_512, H.MD2):
                    continue
                hid = hid_of_hash(h)
                if pad == P.OAEP and hid:
                    mx = kbytes - 2 * R.DIGEST[hid] - 2
                else:
                    mx = kbytes - 11
                for ln in [0, 1, 16, mx - 1, mx, mx + 1, mx + 2, kbytes, kbytes + 1]:
                    for keyk in ['good', 'garbage']:
                        if keyk == 'garbage' and ln != 1:
                            continue
                        if ln < 0:
                            continue
                        if quick and size == 2048 and ln in (1, kbytes + 1) and keyk == 'good':
                            continue
                        msg = rbytes(rng, ln)
                        key = pub if keyk == 'good' else garbage
                        p = dict(alg=A.RSA, key=key, key_loads=(keyk == 'good'), mode=None, pad=pad, iv=None, aad=None, taglen=None, hash=h)
                        o, v, calls = call(eng.encrypt, A.RSA, key, msg, padding_method=pad, hashing_algorithm=h)
                        ctx.count('rsa_encrypt.%s' % o.split(':')[0])
                        ctx.case_seen(('rsaenc', size, ev(pad), ev(h), ln, keyk))
                        c = last_call(calls, 'rsacrypt')
                        # whether the library accepts (padding, hash, message length): observed independently on the reference path
                        asym_ok = False
                        if keyk == 'good' and (pad == P.PKCS1v15 or (pad == P.OAEP and hid)):
                            try:
                                R.rsa_encrypt(pub, 'OAEP' if pad == P.OAEP else 'PKCS1', hid, msg)
                                asym_ok = True
                            except Exception:
                                asym_ok = False
                        pp = dict(p, key=key[:8])   # keep the Coq term small: the key is compared by its first bytes
                        if c is not None:
                            c = dict(c, key=c['key'][:8])
                        cases.append('KEnc %s %s %s %s None None %s %s' % (
                            enc_params_term(pp), cp.byts(msg[:4]), outcome_term(o), call_term(c), cp.z(len(v['cipher_text']) if o == 'done' else -1),
                            cp.boolean(asym_ok)))
                        meta.append(('rsa_encrypt', pj(dict(p, key=b'')), ln, o))
                        if o != 'done':
                            continue
                        ct = v['cipher_text']
                        kind = 'OAEP' if pad == P.OAEP else 'PKCS1'
                        if len(ct) != kbytes:
                            viol(ctx, 'encrypt', 'RSA ciphertext length is not the modulus length', dict(p, key=b''), {'len': len(ct)})
                        if R.rsa_decrypt(priv, kind, hid, ct) != msg:
                            viol(ctx, 'encrypt', 'reference RSA decrypt of the engine ciphertext is not the message', dict(p, key=b''), {'msg': msg.hex()})
                        for src, cts in (('engine', ct), ('reference', R.rsa_encrypt(pub, kind, hid, msg))):
                            o2, v2, calls2 = call(eng.decrypt, A.RSA, priv, cts, padding_method=pad, hashing_algorithm=h)
                            c2 = last_call(calls2, 'rsacrypt')
                            if o2 != 'done' or v2 != msg:
                                viol(ctx, 'decrypt', 'RSA Decrypt does not invert Encrypt (%s ciphertext)' % src, dict(p, key=b''), {'msg': msg.hex(), 'outcome': o2})
                            if src == 'engine':
                                dp = dict(p, key=priv[:8], key_loads=True)
                                if c2 is not None:
                                    c2 = dict(c2, key=c2['key'][:8])
                                cases.append('KDec %s %s %s %s %s true' % (enc_params_term(dp), cp.byts(cts[:4]), outcome_term(o2), call_term(c2), cp.byts(b'')))
                                meta.append(('rsa_decrypt', pj(dict(p, key=b'')), ln, o2))
                        # wrong key must not decrypt to the message.  Only for messages of 16+ bytes: PKCS1v15 decryption
                        # uses implicit rejection (a wrong key yields a pseudo-random message, which can be the empty one)
                        o3, v3, _ = call(eng.decrypt, A.RSA, others[size][1], ct, padding_method=pad, hashing_algorithm=h)
                        if o3 == 'done' and v3 == msg and len(msg) >= 16:
                            viol(ctx, 'decrypt', 'RSA decrypt with another key returned the message', dict(p, key=b''), {})
        # cipher texts of the wrong length / random bytes / garbled: the backend's refusal is CryptographicFailure (fix 2eb33d4);
        # where the reference path decrypts (PKCS1v15 implicit rejection is deterministic) the engine must agree
        for pad, h in [(P.PKCS1v15, None), (P.OAEP, H.SHA_1), (P.OAEP, H.SHA_256)]:
            hid = hid_of_hash(h)
            kind = 'OAEP' if pad == P.OAEP else 'PKCS1'
            good = R.rsa_encrypt(pub, kind, hid, b'sixteen byte msg')
            variants = [('random', rbytes(rng, kbytes)), ('short', rbytes(rng, kbytes - 1)), ('long', rbytes(rng, kbytes + 1)),
                        ('empty', b''), ('garbled', flip(good, rng.randrange(kbytes))), ('zero-prefixed', b'\x00' + good),
                        ('truncated', good[:-1]), ('all-ones', b'\xff' * kbytes)]
            for label, cts in variants:
                try:
                    refpt = R.rsa_decrypt(priv, kind, hid, cts)
                    asym_ok = True
                except Exception:
                    refpt, asym_ok = None, False
                o, v, calls = call(eng.decrypt, A.RSA, priv, cts, padding_method=pad, hashing_algorithm=h)
                ctx.count('rsa_decrypt.%s.%s' % (label, o.split(':')[0]))
                ctx.case_seen(('rsadec', size, ev(pad), ev(h), label))
                c2 = last_call(calls, 'rsacrypt')
                if c2 is not None:
                    c2 = dict(c2, key=c2['key'][:8])
                dp = dict(alg=A.RSA, key=priv[:8], key_loads=True, mode=None, pad=pad, iv=None, aad=None, taglen=None, hash=h)
                cases.append('KDec %s %s %s %s %s %s' % (enc_params_term(dp), cp.byts(cts[:4]), outcome_term(o), call_term(c2), cp.byts(b''),
                                                       cp.boolean(asym_ok)))
                meta.append(('rsa_decrypt/' + label, pj(dict(dp, key=b'')), len(cts), o))
                pd = dict(pad=pad, hash=h, size=size, variant=label)
                if o.startswith('crash') or o.startswith('kmip:'):
                    viol(ctx, 'decrypt', 'RSA decrypt of a malformed cipher text left with ' + o, pd, {'ct': cts.hex()[:200]})
                if asym_ok and (o != 'done' or v != refpt):
                    viol(ctx, 'decrypt', 'RSA decrypt disagrees with the reference on a cipher text the backend accepts', pd, {'ct': cts.hex()[:200]})
                if label in ('garbled',) and kind == 'OAEP' and o == 'done':
                    viol(ctx, 'decrypt', 'OAEP accepted a modified cipher text', pd, {'ct': cts.hex()[:200]})
        # decrypt-side rejections
        for pad, h, keyk in [(P.PSS, None, 'good'), (None, None, 'good'), (P.OAEP, None, 'good'), (P.OAEP, H.MD2, 'good'), (P.OAEP, H.SHA_1, 'garbage'), (P.PKCS1v15, None, 'garbage')]:
            key = priv if keyk == 'good' else garbage
            p = dict(alg=A.RSA, key=key[:8], key_loads=(keyk == 'good'), mode=None, pad=pad, iv=None, aad=None, taglen=None, hash=h)
            o, v, calls = call(eng.decrypt, A.RSA, key, bytes(kbytes), padding_method=pad, hashing_algorithm=h)
            cases.append('KDec %s %s %s PNoCall %s false' % (enc_params_term(p), cp.byts(b'\x00'), outcome_term(o), cp.byts(b'')))
            meta.append(('rsa_decrypt_reject', pj(p), 0, o))
    # ---------------- signatures
    dsas = [None, DSA.MD5_WITH_RSA_ENCRYPTION, DSA.SHA1_WITH_RSA_ENCRYPTION, DSA.SHA224_WITH_RSA_ENCRYPTION,
            DSA.SHA256_WITH_RSA_ENCRYPTION, DSA.SHA384_WITH_RSA_ENCRYPTION, DSA.SHA512_WITH_RSA_ENCRYPTION,
            DSA.MD2_WITH_RSA_ENCRYPTION, DSA.DSA_WITH_SHA1, DSA.RSASSA_PSS]
    n = 0
    for size in sizes:
        pub, priv = rsa_cache[size]
        for dsa, alg, h, pad, keyk in itertools.product(
                dsas, [None, A.RSA, A.DSA], [None, H.SHA_256, H.SHA_1, H.SHA_512, H.MD5, H.MD2],
                [None, P.PSS, P.PKCS1v15, P.OAEP], ['good', 'garbage']):
            if keyk == 'garbage' and not (h in (None, H.SHA_256) and dsa in (None, DSA.SHA256_WITH_RSA_ENCRYPTION)):
                continue
            if h in (H.SHA_512, H.MD5) and dsa not in (None, DSA.SHA512_WITH_RSA_ENCRYPTION):
                continue
            if quick and size == 2048 and (n % 6):
                n += 1
                continue
            if size == 1024 and h == H.SHA_512 and pad == P.PSS:
                pass    # PSS max salt with SHA-512 on 1024 bits still fits (128 - 64 - 2 = 62)
            n += 1
            p = dict(dsa=dsa, alg=alg, hash=h, pad=pad)
            msg = rbytes(rng, [0, 1, 15, 16, 17, 1000][n % 6])
            skey = priv if keyk == 'good' else garbage
            vkey = pub if keyk == 'good' else garbage
            o, sig, calls = call(eng.sign, dsa, alg, h, pad, skey, msg)
            ctx.count('sign.%s' % o.split(':')[0])
            ctx.case_seen(('sign', size, pj(p), keyk))
            cases.append('KSign %s %s %s' % (sig_params_term(p, keyk == 'good'), outcome_term(o), call_term(last_call(calls, 'rsasig'))))
            meta.append(('sign', dict(pj(p), size=size, key=keyk), len(msg), o))
            if o.startswith('kmip:'):
                viol(ctx, 'sign', 'unexpected KMIP error class ' + o, p)
            # verify with the same parameters
            test_sig = sig if o == 'done' else bytes(size // 8)
            ov, ok, callsv = call(eng.verify_signature, vkey, msg, test_sig, pad, signing_algorithm=alg, hashing_algorithm=h,
                                  digital_signature_algorithm=dsa)
            ctx.count('verify.%s' % ov.split(':')[0])
            cases.append('KVerify %s %s %s' % (sig_params_term(p, keyk == 'good'), outcome_term(ov), call_term(last_call(callsv, 'rsasig'))))
            meta.append(('verify', dict(pj(p), size=size, key=keyk), len(msg), ov))
            if ov.startswith('crash') or ov.startswith('kmip:'):
                viol(ctx, 'verify_signature', 'left with ' + ov, p)
            if o != 'done':
                if ov == 'done' and ok:
                    viol(ctx, 'verify_signature', 'a zero signature verifies', p)
                continue
            hid = hid_of_dsa(dsa) if dsa is not None else hid_of_hash(h)
            kind = 'PSS' if pad == P.PSS else 'PKCS1'
            if len(sig) != size // 8:
                viol(ctx, 'sign', 'signature length is not the modulus length', p, {'len': len(sig)})
            if not R.rsa_verify(pub, kind, hid, msg, sig):
                viol(ctx, 'sign', 'the reference verifier rejects the engine signature (hash/padding as the parameters say)', p,
                     {'msg': msg.hex()[:100], 'size': size})
            if kind == 'PKCS1' and R.rsa_sign(priv, kind, hid, msg) != sig:
                viol(ctx, 'sign', 'PKCS1v15 signature differs from the reference signature', p, {'msg': msg.hex()[:100]})
            # SignatureVerify valid exactly for Sign's signatures (consistent parameters: the selected hash named once)
            consistent = dict(p)
            if dsa is not None:
                consistent.update(hash=None, alg=None)
            def verify(key, m, s, q=consistent):
                return call(eng.verify_signature, key, m, s, q['pad'], signing_algorithm=q['alg'], hashing_algorithm=q['hash'],
                            digital_signature_algorithm=q['dsa'])
            o1, r1, _ = verify(pub, msg, sig)
            if o1 != 'done' or r1 is not True:
                viol(ctx, 'verify_signature', 'a signature made by Sign with the matching key is not reported valid', p,
                     {'outcome': o1, 'result': str(r1), 'size': size})
            o2, r2, _ = verify(pub, flip(msg, rng.randrange(max(len(msg), 1))) if msg else b'x', sig)
            if o2 != 'done' or r2 is not False:
                viol(ctx, 'verify_signature', 'a signature over a different message is not reported invalid', p, {'outcome': o2, 'result': str(r2)})
            o3, r3, _ = verify(others[size][0], msg, sig)
            if o3 != 'done' or r3 is not False:
                viol(ctx, 'verify_signature', 'a signature checked with another key is not reported invalid', p, {'outcome': o3, 'result': str(r3)})
            o4, r4, _ = verify(pub, msg, flip(sig, rng.randrange(len(sig))))
            if o4 != 'done' or r4 is not False:
                viol(ctx, 'verify_signature', 'a modified signature is not reported invalid', p, {'outcome': o4, 'result': str(r4)})
            # a signature whose length is not the modulus length is never valid: leading / trailing zero octets, truncation
            for label, s2 in (('zero-prefixed', b'\x00' + sig), ('two zero octets prefixed', b'\x00\x00' + sig), ('zero-suffixed', sig + b'\x00'),
                              ('first octet dropped', sig[1:]), ('last octet dropped', sig[:-1]), ('empty', b'')):
                o7, r7, _ = verify(pub, msg, s2)
                if o7 == 'done' and r7 is not False:
                    if label == 'first octet dropped' and sig[0] == 0:
                        ctx.violation(dict(PSS_ZERO_SIG, padding=kind if kind == 'PSS' else 'PKCS1v15'), {'size': size, 'msg': msg.hex()[:100], 'signature': s2.hex()},
                                      'C06 verify_signature: a genuine signature with its leading zero octet dropped is reported valid')
                    else:
                        viol(ctx, 'verify_signature', 'a genuine signature changed in length (%s) is reported valid' % label, p,
                             {'size': size, 'signature': s2.hex()[:80], 'msg': msg.hex()[:100]})
                if o7.startswith('crash'):
                    viol(ctx, 'verify_signature', 'left with ' + o7, p, {'variant': label})
            rs = R.rsa_sign(priv, kind, hid, msg)
            o5, r5, _ = verify(pub, msg, rs)
            if o5 != 'done' or r5 is not True:
                viol(ctx, 'verify_signature', 'a reference signature with the same parameters is not reported valid', p, {'outcome': o5})
            # the same parameters given the other way round (dsa <-> separate hash) select the same plan
            if dsa is not None and hid is not None:
                hname = {v: k for k, v in HASH_ID.items()}[hid]
                alt = dict(dsa=None, alg=A.RSA, hash=H[hname], pad=pad)
                o6, r6, _ = verify(pub, msg, sig, alt)
                if o6 != 'done' or r6 is not True:
                    viol(ctx, 'verify_signature', 'signature by digital-signature-algorithm not valid under the equivalent separate parameters', p, {'outcome': o6})
            if ov == 'done' and ok is not True:
                viol(ctx, 'verify_signature', 'verify with exactly the Sign parameters reports invalid', p, {})


# ============================================================================ message LENGTHS for every data-consuming operation
LONG_LENGTHS = [0, 1, 4095, 4096, 4097, 65535, 65536, 65537, 131072 + 5, (1 << 20) + 3]


def long_lengths(bs):
    return sorted(set(LONG_LENGTHS + [bs - 1, bs, bs + 1]))


def run_long_messages(ctx, eng, rsa_cache):
    """Sign, SignatureVerify, MAC, Encrypt, Decrypt, hash / KDF derivation data over lengths up to 1 MiB + 3, each against
    the independent reference, with a change in the LAST byte (and in the byte after the last 64 KiB boundary)."""
    rng = ctx.subrng('long')

    def tails(m):
        out = [('last byte', flip(m, len(m) - 1))] if m else []
        if len(m) > 65536 and len(m) % 65536:
            out.append(('first byte of the last partial 64 KiB piece', flip(m, (len(m) // 65536) * 65536)))
        return out
    base = rbytes(rng, 4096)

    def message(n):
        reps = n // len(base) + 1
        m = bytearray((base * reps)[:n])
        for i in range(0, n, 977):           # make the pieces differ
            m[i] = (m[i] + i // 977) & 255
        return bytes(m)
    msgs = {}
    # ---- MAC
    for alg, klen in ((A.HMAC_SHA256, 32), (A.HMAC_SHA512, 64), (A.HMAC_SHA1, 20), (A.AES, 16), (A.TRIPLE_DES, 24)):
        key = rbytes(rng, klen)
        bs = block_bytes(alg) if alg.name in CIPHER_OF else 64
        for n in long_lengths(bs):
            m = msgs.setdefault(n, message(n))
            o, v, _ = call(eng.mac, alg, key, m)
            ctx.count('long.mac.%s' % o.split(':')[0])
            ctx.case_seen(('long-mac', alg.name, n))
            if alg.name in HMAC_HASH:
                ref = R.hmac_fn(HMAC_HASH[alg.name])(key, m)
            else:
                enc, _, b2 = R.block_fns(CIPHER_OF[alg.name], key)
                ref = R.cmac(enc, b2, m)
            pd = {'alg': alg, 'key': key, 'message_length': n}
            if o != 'done' or v != ref:
                viol(ctx, 'mac', 'MAC differs from the independent reference', pd, {'outcome': o, 'ref': ref.hex()})
            for label, m2 in tails(m):
                o2, v2, _ = call(eng.mac, alg, key, m2)
                if o2 == 'done' and v2 == v:
                    viol(ctx, 'mac', 'MAC unchanged although the message was changed in its %s' % label, pd, {})
    # ---- Encrypt / Decrypt
    for alg, klen, mode, pad in ((A.AES, 16, M.CBC, P.PKCS5), (A.AES, 32, M.CTR, None), (A.AES, 24, M.GCM, None), (A.AES, 16, M.ECB, P.ANSI_X923),
                                 (A.TRIPLE_DES, 24, M.CBC, P.PKCS5), (A.CAMELLIA, 16, M.CFB, None), (A.BLOWFISH, 16, M.OFB, None), (A.RC4, 16, None, None)):
        key = rbytes(rng, klen)
        bs = block_bytes(alg) or 8
        for n in long_lengths(bs):
            if n > 140000 and (alg, mode) not in ((A.AES, M.CBC), (A.AES, M.GCM), (A.RC4, None)):
                continue
            m = msgs.setdefault(n, message(n))
            gcm = mode == M.GCM
            iv = None if mode in (M.ECB, None) else rbytes(rng, 12 if gcm else bs)
            aad = b'header' if gcm else None
            p = dict(alg=alg, key=key, mode=mode, pad=pad, iv=iv, aad=aad, taglen=16 if gcm else None)
            o, v, _ = call(eng.encrypt, alg, key, m, cipher_mode=mode, padding_method=pad, iv_nonce=iv, auth_additional_data=aad,
                           auth_tag_length=p['taglen'])
            ctx.count('long.encrypt.%s' % o.split(':')[0])
            ctx.case_seen(('long-enc', alg.name, ev(mode), n))
            pd = dict(pj(p), message_length=n)
            if o != 'done':
                viol(ctx, 'encrypt', 'a supported tuple failed on a long message: ' + o, pd, {})
                continue
            ct, tag = v['cipher_text'], v.get('auth_tag')
            rct, rtag = ref_encrypt(p, iv, m)
            if rct != ct or (gcm and rtag != tag):
                k = next((i for i in range(min(len(ct), len(rct))) if ct[i] != rct[i]), min(len(ct), len(rct)))
                viol(ctx, 'encrypt', 'ciphertext differs from the independent reference', pd, {'first_difference_at': k, 'lengths': [len(ct), len(rct)]})
            o2, v2, _ = call(eng.decrypt, alg, key, ct, cipher_mode=mode, padding_method=pad, iv_nonce=iv, auth_additional_data=aad, auth_tag=tag)
            if o2 != 'done' or v2 != m:
                viol(ctx, 'decrypt', 'Decrypt does not invert Encrypt', pd, {'outcome': o2})
            # the reference's cipher text of the same message decrypts to it as well
            o3, v3, _ = call(eng.decrypt, alg, key, rct, cipher_mode=mode, padding_method=pad, iv_nonce=iv, auth_additional_data=aad, auth_tag=rtag)
            if o3 != 'done' or v3 != m:
                viol(ctx, 'decrypt', 'Decrypt of the reference cipher text is not the message', pd, {'outcome': o3})
            if gcm and ct:
                for label, c2 in tails(ct):
                    o4, v4, _ = call(eng.decrypt, alg, key, c2, cipher_mode=mode, iv_nonce=iv, auth_additional_data=aad, auth_tag=tag)
                    if o4 == 'done':
                        viol(ctx, 'decrypt', 'GCM accepted a cipher text changed in its %s' % label, pd, {})
    # ---- derivation data
    key = rbytes(rng, 16)
    for method in (D.HASH, D.HMAC, D.NIST800_108_C):
        for h in (H.SHA_256, H.SHA_512, H.MD5):
            hid = HASH_ID[h.name]
            for n in long_lengths(64):
                if n > 140000 and h != H.SHA_256:
                    continue
                m = msgs.setdefault(n, message(n))
                q = dict(method=method, len=16, data=m, key=None if method == D.HASH else key, hash=h, salt=None, iters=None)
                o, v, _ = call(eng.derive_key, method, 16 if method != D.HASH else R.DIGEST[hid], derivation_data=m,
                               key_material=q['key'], hash_algorithm=h)
                ctx.count('long.derive.%s' % o.split(':')[0])
                ctx.case_seen(('long-derive', method.name, h.name, n))
                ref = ref_derive(q, hid)
                pd = {'method': method, 'hash': h, 'data_length': n}
                if o != 'done' or v != ref:
                    viol(ctx, 'derive_key', 'derived bytes differ from the independent reference', pd, {'outcome': o})
                for label, m2 in tails(m):
                    o2, v2, _ = call(eng.derive_key, method, len(ref), derivation_data=m2, key_material=q['key'], hash_algorithm=h)
                    if o2 == 'done' and v2 == v:
                        viol(ctx, 'derive_key', 'derived bytes unchanged although the data was changed in its %s' % label, pd, {})
    # ---- Sign / SignatureVerify
    if 1024 in rsa_cache:
        pub, priv = rsa_cache[1024]
        for dsa, hid, pad, kind in ((DSA.SHA256_WITH_RSA_ENCRYPTION, 4, P.PSS, 'PSS'), (DSA.SHA1_WITH_RSA_ENCRYPTION, 2, P.PKCS1v15, 'PKCS1'),
                                    (DSA.SHA512_WITH_RSA_ENCRYPTION, 6, P.PKCS1v15, 'PKCS1')):
            for n in long_lengths(64):
                m = msgs.setdefault(n, message(n))
                pd = {'dsa': dsa, 'pad': pad, 'message_length': n}
                o, sig, _ = call(eng.sign, dsa, None, None, pad, priv, m)
                ctx.count('long.sign.%s' % o.split(':')[0])
                ctx.case_seen(('long-sign', dsa.name, ev(pad), n))
                if o != 'done':
                    viol(ctx, 'sign', 'Sign failed on a long message: ' + o, pd, {})
                    continue
                if not R.rsa_verify(pub, kind, hid, m, sig):
                    viol(ctx, 'sign', 'the reference verifier rejects the engine signature', pd, {})
                if kind == 'PKCS1' and R.rsa_sign(priv, kind, hid, m) != sig:
                    viol(ctx, 'sign', 'PKCS1v15 signature differs from the reference signature', pd, {})

                def vf(mm, ss):
                    return call(eng.verify_signature, pub, mm, ss, pad, digital_signature_algorithm=dsa)
                o1, r1, _ = vf(m, sig)
                if o1 != 'done' or r1 is not True:
                    viol(ctx, 'verify_signature', 'a signature made by Sign is not reported valid', pd, {'outcome': o1})
                o2, r2, _ = vf(m, R.rsa_sign(priv, kind, hid, m))
                if o2 != 'done' or r2 is not True:
                    viol(ctx, 'verify_signature', 'a correct signature made outside the engine is not reported valid', pd, {'outcome': o2})
                for label, m2 in tails(m):
                    o3, r3, _ = vf(m2, sig)
                    if o3 != 'done' or r3 is not False:
                        viol(ctx, 'verify_signature', 'a message changed in its %s is not reported invalid' % label, pd, {'outcome': o3, 'result': str(r3)})


# ============================================================================ through the server engine handlers
def srv_outcome(item):
    if item['status'] == 'SUCCESS':
        return 'done'
    return {'INVALID_FIELD': 'IF', 'CRYPTOGRAPHIC_FAILURE': 'CF', 'GENERAL_FAILURE': 'crash:GENERAL_FAILURE'}.get(
        item['reason'], 'kmip:' + str(item['reason']))


def hx(x):
    return None if x is None else bytes.fromhex(x)


def run_server(ctx, cases, meta, rsa_cache):
    """The same grid points through _process_encrypt/_decrypt/_mac/_derive_key/_get(wrap)/_sign/_signature_verify/_create*.
    The handlers must hand the payload fields to the CryptographyEngine unchanged: same plan, same bytes."""
    import kdrv
    from kmip.core import objects as co, attributes as ca
    rng = ctx.subrng('server')
    t = tables()
    CM = enums.CryptographicUsageMask
    srv = kdrv.Engine(workdir=ctx.work)
    quick = ctx.tier == 'quick'

    def req(item, version=(1, 4)):
        del REC[:]
        r = srv.request([item], version=version)
        it = r['items'][0]
        return srv_outcome(it), it, list(REC)

    def reqn(items, version=(1, 4)):
        del REC[:]
        r = srv.request(list(items), version=version)
        return [(srv_outcome(it), it) for it in r['items']]

    def reg_sym(alg, key, mask):
        o, it, _ = req(kdrv.register(secret=kdrv.symmetric_key_secret(key, alg, len(key) * 8), mask=mask))
        if o != 'done':
            return None         # registration is not this property's concern
        uid = kdrv.first_uid(it)
        req(kdrv.activate(uid))
        return uid
    try:
        allmask = [CM.ENCRYPT, CM.DECRYPT, CM.MAC_GENERATE, CM.DERIVE_KEY, CM.WRAP_KEY]
        # ---------------- Encrypt / Decrypt
        tuples = sym_tuples(ctx, ctx.subrng('server-grid'))
        if quick:
            tuples = [x for k, x in enumerate(tuples) if k % 4 == rng.randrange(4)]
        # every authenticated mode over the EMPTY message (and one byte), both protocol versions (ti alternates)
        for aad in (None, b'header'):
            for taglen in (12, 16):
                for ivk in ('absent', 'right'):
                    for fl in (0, 0, 1):
                        tuples.append(dict(alg=A.AES, bits=128, mode=M.GCM, pad=None, ivk=ivk, aad=aad, taglen=taglen, force_len=fl))
        uids = {}
        for ti, tp in enumerate(tuples):
            alg = tp['alg']
            if alg is None or alg.value not in t['sym']:
                kalg, bits = A.AES, 128
            else:
                kalg, bits = alg, tp['bits']
            if bits == 24:
                continue        # such a key cannot be told apart from registration problems
            kk = (kalg, bits)
            if kk not in uids:
                key = rbytes(rng, bits // 8)
                uids[kk] = (reg_sym(kalg, key, allmask), key)
            uid, key = uids[kk]
            if uid is None:
                continue
            lens = msg_lengths(alg)
            msg = rbytes(rng, tp.get('force_len', lens[ti % 6]))
            iv = make_iv(rng, tp)
            p = dict(alg=alg, key=key, mode=tp['mode'], pad=tp['pad'], iv=iv, aad=tp['aad'], taglen=tp['taglen'])
            cpar = kdrv.crypto_params(cryptographic_algorithm=alg, block_cipher_mode=tp['mode'], padding_method=tp['pad'],
                                      tag_length=tp['taglen'])
            ver = (1, 4) if ti % 2 == 0 else (2, 0)
            o, it, calls = req(kdrv.encrypt(uid, cpar, data=msg, iv=iv, aad=tp['aad']), ver)
            ctx.count('server.encrypt.%s' % o.split(':')[0])
            ctx.case_seen(('srv-enc', pj(p), len(msg)))
            if o.startswith('kmip:'):
                viol(ctx, 'Encrypt', 'handler answered ' + o, p)
                continue
            pl = it['payload'] or {}
            ct, iv_ret, tag = hx(pl.get('data')), hx(pl.get('iv_counter_nonce')), hx(pl.get('auth_tag'))
            c = last_call(calls, 'cipher')
            in_coq = len(msg) <= 64
            if in_coq:
                cases.append('KEnc %s %s %s %s %s %s %s false' % (
                    enc_params_term(p), cp.byts(msg), outcome_term(o), call_term(c, key), ob(iv_ret),
                    oz(None if tag is None else len(tag)), cp.z(-1 if ct is None else len(ct))))
                meta.append(('server/encrypt', pj(p), len(msg), o))
            if o != 'done':
                continue
            used_iv = iv_ret if iv_ret is not None else iv
            needs_iv = tp['mode'] in (M.CBC, M.CFB, M.OFB, M.CTR, M.GCM) and alg != A.RC4
            if needs_iv and used_iv is None:
                viol(ctx, 'Encrypt', 'IV omitted in the request: the response does not carry the generated IV', p,
                     {'msg': msg.hex()[:200], 'version': '%d.%d' % ver})
            ref = ref_encrypt(p, used_iv, msg) if not (needs_iv and used_iv is None) else None
            if ref is not None and (ref[0] != ct or (ref[1] is not None and tag != ref[1][:len(tag or b'')])):
                viol(ctx, 'Encrypt', 'response differs from the independent reference', p, {'msg': msg.hex()[:200]})
            # Decrypt with exactly what the response carried (and the IV of the request, if there was one)
            o2, it2, calls2 = req(kdrv.decrypt(uid, cpar, data=ct, iv=used_iv, aad=tp['aad'], tag=tag), ver)
            pl2 = it2['payload'] or {}
            out = hx(pl2.get('data'))
            ctx.count('server.decrypt.%s' % o2.split(':')[0])
            if o2 != 'done' or out != msg:
                viol(ctx, 'Decrypt', 'Decrypt does not invert Encrypt through the server', p, {'msg': msg.hex()[:200], 'outcome': o2})
            if in_coq:
                dp = dict(p, iv=used_iv)
                cases.append('KDec %s %s %s %s %s false' % (
                    enc_params_term(dp, dec_tag=tag), cp.byts(ct), outcome_term(o2), call_term(last_call(calls2, 'cipher'), key),
                    cp.byts(out if o2 == 'done' and out is not None else b'')))
                meta.append(('server/decrypt', pj(dp), len(ct), o2))
            if tp['mode'] == M.GCM and tag:
                for label, kw in (('ct', dict(data=flip(ct) if ct else b'\x00', tag=tag, aad=tp['aad'], iv=used_iv)),
                                  ('tag', dict(data=ct, tag=flip(tag), aad=tp['aad'], iv=used_iv)),
                                  ('aad', dict(data=ct, tag=tag, aad=flip(tp['aad']) if tp['aad'] else b'x', iv=used_iv)),
                                  ('nonce', dict(data=ct, tag=tag, aad=tp['aad'], iv=flip(used_iv) if used_iv else b'\x00' * 12))):
                    o3, it3, _ = req(kdrv.decrypt(uid, cpar, **kw), ver)
                    if o3 == 'done':
                        viol(ctx, 'Decrypt', 'GCM accepted a modified %s through the server%s' % (label, '' if ct else ' (empty message)'), p,
                             {'msg': msg.hex()[:100], 'version': '%d.%d' % ver})
        # ---------------- MAC
        for alg in [A.HMAC_SHA1, A.HMAC_SHA224, A.HMAC_SHA256, A.HMAC_SHA384, A.HMAC_SHA512, A.HMAC_MD5,
                    A.AES, A.TRIPLE_DES, A.BLOWFISH, A.CAMELLIA, A.CAST5, A.IDEA, A.RC4, A.RSA]:
          for klen in ([16, 64, 65, 100, 128, 129] if alg.name in HMAC_HASH else [16]):
            kalg = alg if alg.value in t['sym'] else A.AES
            key = rbytes(rng, klen)
            uid = reg_sym(kalg, key, allmask)
            if uid is None:
                continue
            for ln in (msg_lengths(kalg)[1:] if klen == 16 else [17]):
                data = rbytes(rng, ln)
                o, it, calls = req(kdrv.mac(uid, kdrv.crypto_params(cryptographic_algorithm=alg), data=data))
                ctx.count('server.mac.%s' % o.split(':')[0])
                ctx.case_seen(('srv-mac', alg.name, ln))
                v = hx((it['payload'] or {}).get('mac_data'))
                c = last_call(calls)
                if c is not None and c['k'] not in ('hmac', 'cmac'):
                    c = None
                if ln <= 64:
                    cases.append('KMac %s %s %s %s %s %s' % (cp.z(alg.value), cp.byts(key), cp.byts(data), outcome_term(o),
                                                          call_term(c, key), cp.z(len(v) if o == 'done' else -1)))
                    meta.append(('server/mac', {'alg': alg.name, 'key': key.hex()}, ln, o))
                if o == 'done':
                    if alg.name in HMAC_HASH:
                        ref = R.hmac_fn(HMAC_HASH[alg.name])(key, data)
                    else:
                        enc, _, bs = R.block_fns(CIPHER_OF[alg.name], key)
                        ref = R.cmac(enc, bs, data)
                    if ref != v:
                        viol(ctx, 'MAC', 'response differs from the independent reference', {'alg': alg, 'key': key}, {'data': data.hex()[:200]})
        # ---------------- DeriveKey (+ the handler's length step) and Get with a wrapping specification
        base_key = rbytes(rng, 16)
        base = reg_sym(A.AES, base_key, allmask)
        kek_key = rbytes(rng, 32)
        kek = reg_sym(A.AES, kek_key, allmask)
        # both object types, every method, requested lengths below / at / above the natural output of the method
        # (digest size for HASH, cipher text length for ENCRYPT; the KDFs have none - the digest size is used)
        dtuples = []
        OTS = (enums.ObjectType.SYMMETRIC_KEY, enums.ObjectType.SECRET_DATA)
        for method in (D.HMAC, D.HASH, D.PBKDF2, D.NIST800_108_C):
            for h in (H.MD5, H.SHA_1, H.SHA_224, H.SHA_256, H.SHA_384, H.SHA_512):
                n = R.DIGEST[HASH_ID[h.name]]
                for nbytes in sorted({1, 8, 16, 32, n - 1, n, n + 1, n + 8}):
                    for ot in OTS:
                        dtuples.append((method, h, nbytes, ot))
        for mode, pad in ((M.CBC, P.PKCS5), (M.ECB, P.ANSI_X923), (M.CTR, None), (M.CFB, None)):
            n = 32 if pad is not None else 24         # 24 bytes of derivation data, padded to 32 in CBC / ECB
            for nbytes in sorted({1, 8, 16, n - 1, n, n + 1}):
                for ot in OTS:
                    dtuples.append((D.ENCRYPT, (mode, pad), nbytes, ot))
        for method, h, nbytes, ot in dtuples:
            data = rbytes(rng, 24)
            salt = rbytes(rng, 8)
            bits = nbytes * 8
            if method == D.ENCRYPT:
                mode, pad = h
                iv = rbytes(rng, 16)
                cpar = kdrv.crypto_params(cryptographic_algorithm=A.AES, block_cipher_mode=mode, padding_method=pad)
                dpar = ca.DerivationParameters(cryptographic_parameters=cpar, initialization_vector=iv, derivation_data=data)
                prim = ref_encrypt(dict(alg=A.AES, key=base_key, mode=mode, pad=pad, aad=None), iv, data)[0]
                pdesc = dict(method=method, mode=mode, pad=pad, bits=bits, object_type=ot)
            else:
                hid = HASH_ID[h.name]
                with_data = method != D.HASH       # the handler always supplies the key: HASH needs the data absent
                dpar = ca.DerivationParameters(cryptographic_parameters=kdrv.crypto_params(hashing_algorithm=h),
                                               derivation_data=data if with_data else None,
                                               salt=salt if method in (D.PBKDF2, D.HMAC) else None,
                                               iteration_count=3 if method == D.PBKDF2 else None)
                prim = ref_derive(dict(method=method, len=nbytes, data=data if with_data else None, key=base_key, salt=salt, iters=3), hid)
                pdesc = dict(method=method, hash=h, bits=bits, object_type=ot)
            if ot == enums.ObjectType.SYMMETRIC_KEY:
                attrs = kdrv.sym_attrs(A.AES, bits, [CM.ENCRYPT])
            else:
                attrs = kdrv.sym_attrs(None, bits, [CM.DERIVE_KEY])
            o, it, calls = req(kdrv.derive_key([base], method, dpar, attrs=attrs, otype=ot))
            ctx.count('server.derive.%s.%s' % (method.name, o.split(':')[0]))
            ctx.case_seen(('srv-derive', pj(pdesc)))
            stored = b''
            if o == 'done':
                o2, it2, _ = req(kdrv.get(kdrv.first_uid(it)))
                stored = hx(it2['payload']['secret']['key_block']['key_value']['key_material'])
                if len(stored) != nbytes:
                    viol(ctx, 'DeriveKey', 'derived key material does not have exactly the requested length', pdesc,
                         {'requested_bytes': nbytes, 'stored_bytes': len(stored), 'stored': stored.hex()})
                if stored != prim[:nbytes]:
                    viol(ctx, 'DeriveKey', 'derived key differs from the independent reference', pdesc, {'got': stored.hex(), 'ref': prim[:nbytes].hex()})
                # key wrapping of the derived key
                if nbytes in (16, 24, 32, 8) and ot == enums.ObjectType.SYMMETRIC_KEY:
                    spec = co.KeyWrappingSpecification(
                        wrapping_method=W.ENCRYPT,
                        encryption_key_information=co.EncryptionKeyInformation(
                            unique_identifier=kek, cryptographic_parameters=kdrv.crypto_params(block_cipher_mode=M.NIST_KEY_WRAP)),
                        encoding_option=enums.EncodingOption.NO_ENCODING)
                    o3, it3, calls3 = req(kdrv.get(kdrv.first_uid(it), wrap=spec))
                    ctx.count('server.get_wrap.%s' % o3.split(':')[0])
                    wv = hx(it3['payload']['secret']['key_block']['key_value']['key_material']) if o3 == 'done' else None
                    cases.append('KWrap %s %s %s %s %s %s %s' % (oz(W.ENCRYPT.value), oz(M.NIST_KEY_WRAP.value), cp.byts(stored), cp.byts(kek_key),
                                                               outcome_term(o3), call_term(last_call(calls3, 'wrap')), cp.z(len(wv) if wv else -1)))
                    meta.append(('server/get-wrap', pj(pdesc), nbytes, o3))
                    if o3 == 'done':
                        enc, dec, _ = R.block_fns('AES', kek_key)
                        if R.rfc3394_wrap(enc, stored) != wv or R.rfc3394_unwrap(dec, wv) != stored:
                            viol(ctx, 'Get', 'wrapped key differs from the RFC 3394 reference', pdesc, {'got': wv.hex()})
            elif o.startswith('kmip:'):
                viol(ctx, 'DeriveKey', 'handler answered ' + o, pdesc)
            # the handler's truncation step, Coq as comparator: primitive output (reference) vs what was stored
            fin = 'done' if o == 'done' else o
            if o in ('done', 'CF'):
                cases.append('KFinish %s %s %s %s' % (cp.z(nbytes), cp.byts(prim), outcome_term(fin), cp.byts(stored)))
                meta.append(('server/derive-finish', pj(pdesc), nbytes, o))
            else:
                viol(ctx, 'DeriveKey', 'unexpected outcome ' + o, pdesc, {'message': it['message']})
        # ---------------- DeriveKey: which object is the key and where the derivation data comes from
        # 1, 2, 3 identifiers, every (SymmetricKey | SecretData) combination, derivation data explicit in the parameters vs
        # absent (then: the value of the first LATER SecretData, else none), every method.  Reference: key = FIRST object.
        pool = {}
        for kind in 'KS':
            for pos in range(3):
                val = rbytes(rng, 16)
                if kind == 'K':
                    uid_ = reg_sym(A.AES, val, allmask)
                else:
                    o_, it_, _ = req(kdrv.register(otype=enums.ObjectType.SECRET_DATA,
                                                   secret=kdrv.secret_for(enums.ObjectType.SECRET_DATA, val), mask=allmask))
                    uid_ = kdrv.first_uid(it_) if o_ == 'done' else None
                    if uid_:
                        req(kdrv.activate(uid_))
                pool[(kind, pos)] = (uid_, val)
        if all(u for u, _ in pool.values()):
            combos = [c for n in (1, 2, 3) for c in itertools.product('KS', repeat=n)]
            hsel = [H.SHA_256, H.SHA_1, H.SHA_512]
            for ci, combo in enumerate(combos):
                objs = [pool[(kind, pos)] for pos, kind in enumerate(combo)]
                ids = [u for u, _ in objs]
                key0 = objs[0][1]
                later = [v for (u, v), kind in list(zip(objs, combo))[1:] if kind == 'S']
                for explicit in (True, False):
                    given = rbytes(rng, 20) if explicit else None
                    data = given if explicit else (later[0] if later else None)
                    for mi, method in enumerate((D.HMAC, D.NIST800_108_C, D.ENCRYPT, D.HASH, D.PBKDF2)):
                        h = hsel[(ci + mi) % 3]
                        hid = HASH_ID[h.name]
                        salt = rbytes(rng, 8)
                        iv = rbytes(rng, 16)
                        nbytes = 16
                        if method == D.ENCRYPT:
                            cpar = kdrv.crypto_params(cryptographic_algorithm=A.AES, block_cipher_mode=M.CBC, padding_method=P.PKCS5)
                            dpar = ca.DerivationParameters(cryptographic_parameters=cpar, initialization_vector=iv, derivation_data=given)
                            want = None if data is None else ref_encrypt(dict(alg=A.AES, key=key0, mode=M.CBC, pad=P.PKCS5, aad=None), iv, data)[0][:nbytes]
                        else:
                            dpar = ca.DerivationParameters(cryptographic_parameters=kdrv.crypto_params(hashing_algorithm=h),
                                                           derivation_data=given,
                                                           salt=salt if method in (D.PBKDF2, D.HMAC) else None,
                                                           iteration_count=2 if method == D.PBKDF2 else None)
                            if method == D.HASH:
                                want = None if data is not None else R.digest(hid, key0)[:nbytes]     # key and data both present: refused
                            elif method == D.NIST800_108_C and data is None:
                                want = None
                            else:
                                want = ref_derive(dict(method=method, len=nbytes, data=data, key=key0, salt=salt, iters=2), hid)[:nbytes]
                        pdesc = dict(method=method, hash=h, identifiers=''.join(combo),
                                     derivation_data='explicit' if explicit else ('later SecretData' if later else 'absent'))
                        o, it, calls = req(kdrv.derive_key(ids, method, dpar, attrs=kdrv.sym_attrs(A.AES, nbytes * 8, [CM.ENCRYPT])))
                        ctx.count('server.derive_ids.%s.%s' % (method.name, o.split(':')[0]))
                        ctx.case_seen(('srv-derive-ids', pj(pdesc)))
                        w = {'key_object_value': key0.hex(), 'object_values': [v.hex() for _, v in objs],
                             'explicit_data': None if given is None else given.hex(), 'outcome': o, 'message': it['message']}
                        if want is None:
                            if o != 'IF':
                                viol(ctx, 'DeriveKey', 'a derivation whose data is missing (or, for HASH, superfluous) was not refused as invalid field', pdesc, w)
                            continue
                        if o != 'done':
                            viol(ctx, 'DeriveKey', 'a supported derivation failed: ' + o, pdesc, w)
                            continue
                        _, it2, _ = req(kdrv.get(kdrv.first_uid(it)))
                        stored = hx(it2['payload']['secret']['key_block']['key_value']['key_material'])
                        if stored != want:
                            viol(ctx, 'DeriveKey', 'derived key differs from the reference over key = first object, data = explicit data or the first later SecretData', pdesc,
                                 dict(w, got=stored.hex(), ref=want.hex()))
                        # the base objects are only used
                        for (u, v) in objs:
                            _, itb, _ = req(kdrv.get(u))
                            try:
                                kb = itb['payload']['secret']['key_block']['key_value']['key_material']
                            except Exception:
                                kb = None
                            if kb is None or hx(kb) != v:
                                viol(ctx, 'Get', 'stored material of a derivation base object changed', pdesc, w)

        # ---------------- a key that is merely USED keeps computing what it claims (also inside batches, after a commit
        # by a later item of the same request, and after a restart of the engine on the same database)
        kU = rbytes(rng, 16)
        uU = reg_sym(A.AES, kU, allmask)
        kW = rbytes(rng, 32)
        uW = reg_sym(A.AES, kW, allmask)
        iv16 = rbytes(rng, 16)
        msgU = rbytes(rng, 33)
        cbc = kdrv.crypto_params(cryptographic_algorithm=A.AES, block_cipher_mode=M.CBC, padding_method=P.PKCS5)
        ref_ct = ref_encrypt(dict(alg=A.AES, key=kU, mode=M.CBC, pad=P.PKCS5, aad=None), iv16, msgU)[0]
        ref_mac = R.hmac_fn(4)(kU, msgU)
        encW, decW, _ = R.block_fns('AES', kW)
        ref_wrap = R.rfc3394_wrap(encW, kU)

        def wspec():
            return co.KeyWrappingSpecification(
                wrapping_method=W.ENCRYPT,
                encryption_key_information=co.EncryptionKeyInformation(
                    unique_identifier=uW, cryptographic_parameters=kdrv.crypto_params(block_cipher_mode=M.NIST_KEY_WRAP)),
                encoding_option=enums.EncodingOption.NO_ENCODING)

        def material(it):
            try:
                return hx(it['payload']['secret']['key_block']['key_value']['key_material'])
            except Exception:
                return None

        def enc_item():
            return kdrv.encrypt(uU, cbc, data=msgU, iv=iv16)

        def mac_item():
            return kdrv.mac(uU, kdrv.crypto_params(cryptographic_algorithm=A.HMAC_SHA256), data=msgU)

        def judge(label, kind, o, it):
            """One response item about key uU against the references for the REGISTERED key bytes."""
            w = {'after': label, 'registered_key': kU.hex(), 'outcome': o}
            sig = {'history': label}
            if kind == 'get':
                got = material(it)
                if o != 'done' or got != kU:
                    viol(ctx, 'Get', 'stored key material changed by an operation that only uses the key', sig,
                         dict(w, got=None if got is None else got.hex()))
            elif kind == 'wrap':
                got = material(it)
                if o != 'done' or got != ref_wrap:
                    viol(ctx, 'Get', 'wrapped Get differs from the RFC 3394 reference for the registered key', sig,
                         dict(w, got=None if got is None else got.hex(), ref=ref_wrap.hex()))
            elif kind == 'enc':
                got = hx((it['payload'] or {}).get('data'))
                if o != 'done' or got != ref_ct:
                    viol(ctx, 'Encrypt', 'Encrypt no longer matches the reference for the registered key', sig,
                         dict(w, got=None if got is None else got.hex(), ref=ref_ct.hex()))
            elif kind == 'dec':
                got = hx((it['payload'] or {}).get('data'))
                if o != 'done' or got != msgU:
                    viol(ctx, 'Decrypt', 'Decrypt no longer inverts an earlier Encrypt with the same key', sig,
                         dict(w, got=None if got is None else got.hex()))
            elif kind == 'mac':
                got = hx((it['payload'] or {}).get('mac_data'))
                if o != 'done' or got != ref_mac:
                    viol(ctx, 'MAC', 'MAC no longer matches the reference for the registered key', sig,
                         dict(w, got=None if got is None else got.hex(), ref=ref_mac.hex()))

        def check_key(label):
            for kind, item in (('get', kdrv.get(uU)), ('enc', enc_item()), ('mac', mac_item()), ('wrap', kdrv.get(uU, wrap=wspec())),
                               ('dec', kdrv.decrypt(uU, cbc, data=ref_ct, iv=iv16)), ('get', kdrv.get(uU))):
                o, it, _ = req(item)
                ctx.count('server.key_unchanged.%s' % kind)
                judge(label, kind, o, it)

        if uU is not None and uW is not None:
            check_key('registration')
            hpar = ca.DerivationParameters(cryptographic_parameters=kdrv.crypto_params(hashing_algorithm=H.SHA_256),
                                           derivation_data=b'derivation data', salt=b'salt')
            use_ops = [('wrapped Get', 'wrap', lambda: kdrv.get(uU, wrap=wspec())), ('Encrypt', 'enc', enc_item), ('MAC', 'mac', mac_item),
                       ('Decrypt', 'dec', lambda: kdrv.decrypt(uU, cbc, data=ref_ct, iv=iv16)),
                       ('DeriveKey', None, lambda: kdrv.derive_key([uU], D.HMAC, hpar, attrs=kdrv.sym_attrs(A.AES, 128, [CM.ENCRYPT])))]
            commits = [('Create', lambda: kdrv.create(A.AES, 128, mask=[CM.ENCRYPT]))]
            hist = 0
            for uname, ukind, umk in use_ops:
                # (a) the use alone; (b) use + a later item of the same request that commits; (c) use + crypto items with the same key
                plans = [[(uname, ukind, umk)],
                         [(uname, ukind, umk), ('Create', None, commits[0][1])],
                         [(uname, ukind, umk), ('Encrypt', 'enc', enc_item), ('MAC', 'mac', mac_item), ('Get', 'get', lambda: kdrv.get(uU)),
                          ('Create', None, commits[0][1])]]
                for plan in plans:
                    hist += 1
                    label = 'batch [%s]' % '; '.join(n for n, _, _ in plan)
                    res = reqn([mk() for _, _, mk in plan], version=(1, 4) if hist % 2 else (2, 0))
                    ctx.case_seen(('srv-batch', label))
                    ctx.count('server.batch.%d_items' % len(plan))
                    for (n, kind, _), (o, it) in zip(plan, res):
                        if kind:
                            judge(label + ' (item %s inside the batch)' % n, kind, o, it)
                    check_key(label)
            # Activate as the committing item: a fresh key is created and activated next to a wrapped Get
            o, it, _ = req(kdrv.create(A.AES, 128, mask=[CM.ENCRYPT]))
            if o == 'done':
                nu = kdrv.first_uid(it)
                res = reqn([kdrv.get(uU, wrap=wspec()), kdrv.activate(nu)])
                judge('batch [wrapped Get; Activate] (inside)', 'wrap', res[0][0], res[0][1])
                check_key('batch [wrapped Get; Activate]')
            srv.restart()
            check_key('all of the above, then a restart of the engine on the same database')

        # ---------------- CreateKeyPair: Cryptographic Length / Algorithm in the Common vs Public vs Private template.
        # KMIP 4.2: a key-specific template attribute wins over the Common one; public and private must agree.
        AT = enums.AttributeType
        pss256 = kdrv.crypto_params(digital_signature_algorithm=DSA.SHA256_WITH_RSA_ENCRYPTION, padding_method=P.PSS)

        def ckp(common, pubv, privv):
            def lst(alg, ln, mask):
                out = []
                if alg is not None:
                    out.append(kdrv.attr(AT.CRYPTOGRAPHIC_ALGORITHM, alg))
                if ln is not None:
                    out.append(kdrv.attr(AT.CRYPTOGRAPHIC_LENGTH, ln))
                if mask is not None:
                    out.append(kdrv.attr(AT.CRYPTOGRAPHIC_USAGE_MASK, [mask]))
                return out
            return kdrv.create_key_pair(common=lst(common[0], common[1], None), public=lst(pubv[0], pubv[1], CM.VERIFY),
                                        private=lst(privv[0], privv[1], CM.SIGN))
        combos = [((A.RSA, c), (None, pu), (None, pr)) for c in (None, 1024, 2048) for pu in (None, 1024, 2048) for pr in (None, 1024, 2048)]
        combos += [((c, 1024), (pu, None), (pr, None)) for c in (None, A.RSA, A.DSA) for pu in (None, A.RSA, A.DSA) for pr in (None, A.RSA, A.DSA)]
        if quick:
            combos = [c for k, c in enumerate(combos) if c[1][1] != 2048 or c[2][1] != 2048 or k % 3 == 0]
        for common, pubv, privv in combos:
            def eff(i):
                return (pubv[i] if pubv[i] is not None else common[i], privv[i] if privv[i] is not None else common[i])
            ea, el = eff(0), eff(1)
            if None in ea or None in el or ea[0] != ea[1] or el[0] != el[1] or ea[0] != A.RSA:
                want = 'IF'
            else:
                want = 'done'
            pdesc = dict(common_algorithm=common[0], common_length=common[1], public_algorithm=pubv[0], public_length=pubv[1],
                         private_algorithm=privv[0], private_length=privv[1])
            o, it, _ = req(ckp(common, pubv, privv))
            ctx.count('server.create_key_pair_templates.%s' % o.split(':')[0])
            ctx.case_seen(('srv-ckp', pj(pdesc)))
            if o != want:
                viol(ctx, 'CreateKeyPair', 'outcome %s where the templates (key-specific over common; public and private must agree) call for %s' % (o, want), pdesc,
                     {'message': it['message']})
                if o != 'done':
                    continue
            if o != 'done':
                continue
            bits = el[0] if want == 'done' else None
            pl = it['payload']
            pr_uid, pu_uid = str(pl['private_key_unique_identifier']), str(pl['public_key_unique_identifier'])
            _, i1, _ = req(kdrv.get(pu_uid))
            _, i2, _ = req(kdrv.get(pr_uid))
            kpub = R.load_public(hx(i1['payload']['secret']['key_block']['key_value']['key_material']))
            kprv = R.load_private(hx(i2['payload']['secret']['key_block']['key_value']['key_material']))
            got = {'public_modulus_bits': kpub.key_size, 'private_modulus_bits': kprv.key_size,
                   'public_length_attribute': i1['payload']['secret']['key_block']['cryptographic_length'],
                   'private_length_attribute': i2['payload']['secret']['key_block']['cryptographic_length']}
            req(kdrv.activate(pr_uid))
            os_, is_, _ = req(kdrv.sign(pr_uid, pss256, data=b'size'))
            got['signature_bytes'] = len(hx(is_['payload']['signature_data'])) if os_ == 'done' else None
            if bits is not None and (set(v for k, v in got.items() if k != 'signature_bytes') != {bits} or got['signature_bytes'] != bits // 8
                                     or kpub.public_numbers() != kprv.public_key().public_numbers()):
                viol(ctx, 'CreateKeyPair', 'generated key material does not have the length the templates ask for (key-specific template over common)',
                     pdesc, dict(got, requested_bits=bits))
        # ---------------- long messages through the handlers
        kL = rbytes(rng, 16)
        uL = reg_sym(A.AES, kL, allmask)
        o, it, _ = req(kdrv.create_key_pair(A.RSA, 1024))
        lp = it['payload'] if o == 'done' else None
        if uL is not None and lp is not None:
            prL, puL = str(lp['private_key_unique_identifier']), str(lp['public_key_unique_identifier'])
            req(kdrv.activate(prL))
            req(kdrv.activate(puL))
            _, itp, _ = req(kdrv.get(puL))
            pubL = hx(itp['payload']['secret']['key_block']['key_value']['key_material'])
            cbcL = kdrv.crypto_params(cryptographic_algorithm=A.AES, block_cipher_mode=M.CBC, padding_method=P.PKCS5)
            for n in (4097, 65537, 131072 + 5):
                m = rbytes(rng, 64) * (n // 64) + rbytes(rng, n % 64)
                m = bytes(m[:70000]) + flip(m[70000:70001] or b'\x00')[:len(m[70000:70001])] + bytes(m[70001:])
                ivL = rbytes(rng, 16)
                pd = {'message_length': n}
                o, it, _ = req(kdrv.encrypt(uL, cbcL, data=m, iv=ivL))
                ctx.count('server.long.encrypt.%s' % o.split(':')[0])
                ct = hx((it['payload'] or {}).get('data'))
                if o != 'done' or ct != ref_encrypt(dict(alg=A.AES, key=kL, mode=M.CBC, pad=P.PKCS5, aad=None), ivL, m)[0]:
                    viol(ctx, 'Encrypt', 'response differs from the independent reference (long message)', pd, {'outcome': o})
                elif True:
                    o2, it2, _ = req(kdrv.decrypt(uL, cbcL, data=ct, iv=ivL))
                    if o2 != 'done' or hx(it2['payload']['data']) != m:
                        viol(ctx, 'Decrypt', 'Decrypt does not invert Encrypt (long message)', pd, {'outcome': o2})
                o, it, _ = req(kdrv.mac(uL, kdrv.crypto_params(cryptographic_algorithm=A.HMAC_SHA256), data=m))
                if o != 'done' or hx(it['payload']['mac_data']) != R.hmac_fn(4)(kL, m):
                    viol(ctx, 'MAC', 'response differs from the independent reference (long message)', pd, {'outcome': o})
                o, it, _ = req(kdrv.sign(prL, pss256, data=m))
                ctx.count('server.long.sign.%s' % o.split(':')[0])
                if o != 'done':
                    viol(ctx, 'Sign', 'failed on a long message: ' + o, pd, {})
                    continue
                sg = hx(it['payload']['signature_data'])
                if not R.rsa_verify(pubL, 'PSS', 4, m, sg):
                    viol(ctx, 'Sign', 'the reference verifier rejects the signature (long message)', pd, {})
                for label, mm, want in (('same message', m, 'VALID'), ('last byte changed', flip(m, n - 1), 'INVALID')):
                    o3, it3, _ = req(kdrv.signature_verify(puL, pss256, data=mm, signature=sg))
                    v3 = (it3['payload'] or {}).get('validity_indicator')
                    if o3 != 'done' or v3 != want:
                        viol(ctx, 'SignatureVerify', '%s: expected %s (long message)' % (label, want), pd, {'outcome': o3, 'validity': v3})

        # ---------------- Create / CreateKeyPair / Sign / SignatureVerify
        seen = set()
        for alg, bits in [(A.AES, 128), (A.AES, 256), (A.TRIPLE_DES, 192), (A.BLOWFISH, 448), (A.CAMELLIA, 192), (A.CAST5, 40), (A.RC4, 256)]:
            for _ in range(2):
                o, it, calls = req(kdrv.create(alg, bits, mask=[CM.ENCRYPT]))
                ctx.count('server.create.%s' % o.split(':')[0])
                if o != 'done':
                    viol(ctx, 'Create', 'Create of a supported (algorithm, length) failed: ' + o, {'alg': alg, 'bits': bits})
                    continue
                o2, it2, _ = req(kdrv.get(kdrv.first_uid(it)))
                kv = hx(it2['payload']['secret']['key_block']['key_value']['key_material'])
                if len(kv) * 8 != bits:
                    viol(ctx, 'Create', 'created key material does not have the requested length', {'alg': alg, 'bits': bits}, {'len': len(kv)})
                if kv in seen:
                    viol(ctx, 'Create', 'created key material repeats', {'alg': alg, 'bits': bits})
                seen.add(kv)
        for size in ([1024] if quick else [1024, 2048]):
            o, it, calls = req(kdrv.create_key_pair(A.RSA, size))
            ctx.count('server.create_key_pair.%s' % o.split(':')[0])
            if o != 'done':
                viol(ctx, 'CreateKeyPair', 'failed: ' + o, {'size': size})
                continue
            pl = it['payload']
            priv_uid, pub_uid = str(pl['private_key_unique_identifier']), str(pl['public_key_unique_identifier'])
            req(kdrv.activate(priv_uid))
            req(kdrv.activate(pub_uid))
            o, it, _ = req(kdrv.create_key_pair(A.RSA, size))
            pl2 = it['payload']
            other_pub = str(pl2['public_key_unique_identifier'])
            req(kdrv.activate(other_pub))
            _, itp, _ = req(kdrv.get(pub_uid))
            pub_bytes = hx(itp['payload']['secret']['key_block']['key_value']['key_material'])
            _, itq, _ = req(kdrv.get(priv_uid))
            priv_bytes = hx(itq['payload']['secret']['key_block']['key_value']['key_material'])
            combos = [dict(dsa=d, alg=None, hash=None, pad=pd) for d in (DSA.SHA1_WITH_RSA_ENCRYPTION, DSA.SHA256_WITH_RSA_ENCRYPTION, DSA.SHA512_WITH_RSA_ENCRYPTION, DSA.MD5_WITH_RSA_ENCRYPTION)
                      for pd in (P.PSS, P.PKCS1v15)]
            combos += [dict(dsa=None, alg=A.RSA, hash=h, pad=pd) for h in (H.SHA_1, H.SHA_224, H.SHA_256, H.SHA_384, H.SHA_512)
                       for pd in (P.PSS, P.PKCS1v15)]
            combos += [dict(dsa=None, alg=A.RSA, hash=H.SHA_256, pad=P.OAEP), dict(dsa=None, alg=None, hash=None, pad=P.PSS),
                       dict(dsa=DSA.DSA_WITH_SHA1, alg=None, hash=None, pad=P.PSS), dict(dsa=None, alg=A.RSA, hash=H.SHA_256, pad=None)]
            for k, q in enumerate(combos):
                msg = rbytes(rng, [0, 1, 15, 16, 17, 1000][k % 6])
                cpar = kdrv.crypto_params(digital_signature_algorithm=q['dsa'], cryptographic_algorithm=q['alg'],
                                          hashing_algorithm=q['hash'], padding_method=q['pad'])
                o, it, calls = req(kdrv.sign(priv_uid, cpar, data=msg))
                ctx.count('server.sign.%s' % o.split(':')[0])
                ctx.case_seen(('srv-sign', size, pj(q)))
                cases.append('KSign %s %s %s' % (sig_params_term(q, True), outcome_term(o), call_term(last_call(calls, 'rsasig'))))
                meta.append(('server/sign', dict(pj(q), size=size), len(msg), o))
                if o != 'done':
                    continue
                sig = hx(it['payload']['signature_data'])
                hid = hid_of_dsa(q['dsa']) if q['dsa'] is not None else hid_of_hash(q['hash'])
                kind = 'PSS' if q['pad'] == P.PSS else 'PKCS1'
                if not R.rsa_verify(pub_bytes, kind, hid, msg, sig):
                    viol(ctx, 'Sign', 'the reference verifier rejects the signature', q, {'size': size})

                def sv(uid, m, s_):
                    o_, it_, calls_ = req(kdrv.signature_verify(uid, cpar, data=m, signature=s_))
                    return o_, (it_['payload'] or {}).get('validity_indicator'), calls_
                o1, v1, calls1 = sv(pub_uid, msg, sig)
                cases.append('KVerify %s %s %s' % (sig_params_term(q, True), outcome_term(o1), call_term(last_call(calls1, 'rsasig'))))
                meta.append(('server/verify', dict(pj(q), size=size), len(msg), o1))
                if o1 != 'done' or v1 != 'VALID':
                    viol(ctx, 'SignatureVerify', 'signature by Sign with the matching key of the pair is not VALID', q, {'outcome': o1, 'validity': v1})
                o2, v2, _ = sv(pub_uid, flip(msg) if msg else b'x', sig)
                if o2 != 'done' or v2 != 'INVALID':
                    viol(ctx, 'SignatureVerify', 'signature over a different message is not INVALID', q, {'outcome': o2, 'validity': v2})
                o3, v3, _ = sv(other_pub, msg, sig)
                if o3 != 'done' or v3 != 'INVALID':
                    viol(ctx, 'SignatureVerify', 'signature checked with the key of another pair is not INVALID', q, {'outcome': o3, 'validity': v3})
                for label, s2 in (('zero-prefixed', b'\x00' + sig), ('zero-suffixed', sig + b'\x00'), ('first octet dropped', sig[1:]),
                                  ('last octet dropped', sig[:-1])):
                    o4, v4, _ = sv(pub_uid, msg, s2)
                    if o4 == 'done' and v4 != 'INVALID':
                        if label == 'first octet dropped' and sig[0] == 0:
                            ctx.violation(dict(PSS_ZERO_SIG, padding=kind if kind == 'PSS' else 'PKCS1v15'), {'size': size, 'signature': s2.hex(), 'path': 'server'},
                                          'C06 SignatureVerify: a genuine signature with its leading zero octet dropped is reported VALID')
                        else:
                            viol(ctx, 'SignatureVerify', 'a genuine signature changed in length (%s) is reported VALID' % label, q,
                                 {'size': size, 'signature': s2.hex()[:80]})
            # Sign / SignatureVerify only use the keys: stored material unchanged, also when a later batch item commits
            pss = kdrv.crypto_params(digital_signature_algorithm=DSA.SHA256_WITH_RSA_ENCRYPTION, padding_method=P.PSS)
            res = reqn([kdrv.sign(priv_uid, pss, data=b'batch'), kdrv.create(A.AES, 128, mask=[CM.ENCRYPT])])
            if res[0][0] == 'done':
                sg = hx(res[0][1]['payload']['signature_data'])
                reqn([kdrv.signature_verify(pub_uid, pss, data=b'batch', signature=sg), kdrv.create(A.AES, 128, mask=[CM.ENCRYPT])])
            for uid_, want, nm in ((priv_uid, priv_bytes, 'private'), (pub_uid, pub_bytes, 'public')):
                _, itg, _ = req(kdrv.get(uid_))
                got = hx(itg['payload']['secret']['key_block']['key_value']['key_material']) if itg['payload'] else None
                if got != want:
                    viol(ctx, 'Get', 'stored %s key material changed by Sign / SignatureVerify' % nm, {'size': size}, {})
    finally:
        srv.close()


# ============================================================================ run
def load_own_findings(ctx):
    """findings.d/C06.json is merged into known_findings.json by bin/mkmanifest; until then read it here too."""
    from pathlib import Path
    f = Path(__file__).resolve().parents[1] / 'findings.d' / 'C06.json'
    try:
        mine = json.loads(f.read_text())
    except Exception:
        mine = []
    have = {x.get('id') for x in ctx.findings}
    ctx.findings += [x for x in mine if x.get('property') == 'C06' and x.get('id') not in have]


PSS_ZERO_SIG = {'op': 'verify_signature', 'variant': 'leading zero octet dropped', 'padding': 'PSS'}


def pss_leading_zero(ctx, eng, rsa_cache):
    """Deterministic reproduction of the known finding: find a genuine PSS signature that starts with 0x00."""
    for size in sorted(rsa_cache)[:1]:
        pub, priv = rsa_cache[size]
        for padn, pad in (('PSS', P.PSS), ('PKCS1v15', P.PKCS1v15)):
            for i in range(4000):
                msg = b'leading zero search %d' % i
                o, sig, _ = call(eng.sign, DSA.SHA256_WITH_RSA_ENCRYPTION, None, None, pad, priv, msg)
                if o != 'done':
                    break
                if sig[0] == 0:
                    o2, r2, _ = call(eng.verify_signature, pub, msg, sig[1:], pad, digital_signature_algorithm=DSA.SHA256_WITH_RSA_ENCRYPTION)
                    ctx.count('verify.leading_zero_dropped.%s.%s' % (padn, r2 if o2 == 'done' else o2))
                    if o2 == 'done' and r2 is not False:
                        ctx.violation(dict(PSS_ZERO_SIG, padding=padn),
                                      {'size': size, 'msg': msg.decode(), 'signature_without_leading_zero': sig[1:].hex()},
                                      'C06 verify_signature: a genuine %s signature with its leading zero octet dropped is reported valid' % padn)
                    break


def run(ctx):
    logging.disable(logging.CRITICAL)
    load_own_findings(ctx)
    ctx.cov['rule'] = (
        'complete finite grid of parameter tuples (algorithm x key size x block mode x padding x IV absent/right/wrong '
        'length x AAD x tag length; HMACs + CMACs; derivation methods x hashes x data/key/salt/iterations; RSA sizes x '
        'paddings x hashes x digital signature algorithms; wrap methods x key lengths; key creation over every table '
        'entry) x message lengths 0, 1, block-1, block, block+1, 1000; quick tier = stratified sample (one key size '
        'per algorithm, message lengths rotated).  A case is distinct by (operation, parameter tuple, message length).')
    ctx.cov['trusted_extra'] = [
        'Since fix: f8d262f f56c8fe 832c54a fd6e5cc the engine converts library refusals to KMIP errors; the model follows '
        '(lib_sym_stage / lib_der_stage): the only non-KMIP exceptions left are RC4 named with CBC/ECB+padding or with GCM, '
        'and RSA public_key.encrypt / private_key.decrypt refusals (observed, asym_ok).',
        'Section hypotheses of Crypto/*Proofs.v (NOT proved, named): the cipher law (library decrypt inverts library '
        'encrypt under the same algorithm/key/mode/IV/AAD and the (truncated) tag; ciphertext length = data length; GCM '
        'tag 16 bytes), urandom returns n bytes.  The mathematics of AES/3DES/.../SHA/HMAC/RSA (OpenSSL via '
        '`cryptography`) and the unpredictability of os.urandom are trusted; freshness is only smoke-tested.',
        'lib_*_ok predicates (what the installed cryptography accepts) are probed/hand-written and compared on every '
        'run (tie K), not proved.',
        'bytes-level equality with harness/cryptoref.py is testing over the finite grid, not proof.']
    ok_t = ctx.regen(only=['cryptotables', 'enums'])
    ctx.prove('props/C06.v')
    if not ok_t:
        # broken tie T: the generated tables may be stale; still run the grid so that the direct oracle can turn the
        # broken translation into a concrete failing input (FRAMEWORK: search before returning)
        ctx.log('translation failed - running the grid and the direct oracle against the last generated tables')
    install_recorder()
    try:
        eng = ce.CryptographyEngine()
        cases, meta = [], []
        rsa_cache = {}
        run_padding(ctx, cases, meta)
        ctx.log('  section run_padding done')
        run_symmetric(ctx, eng, cases, meta)
        ctx.log('  section run_symmetric done')
        run_authenticated_empty(ctx, eng, cases, meta)
        ctx.log('  section run_authenticated_empty done')
        run_mac(ctx, eng, cases, meta)
        ctx.log('  section run_mac done')
        run_derive(ctx, eng, cases, meta)
        ctx.log('  section run_derive done')
        run_wrap(ctx, eng, cases, meta)
        ctx.log('  section run_wrap done')
        run_create(ctx, eng, cases, meta, rsa_cache)
        ctx.log('  section run_create done')
        run_freshness(ctx, eng)
        ctx.log('  section run_freshness done')
        run_rsa(ctx, eng, cases, meta, rsa_cache)
        ctx.log('  section run_rsa done')
        pss_leading_zero(ctx, eng, rsa_cache)
        ctx.log('  section pss_leading_zero done')
        run_long_messages(ctx, eng, rsa_cache)
        ctx.log('  section run_long_messages done')
        run_server(ctx, cases, meta, rsa_cache)
        ctx.log('  section run_server done')
        ctx.log('built %d Coq cases' % len(cases))
        bad = ctx.run_cases('plans', HEADER, cases, 'check_ccase', shard=600, what='outcome class + observed primitive call vs Crypto/Plan.v')
        for i in bad[:20]:
            ctx.disagreement('plans', {'case': meta[i], 'coq': cases[i][:600]})
        for i in (0, len(cases) // 2):
            ctx.sample({'case': meta[i], 'coq': cases[i][:300]})
    finally:
        uninstall_recorder()


def replay(ctx, r):
    """Re-run the grid with the seed and tier recorded in the replay file; the same parameter tuple is regenerated
    and re-evaluated (the generator is deterministic in (seed, tier)).  Exit code as for a normal run."""
    import random
    ctx.seed = int(r.get('seed', ctx.seed))
    ctx.tier = r.get('tier', ctx.tier)
    ctx.rng = random.Random(ctx.seed)
    print('replaying with seed=%d tier=%s; recorded: %s' % (ctx.seed, ctx.tier, r.get('what') or r.get('no_longer_checks')))
    run(ctx)
    rc = ctx.finish()
    want = r.get('signature')
    if want:
        again = [v for v in ctx.violations if v['signature'] == want]
        print('recorded violation %s' % ('REPRODUCED: ' + json.dumps(again[0]['witness'])[:400] if again else 'did not reproduce'))
    return rc
