"""C05 - stored objects come back exactly as stored (client, wire, engine, SQLite).

regenerate (gen_sqltypes) -> prove (props/C05.v) -> correspondence K (histories of the real ProxyKmipClient <-> in-process
transport <-> KmipSession <-> KmipEngine <-> SQLite stack, replayed on the Coq model, Coq compares) -> direct oracle
(no model: what Get / GetAttributes answer equals what was registered) -> evidence.
"""
import datetime
import json
import logging
import warnings

import kdrv
from kdrv import enums, cobjects, cattrs, secrets, misc, payloads, OT, AT
from vlib import coqprint as cp

warnings.filterwarnings('ignore')
LEVEL = 'proof (partial)'
E = enums

HEADER = ('From Coq Require Import ZArith List Bool.\nFrom PKGen Require Import PieColumns.\n'
          'From PK Require Import Persist.Model Persist.Cases.\nImport ListNotations.\nOpen Scope Z_scope.\n')

CP_FIELDS = ['bcm', 'pad', 'hash', 'role', 'dsa', 'alg', 'riv', 'ivl', 'tagl', 'fixl', 'invl', 'ctrl', 'icv']
CP_KW = ['block_cipher_mode', 'padding_method', 'hashing_algorithm', 'key_role_type', 'digital_signature_algorithm',
         'cryptographic_algorithm', 'random_iv', 'iv_length', 'tag_length', 'fixed_field_length', 'invocation_field_length',
         'counter_length', 'initial_counter_value']
CP_ENUM = {'bcm': E.BlockCipherMode, 'pad': E.PaddingMethod, 'hash': E.HashingAlgorithm, 'role': E.KeyRoleType,
           'dsa': E.DigitalSignatureAlgorithm, 'alg': E.CryptographicAlgorithm}
CLASS_OF = {OT.SYMMETRIC_KEY: 'CSym', OT.PUBLIC_KEY: 'CPub', OT.PRIVATE_KEY: 'CPriv', OT.SPLIT_KEY: 'CSplit',
            OT.CERTIFICATE: 'CCert', OT.SECRET_DATA: 'CSecret', OT.OPAQUE_DATA: 'COpaque'}
OT_OF = {v: k for k, v in CLASS_OF.items()}
ATTR_NAMES = ['Unique Identifier', 'Name', 'Object Type', 'Cryptographic Algorithm', 'Cryptographic Length', 'Certificate Type',
              'Operation Policy Name', 'Cryptographic Usage Mask', 'State', 'Initial Date', 'Object Group',
              'Application Specific Information', 'Sensitive']
KVER = {(1, 0): E.KMIPVersion.KMIP_1_0, (1, 1): E.KMIPVersion.KMIP_1_1, (1, 2): E.KMIPVersion.KMIP_1_2,
        (1, 3): E.KMIPVersion.KMIP_1_3, (1, 4): E.KMIPVersion.KMIP_1_4, (2, 0): E.KMIPVersion.KMIP_2_0}
MASK_BITS = [m.value for m in E.CryptographicUsageMask]


# ====================================================================== abstract -> real kmip.core objects
def build_cp(c):
    if c is None:
        return None
    kw = {}
    for f, k in zip(CP_FIELDS, CP_KW):
        v = c[f]
        kw[k] = CP_ENUM[f](v) if (f in CP_ENUM and v is not None) else v
    return cattrs.CryptographicParameters(**kw)


def build_kwd(w):
    if w is None:
        return None
    eki = mski = None
    if w['eki'] is not None:
        eki = cobjects.EncryptionKeyInformation(unique_identifier=w['eki']['uid'], cryptographic_parameters=build_cp(w['eki']['cp']))
    if w['mski'] is not None:
        mski = cobjects.MACSignatureKeyInformation(unique_identifier=w['mski']['uid'], cryptographic_parameters=build_cp(w['mski']['cp']))
    return cobjects.KeyWrappingData(wrapping_method=E.WrappingMethod(w['method']), encryption_key_information=eki,
                                    mac_signature_key_information=mski, mac_signature=w['mac'], iv_counter_nonce=w['iv'],
                                    encoding_option=(E.EncodingOption(w['enc']) if w['enc'] is not None else None))


def build_kb(kb):
    return cobjects.KeyBlock(
        key_format_type=misc.KeyFormatType(E.KeyFormatType(kb['fmt'])), key_compression_type=None,
        key_value=cobjects.KeyValue(cobjects.KeyMaterial(kb['value'])),
        cryptographic_algorithm=(cattrs.CryptographicAlgorithm(E.CryptographicAlgorithm(kb['alg'])) if kb['alg'] is not None else None),
        cryptographic_length=(cattrs.CryptographicLength(kb['len']) if kb['len'] is not None else None),
        key_wrapping_data=build_kwd(kb['kwd']))


def build_secret(s):
    k = s['k']
    if k == 'key':
        cls = {'CSym': secrets.SymmetricKey, 'CPub': secrets.PublicKey, 'CPriv': secrets.PrivateKey}[s['cls']]
        return OT_OF[s['cls']], cls(build_kb(s['kb']))
    if k == 'split':
        sp = s['sp']
        return OT.SPLIT_KEY, secrets.SplitKey(split_key_parts=sp['parts'], key_part_identifier=sp['ident'],
                                              split_key_threshold=sp['thresh'], split_key_method=E.SplitKeyMethod(sp['method']),
                                              prime_field_size=sp['prime'], key_block=build_kb(s['kb']))
    if k == 'cert':
        return OT.CERTIFICATE, secrets.Certificate(E.CertificateType(s['ctype']), s['value'])
    if k == 'secret':
        return OT.SECRET_DATA, secrets.SecretData(secrets.SecretData.SecretDataType(E.SecretDataType(s['dtype'])), build_kb(s['kb']))
    if k == 'opaque':
        return OT.OPAQUE_DATA, secrets.OpaqueObject(secrets.OpaqueObject.OpaqueDataType(E.OpaqueDataType(s['ot'])),
                                                    secrets.OpaqueObject.OpaqueDataValue(s['value']))
    raise KeyError(k)


def build_attr(a):
    k, idx = a['kind'], a['idx']
    if k == 'name':
        return kdrv.attr(AT.NAME, cattrs.Name.create(a['v'], E.NameType(a['t'])), idx)
    if k == 'group':
        return kdrv.attr(AT.OBJECT_GROUP, a['v'], idx)
    if k == 'asi':
        return kdrv.attr(AT.APPLICATION_SPECIFIC_INFORMATION, {'application_namespace': a['ns'], 'application_data': a['d']}, idx)
    if k == 'alg':
        return kdrv.attr(AT.CRYPTOGRAPHIC_ALGORITHM, E.CryptographicAlgorithm(a['z']), idx)
    if k == 'len':
        return kdrv.attr(AT.CRYPTOGRAPHIC_LENGTH, a['z'], idx)
    if k == 'mask':
        at = kdrv.attr(AT.CRYPTOGRAPHIC_USAGE_MASK, [], idx)
        at.attribute_value.value = a['z']
        return at
    if k == 'policy':
        return kdrv.attr(AT.OPERATION_POLICY_NAME, a['s'], idx)
    if k == 'sens':
        return kdrv.attr(AT.SENSITIVE, a['b'], idx)
    raise KeyError(k)


# ====================================================================== real kmip.core objects -> abstract
def ev(x):
    return None if x is None else x.value


def abs_cp(c):
    if c is None:
        return None
    return {f: (ev(getattr(c, k)) if f in CP_ENUM else getattr(c, k)) for f, k in zip(CP_FIELDS, CP_KW)}


def abs_ki(k):
    if k is None:
        return None
    return {'uid': k.unique_identifier, 'cp': abs_cp(k.cryptographic_parameters)}


def abs_kwd(w):
    if w is None:
        return None
    return {'method': ev(w.wrapping_method), 'eki': abs_ki(w.encryption_key_information), 'mski': abs_ki(w.mac_signature_key_information),
            'mac': w.mac_signature, 'iv': w.iv_counter_nonce, 'enc': ev(w.encoding_option)}


def abs_kb(kb):
    return {'fmt': kb.key_format_type.value.value, 'value': bytes(kb.key_value.key_material.value),
            'alg': (kb.cryptographic_algorithm.value.value if kb.cryptographic_algorithm is not None else None),
            'len': (kb.cryptographic_length.value if kb.cryptographic_length is not None else None),
            'kwd': abs_kwd(kb.key_wrapping_data)}


def abs_secret(s):
    if isinstance(s, secrets.SymmetricKey):
        return {'k': 'key', 'cls': 'CSym', 'kb': abs_kb(s.key_block)}
    if isinstance(s, secrets.PublicKey):
        return {'k': 'key', 'cls': 'CPub', 'kb': abs_kb(s.key_block)}
    if isinstance(s, secrets.PrivateKey):
        return {'k': 'key', 'cls': 'CPriv', 'kb': abs_kb(s.key_block)}
    if isinstance(s, secrets.SplitKey):
        return {'k': 'split', 'kb': abs_kb(s.key_block),
                'sp': {'parts': s.split_key_parts, 'ident': s.key_part_identifier, 'thresh': s.split_key_threshold,
                       'method': ev(s.split_key_method), 'prime': s.prime_field_size}}
    if isinstance(s, secrets.Certificate):
        return {'k': 'cert', 'ctype': s.certificate_type.value.value, 'value': bytes(s.certificate_value.value)}
    if isinstance(s, secrets.SecretData):
        return {'k': 'secret', 'dtype': s.secret_data_type.value.value, 'kb': abs_kb(s.key_block)}
    if isinstance(s, secrets.OpaqueObject):
        return {'k': 'opaque', 'ot': s.opaque_data_type.value.value, 'value': bytes(s.opaque_data_value.value)}
    raise TypeError(type(s))


def abs_attrs(attrs):
    """list of kmip.core.objects.Attribute -> [(attribute number, index, value tuple)]"""
    out, seen = [], {}
    for a in attrs or []:
        name = a.attribute_name.value
        n = ATTR_NAMES.index(name) if name in ATTR_NAMES else 99
        running = seen.get(name, 0)
        seen[name] = running + 1
        idx = a.attribute_index.value if a.attribute_index is not None else running
        v = a.attribute_value
        if n == 1:
            val = ('VName', v.name_value.value, v.name_type.value.value)
        elif n == 11:
            val = ('VAsi', v.application_namespace, v.application_data)
        elif n in (0, 6, 10):
            val = ('VText', v.value)
        elif n in (2, 3, 5, 8):
            val = ('VEnum', v.value.value)
        elif n in (4, 7):
            val = ('VInt', v.value)
        elif n == 9:
            val = ('VDate', v.value)
        elif n == 12:
            val = ('VBool', bool(v.value))
        else:
            val = ('VText', repr(v))
        out.append((n, idx, val))
    return out


# ====================================================================== printers (abstract -> Coq)
def p_s(s):
    return cp.byts(s.encode('utf-8'))


def p_oz(x):
    return cp.option(x, cp.z)


def p_ob(x):
    return cp.option(x, cp.byts)


def p_os(x):
    return cp.option(x, p_s)


def p_cp(c, ctor='CP', enum=p_oz):
    return '(%s %s)' % (ctor, ' '.join([enum(c[f]) for f in CP_FIELDS[:6]] + [cp.option(c['riv'], cp.boolean)] + [p_oz(c[f]) for f in CP_FIELDS[7:]]))


def p_ki(k):
    return cp.option(k, lambda k: '(mkKI %s %s)' % (p_s(k['uid']), cp.option(k['cp'], p_cp)))


def p_kwd(w):
    return cp.option(w, lambda w: '(mkKW %s %s %s %s %s %s)' % (cp.z(w['method']), p_ki(w['eki']), p_ki(w['mski']), p_ob(w['mac']),
                                                                 p_ob(w['iv']), p_oz(w['enc'])))


def p_kb(kb):
    return '(mkKB %s %s %s %s %s)' % (cp.z(kb['fmt']), cp.byts(kb['value']), p_oz(kb['alg']), p_oz(kb['len']), p_kwd(kb['kwd']))


def p_secret(s):
    k = s['k']
    if k == 'key':
        return '(SKey %s %s)' % (s['cls'], p_kb(s['kb']))
    if k == 'split':
        sp = s['sp']
        return '(SSplit %s (mkSP %s %s %s %s %s))' % (p_kb(s['kb']), cp.z(sp['parts']), cp.z(sp['ident']), cp.z(sp['thresh']),
                                                      cp.z(sp['method']), p_oz(sp['prime']))
    if k == 'cert':
        return '(SCert %s %s)' % (cp.z(s['ctype']), cp.byts(s['value']))
    if k == 'secret':
        return '(SSecret %s %s)' % (cp.z(s['dtype']), p_kb(s['kb']))
    return '(SOpaque %s %s)' % (cp.z(s['ot']), cp.byts(s['value']))


def p_tattr(a):
    k = a['kind']
    v = {'name': lambda: '(TName %s %s)' % (p_s(a['v']), cp.z(a['t'])), 'group': lambda: '(TGroup %s)' % p_s(a['v']),
         'asi': lambda: '(TAsi %s %s)' % (p_s(a['ns']), p_s(a['d'])), 'alg': lambda: '(TAlg %s)' % cp.z(a['z']),
         'len': lambda: '(TLen %s)' % cp.z(a['z']), 'mask': lambda: '(TMask %s)' % cp.z(a['z']),
         'policy': lambda: '(TPolicy %s)' % p_s(a['s']), 'sens': lambda: '(TSens %s)' % cp.boolean(a['b'])}[k]()
    return '(mkTA %s %s)' % (p_oz(a['idx']), v)


def p_aval(v):
    t = v[0]
    if t in ('VText',):
        return '(VText %s)' % p_s(v[1])
    if t in ('VInt', 'VEnum', 'VDate'):
        return '(%s %s)' % (t, cp.z(v[1]))
    if t == 'VBool':
        return '(VBool %s)' % cp.boolean(v[1])
    if t == 'VName':
        return '(VName %s %s)' % (p_s(v[1]), cp.z(v[2]))
    return '(VAsi %s %s)' % (p_s(v[1]), p_s(v[2]))


def p_rattrs(l):
    return cp.lst(l, lambda x: '(%s, %s, %s)' % (cp.nat(x[0]), cp.z(x[1]), p_aval(x[2])))


def p_res(x, pr):
    return 'Err' if x is None else '(Ok %s)' % pr(x)


def p_ver(v):
    return '(%s, %s)' % (cp.z(v[0]), cp.z(v[1]))


def p_event(e):
    k = e['e']
    if k == 'register':
        return '(ERegister %s %s %s %s %s %s)' % (p_ver(e['ver']), p_s(e['owner']), cp.z(e['now']), p_secret(e['secret']),
                                                  cp.lst(e['attrs'], p_tattr), p_oz(e['obs']))
    if k == 'get':
        return '(EGet %s %s)' % (cp.z(e['uid']), p_res(e['obs'], p_secret))
    if k == 'attrs':
        return '(EAttrs %s %s %s)' % (p_ver(e['ver']), cp.z(e['uid']), p_res(e['obs'], p_rattrs))
    if k == 'attrlist':
        return '(EAttrList %s %s %s)' % (p_ver(e['ver']), cp.z(e['uid']), p_res(e['obs'], lambda l: cp.lst(l, cp.nat)))
    if k == 'row':
        return '(ERow %s %s %s)' % (cp.z(e['uid']), cp.z(e['otype_col']), p_row(e['obs']))
    if k == 'activate':
        return '(EActivate %s)' % cp.z(e['uid'])
    if k == 'destroy':
        return '(EDestroy %s)' % cp.z(e['uid'])
    if k == 'restart':
        return 'ERestart'
    if k == 'foreign':
        return 'EForeign'
    if k == 'make':
        return '(EMake %s %s %s %s %s %s %s)' % (e['kind'], p_ver(e['ver']), p_s(e['owner']), cp.z(e['now']), cp.byts(e['mat']),
                                                cp.lst(e['attrs'], p_tattr), cp.z(e['obs']))
    if k == 'makepair':
        return '(EMakePair %s %s %s %s %s %s %s %s %s %s (%s, %s))' % (
            p_ver(e['ver']), p_s(e['owner']), cp.z(e['now']), cp.z(e['fu']), cp.byts(e['mu']), cp.z(e['fr']), cp.byts(e['mr']),
            cp.lst(e['lc'], p_tattr), cp.lst(e['lu'], p_tattr), cp.lst(e['lr'], p_tattr), cp.z(e['obs'][0]), cp.z(e['obs'][1]))
    return 'EOther'


def p_rkc(k):
    if k is None:
        return 'rkc_null'
    return '(RKC %s %s %s %s %s %s %s %s)' % (cp.z(k['method']), p_os(k['euid']), p_cp(k['ecp'], 'RCP', cp.z), p_os(k['muid']),
                                              p_cp(k['mcp'], 'RCP', cp.z), p_ob(k['mac']), p_ob(k['iv']), cp.z(k['enc']))


def p_row(r):
    names = cp.lst(r['names'], lambda n: '(%s, %s, %s)' % (p_s(n[0]), cp.z(n[1]), cp.z(n[2])))
    return '(ROW %s)' % ' '.join([
        r['cls'], cp.byts(r['value']), cp.z(r['alg']), p_oz(r['len']), cp.z(r['fmt']), p_rkc(r['kc']), p_oz(r['parts']), p_oz(r['ident']),
        p_oz(r['thresh']), cp.z(r['spm']), p_oz(r['prime']), cp.z(r['sub']), cp.z(r['state']), cp.z(r['mask']), names,
        cp.lst(r['groups'], p_s), cp.lst(r['asi'], lambda x: '(%s, %s)' % (p_s(x[0]), p_s(x[1]))), cp.boolean(r['sens']),
        p_os(r['policy']), cp.z(r['initial']), p_os(r['owner'])])


# ====================================================================== the stack: client <-> transport <-> session <-> engine
def make_cert(cn):
    from cryptography import x509
    from cryptography.x509.oid import NameOID, ExtendedKeyUsageOID
    from cryptography.hazmat.primitives import hashes, serialization
    from cryptography.hazmat.primitives.asymmetric import ec
    key = ec.generate_private_key(ec.SECP256R1())
    name = x509.Name([x509.NameAttribute(NameOID.COMMON_NAME, cn)])
    now = datetime.datetime(2020, 1, 1)
    cert = (x509.CertificateBuilder().subject_name(name).issuer_name(name).public_key(key.public_key()).serial_number(1)
            .not_valid_before(now).not_valid_after(now + datetime.timedelta(days=36500))
            .add_extension(x509.ExtendedKeyUsage([ExtendedKeyUsageOID.CLIENT_AUTH]), critical=False).sign(key, hashes.SHA256()))
    return cert.public_bytes(serialization.Encoding.DER)


class Conn:
    """What KmipSession sees as its TLS connection."""
    def __init__(self, der):
        self.der, self.inbuf, self.out = der, b'', b''

    def recv(self, n):
        r, self.inbuf = self.inbuf[:n], self.inbuf[n:]
        return r

    def sendall(self, b):
        self.out += bytes(b)

    def getpeercert(self, binary_form=False):
        return self.der

    def cipher(self):
        return ('TLS_FAKE', 'TLSv1.2', 256)

    def shared_ciphers(self):
        return None


class LoopSock:
    """What the client's KMIPProtocol sees as its socket: every request is served by a fresh KmipSession on the current engine."""
    def __init__(self, eng, der, chunk):
        self.eng, self.der, self.chunk, self.rbuf = eng, der, chunk, b''

    def sendall(self, b):
        from kmip.services.server.session import KmipSession
        kdrv.engine_mod.time = self.eng.clock
        conn = Conn(self.der)
        conn.inbuf = bytes(b)
        self.rbuf = b''            # a new request: whatever an earlier, failed client call left unread is gone
        s = KmipSession(self.eng.engine, conn, ('127.0.0.1', 5696), name='c05', enable_tls_client_auth=True)
        s._logger.setLevel(logging.CRITICAL + 1)
        s._handle_message_loop()
        self.rbuf += conn.out

    def recv(self, n):
        n = min(n, self.chunk)
        r, self.rbuf = self.rbuf[:n], self.rbuf[n:]
        return r


class Stack:
    def __init__(self, ctx, der, chunk=4096):
        from kmip.pie.client import ProxyKmipClient
        from kmip.services.kmip_protocol import KMIPProtocol
        logging.disable(logging.CRITICAL)
        import copy
        pol = copy.deepcopy(kdrv.core_policy.policies)
        pol['site-policy'] = copy.deepcopy(pol['default'])      # a second policy that lets the owner read its objects
        pol['p' * 60] = copy.deepcopy(pol['default'])
        self.eng = kdrv.Engine(workdir=ctx.work, policies=pol)
        self.der, self.chunk = der, chunk
        self.clients = {v: self.new_client(v) for v in KVER}

    def new_client(self, v):
        """A fresh ProxyKmipClient (own KMIPProxy) wired to the in-process transport."""
        from kmip.pie.client import ProxyKmipClient
        from kmip.services.kmip_protocol import KMIPProtocol
        cl = ProxyKmipClient(kmip_version=KVER[v])
        cl.logger.setLevel(logging.CRITICAL + 1)
        cl.proxy.logger.setLevel(logging.CRITICAL + 1)
        cl._is_open = True
        cl.proxy.protocol = KMIPProtocol(LoopSock(self.eng, self.der, self.chunk))
        return cl

    def attrs_with(self, cl, uid):
        """get_attributes through a given client object."""
        self.last_err = None
        try:
            _, attrs = cl.get_attributes(str(uid))
        except Exception as e:
            cl.proxy.protocol.socket.rbuf = b''
            self.last_err = '%s: %s' % (type(e).__name__, e)
            return None
        return abs_attrs(attrs)

    def register_with(self, cl, secret, attrs):
        try:
            ot, core = build_secret(secret)
            tmpl = cobjects.TemplateAttribute(attributes=[build_attr(a) for a in attrs])
            r = cl.proxy.register(ot, tmpl, core)
        except Exception as e:
            cl.proxy.protocol.socket.rbuf = b''
            return None, ('CLIENT', type(e).__name__)
        if r.result_status.value != E.ResultStatus.SUCCESS:
            return None, (r.result_reason.value.name if r.result_reason else None, r.result_message.value if r.result_message else None)
        return int(r.uuid), None

    def close(self):
        self.eng.close()

    # every call returns the abstract observation, None when the operation failed
    def register(self, ver, secret, attrs):
        try:
            ot, core = build_secret(secret)
            tmpl = cobjects.TemplateAttribute(attributes=[build_attr(a) for a in attrs])
            r = self.clients[ver].proxy.register(ot, tmpl, core)
        except Exception as e:          # refused by the client's own encoder: nothing was sent
            self.clients[ver].proxy.protocol.socket.rbuf = b''
            return None, ('CLIENT', type(e).__name__)
        if r.result_status.value != E.ResultStatus.SUCCESS:
            return None, (r.result_reason.value.name if r.result_reason else None, r.result_message.value if r.result_message else None)
        return int(r.uuid), None

    def get(self, ver, uid):
        self.last_err = None
        try:
            r = self.clients[ver].proxy.get(str(uid))
        except Exception as e:
            self.clients[ver].proxy.protocol.socket.rbuf = b''
            self.last_err = 'client raised %s: %s' % (type(e).__name__, e)
            return None
        if r.result_status.value != E.ResultStatus.SUCCESS:
            self.last_err = '%s: %s' % (r.result_reason.value.name, r.result_message.value)
            return None
        return abs_secret(r.secret)

    def get_pie(self, ver, uid):
        return self.clients[ver].get(str(uid))

    def attrs(self, ver, uid):
        self.last_err = None
        try:
            _, attrs = self.clients[ver].get_attributes(str(uid))
        except Exception as e:
            self.clients[ver].proxy.protocol.socket.rbuf = b''
            self.last_err = '%s: %s' % (type(e).__name__, e)
            return None
        return abs_attrs(attrs)

    def attr_list(self, ver, uid):
        r = self.clients[ver].proxy.get_attribute_list(str(uid))
        if r.result_status.value != E.ResultStatus.SUCCESS:
            return None
        return [ATTR_NAMES.index(n) if n in ATTR_NAMES else 99 for n in r.names]

    def activate(self, ver, uid):
        try:
            self.clients[ver].activate(str(uid))
            return True
        except Exception:
            return False

    def destroy(self, ver, uid):
        try:
            self.clients[ver].destroy(str(uid))
            return True
        except Exception:
            return False

    def modify_sibling(self, uid, kind, index, new):
        """ModifyAttribute (KMIP 1.x form) of one multi-valued attribute instance of another object."""
        if kind == 'group':
            a = kdrv.attr(AT.OBJECT_GROUP, new, index)
        elif kind == 'name':
            a = kdrv.attr(AT.NAME, cattrs.Name.create(new, E.NameType.UNINTERPRETED_TEXT_STRING), index)
        else:
            a = kdrv.attr(AT.APPLICATION_SPECIFIC_INFORMATION, {'application_namespace': new, 'application_data': new}, index)
        r = self.eng.request([kdrv.modify_attribute_v1(str(uid), a)], version=(1, 2), user='alice')
        return bool(r['items']) and kdrv.ok(r['items'][0])

    def wrapped_get_batch(self, ver, target, wrapping_key):
        """One request: Get of `target` wrapped under `wrapping_key`, followed by a Create (which commits the session).
        Returns (wrapped Get succeeded, uid created by the Create or None)."""
        spec = cobjects.KeyWrappingSpecification(
            wrapping_method=E.WrappingMethod.ENCRYPT,
            encryption_key_information=cobjects.EncryptionKeyInformation(
                unique_identifier=str(wrapping_key),
                cryptographic_parameters=cattrs.CryptographicParameters(block_cipher_mode=E.BlockCipherMode.NIST_KEY_WRAP)),
            encoding_option=E.EncodingOption.NO_ENCODING)
        r = self.eng.request([kdrv.get(str(target), wrap=spec), kdrv.create()], version=ver, user='alice')
        if r['error'] or len(r['items']) != 2:
            return False, None
        g, c = r['items']
        created = int(kdrv.first_uid(c)) if kdrv.ok(c) else None
        return kdrv.ok(g), created

    def other(self, ver, rng):
        cl = self.clients[ver]
        try:
            if rng.random() < 0.5:
                cl.locate()
            else:
                cl.proxy.query(query_functions=[E.QueryFunction.QUERY_OPERATIONS])
        except Exception:
            pass

    def row(self, uid):
        """The object's row as the raw sqlite3 dump shows it (no SQLAlchemy involved)."""
        d = self.eng.dump()

        def one(table):
            for r in d.get(table, []):
                if r['uid'] == uid:
                    return r
            return None
        mo = one('managed_objects')
        if mo is None:
            return None, None
        ident = {'SymmetricKey': 'CSym', 'PublicKey': 'CPub', 'PrivateKey': 'CPriv', 'SplitKey': 'CSplit', 'X509Certificate': 'CCert',
                 'SecretData': 'CSecret', 'OpaqueData': 'COpaque'}[mo['class_type']]
        co, ke, sk = one('crypto_objects'), one('keys'), one('split_keys')
        sub_t = {'CCert': ('certificates', 'certificate_type'), 'CSecret': ('secret_data_objects', 'data_type'),
                 'COpaque': ('opaque_objects', 'opaque_type')}.get(ident)
        sub = one(sub_t[0])[sub_t[1]] if sub_t else -1
        hexb = lambda h: None if h is None else bytes.fromhex(h)

        def cpr(prefix):
            names = ['block_cipher_mode', 'padding_method', 'hashing_algorithm', 'key_role_type', 'digital_signature_algorithm',
                     'cryptographic_algorithm', 'random_iv', 'iv_length', 'tag_length', 'fixed_field_length', 'invocation_field_length',
                     'counter_length', 'initial_counter_value']
            out = {}
            for f, n in zip(CP_FIELDS, names):
                v = ke[prefix + n]
                out[f] = (None if v is None else bool(v)) if f == 'riv' else v
            return out
        kc = None
        if ke is not None:
            kc = {'method': ke['_kdw_wrapping_method'], 'euid': ke['_kdw_eki_unique_identifier'], 'ecp': cpr('_kdw_eki_cp_'),
                  'muid': ke['_kdw_mski_unique_identifier'], 'mcp': cpr('_kdw_mski_cp_'), 'mac': hexb(ke['_kdw_mac_signature']),
                  'iv': hexb(ke['_kdw_iv_counter_nonce']), 'enc': ke['_kdw_encoding_option']}
        names = sorted((r for r in d.get('managed_object_names', []) if r['mo_uid'] == uid), key=lambda r: r['id'])
        gids = sorted(r['object_group_id'] for r in d.get('object_group_map', []) if r['managed_object_id'] == uid)
        groups = {r['id']: r['object_group'] for r in d.get('object_groups', [])}
        aids = sorted(r['app_specific_info_id'] for r in d.get('app_specific_info_map', []) if r['managed_object_id'] == uid)
        asis = {r['id']: (r['application_namespace'], r['application_data']) for r in d.get('app_specific_info', [])}
        row = {'cls': ident, 'value': hexb(mo['value']) or b'',
               'alg': ke['cryptographic_algorithm'] if ke else -1, 'len': ke['cryptographic_length'] if ke else None,
               'fmt': ke['key_format_type'] if ke else -1, 'kc': kc,
               'parts': sk['_split_key_parts'] if sk else None, 'ident': sk['_key_part_identifier'] if sk else None,
               'thresh': sk['_split_key_threshold'] if sk else None, 'spm': sk['_split_key_method'] if sk else -1,
               'prime': sk['_prime_field_size'] if sk else None, 'sub': sub,
               'state': co['state'] if co else -1, 'mask': co['cryptographic_usage_mask'] if co else 0,
               'names': [(r['name'], r['name_index'], r['name_type']) for r in names],
               'groups': [groups[g] for g in gids], 'asi': [asis[a] for a in aids], 'sens': bool(mo['sensitive']),
               'policy': mo['operation_policy_name'], 'initial': mo['initial_date'], 'owner': mo['owner']}
        return row, mo['object_type']


# ====================================================================== generators
ALPHA = 'abcdefghijklmnopqrstuvwxyzABCDEFGHIJKLMNOPQRSTUVWXYZ0123456789 _-./:@'


SHARED = ['tier-1', 'backup', 'prod', 'eu-west', 'A', 'z', 'caf\u00e9', '\u9375-\u00df']


def g_shared(rng, lo=1, hi=12):
    return rng.choice(SHARED) if rng.random() < 0.5 else g_str(rng, lo, hi)


def g_str(rng, lo=1, hi=12):
    r = rng.random()
    n = rng.randint(lo, hi) if r < 0.9 else (lo if r < 0.95 else rng.randint(100, 300))
    alpha = ALPHA if rng.random() < 0.9 else ALPHA + '\u00e9\u00fc\u0416\u4e2d\U0001f511'      # UTF-8 text of 2, 3 and 4 bytes per character
    return ''.join(rng.choice(alpha) for _ in range(n))


def g_bytes(rng, big=300):
    r = rng.random()
    if r < 0.12:
        return b''
    if r < 0.24:
        return bytes([rng.randrange(256)])
    if r < 0.3:
        if big >= 300 and r < 0.265:
            # round 8 (C09O): both sides of the widths a binary column may be declared with (VARBINARY(1024), 2048, 4096)
            n = rng.choice([1023, 1024, 1025, 2047, 2048, 2049, 4095, 4096, 4097])
            blk = bytes(rng.randrange(256) for _ in range(61))
            return (blk * (n // 61 + 1))[:n]
        return bytes(rng.randrange(256) for _ in range(rng.randint(big // 2, big)))
    if r < 0.4:
        return rng.choice([b'\x00', b'\x00' * 16, b'\xff' * 32, b'\x80'])
    return bytes(rng.randrange(256) for _ in range(rng.choice([8, 16, 16, 24, 32, 32, 64, rng.randint(1, 70)])))


# both sides of every width the wire (Integer 32 bit, Big Integer in 8-byte blocks) and the SQL columns (64 bit) have
BOUNDS = [2 ** 31 - 1, 2 ** 31, 2 ** 32 - 1, 2 ** 32, 2 ** 63 - 1, 2 ** 63, 2 ** 64 - 1, 2 ** 64, 2 ** 64 - 59,
          -1, -2 ** 31, -2 ** 31 - 1, -2 ** 63, -2 ** 63 - 1, 2 ** 127, -2 ** 64]


def g_int(rng):
    r = rng.random()
    if r < 0.06:
        return rng.choice([2 ** 31 - 1, -1, -2 ** 31])                         # the ends of the 32-bit Integer, inside
    if r < 0.075:
        return rng.choice([2 ** 31, 2 ** 32 - 1, 2 ** 32, -2 ** 31 - 1])        # just outside: the encoder must refuse
    return rng.choice([0, 0, 1, 1, 2, 7, 8, 12, 16, 96, 128, 255, 256, 65535, 2 ** 31 - 1, rng.randrange(2 ** 31)])


def g_small(rng, small):
    r = rng.random()
    if r < 0.1:
        return rng.choice([2 ** 31 - 1, -1, -2 ** 31])
    return rng.choice(BOUNDS) if r < 0.13 else rng.choice(small)


def g_member(rng, en):
    ms = list(en)
    r = rng.random()
    if r < 0.15:
        return ms[0].value
    if r < 0.3:
        return ms[-1].value
    return rng.choice(ms).value


def g_cp(rng):
    mode = rng.random()
    c = {f: None for f in CP_FIELDS}
    if mode < 0.12:        # nothing truthy: empty structure (known finding) or falsy values only (kept since fix 46c741e)
        for f in rng.sample(['riv', 'ivl', 'tagl', 'fixl', 'invl', 'ctrl', 'icv'], rng.randint(0, 3)):
            c[f] = False if f == 'riv' else 0
        return c
    dens = rng.choice([0.15, 0.5, 1.0])
    for f in CP_FIELDS:
        if rng.random() < dens:
            c[f] = g_member(rng, CP_ENUM[f]) if f in CP_ENUM else (rng.random() < 0.5 if f == 'riv' else g_int(rng))
    if not any(c.values()) and rng.random() < 0.8:
        c['bcm'] = g_member(rng, E.BlockCipherMode)
    return c


def g_ki(rng):
    uid = '' if rng.random() < 0.08 else (str(rng.randint(1, 99)) if rng.random() < 0.6 else g_str(rng, 1, 20))
    return {'uid': uid, 'cp': None if rng.random() < 0.05 else g_cp(rng)}


def g_kwd(rng):
    ob = lambda: None if rng.random() < 0.5 else (b'' if rng.random() < 0.15 else g_bytes(rng, 40))
    return {'method': g_member(rng, E.WrappingMethod), 'eki': g_ki(rng) if rng.random() < 0.7 else None,
            'mski': g_ki(rng) if rng.random() < 0.4 else None, 'mac': ob(), 'iv': ob(),
            'enc': g_member(rng, E.EncodingOption) if rng.random() < 0.6 else None}


def g_kb(rng, fmts, big, wrap_p=0.35, sym=False):
    value = g_bytes(rng, big)
    kwd = g_kwd(rng) if rng.random() < wrap_p else None
    length = 8 * len(value) if (sym and kwd is None and rng.random() < 0.93) else rng.choice([8 * len(value), g_int(rng), 1024, 2048])
    fmt = rng.choice(fmts).value if rng.random() < 0.92 else g_member(rng, E.KeyFormatType)
    alg = g_member(rng, E.CryptographicAlgorithm)
    r = rng.random()
    return {'fmt': fmt, 'value': value, 'alg': None if r < 0.02 else alg, 'len': None if 0.02 <= r < 0.04 else length, 'kwd': kwd}


def g_secret(rng, cls, big=300):
    K = E.KeyFormatType
    if cls == 'CSym':
        return {'k': 'key', 'cls': cls, 'kb': g_kb(rng, [K.RAW], big, sym=True)}
    if cls == 'CPub':
        return {'k': 'key', 'cls': cls, 'kb': g_kb(rng, [K.RAW, K.X_509, K.PKCS_1], big)}
    if cls == 'CPriv':
        return {'k': 'key', 'cls': cls, 'kb': g_kb(rng, [K.RAW, K.PKCS_1, K.PKCS_8], big)}
    if cls == 'CSplit':
        method = g_member(rng, E.SplitKeyMethod)
        prime = rng.choice([None, 0, 1, 257, 2 ** 62 + 5, rng.randrange(2 ** 63)]) if rng.random() < 0.55 else rng.choice(BOUNDS)
        if method == E.SplitKeyMethod.POLYNOMIAL_SHARING_PRIME_FIELD.value and prime is None:
            prime = 104729
        return {'k': 'split', 'kb': g_kb(rng, list(K), big),
                'sp': {'parts': g_small(rng, [0, 1, 2, 3, 5, 255]), 'ident': g_small(rng, [0, 1, 2, 3]),
                       'thresh': g_small(rng, [0, 1, 2, 5]), 'method': method, 'prime': prime}}
    if cls == 'CCert':
        return {'k': 'cert', 'ctype': E.CertificateType.X_509.value if rng.random() < 0.93 else E.CertificateType.PGP.value,
                'value': g_bytes(rng, big)}
    if cls == 'CSecret':
        plain = rng.random() < 0.85
        kb = {'fmt': K.OPAQUE.value, 'value': g_bytes(rng, big), 'alg': None, 'len': None, 'kwd': None}
        if not plain:     # key block fields the server does not keep for secret data
            what = rng.choice(['fmt', 'alg', 'len', 'kwd'])
            if what == 'fmt':
                kb['fmt'] = K.RAW.value
            elif what == 'alg':
                kb['alg'] = g_member(rng, E.CryptographicAlgorithm)
            elif what == 'len':
                kb['len'] = 8 * len(kb['value'])
            else:
                kb['kwd'] = g_kwd(rng)
        return {'k': 'secret', 'dtype': g_member(rng, E.SecretDataType), 'kb': kb}
    return {'k': 'opaque', 'ot': E.OpaqueDataType.NONE.value, 'value': g_bytes(rng, big)}


def g_attrs(rng, ver, secret):
    cls = secret['cls'] if secret['k'] == 'key' else {'split': 'CSplit', 'cert': 'CCert', 'secret': 'CSecret', 'opaque': 'COpaque'}[secret['k']]
    out = []
    nn = rng.choice([0, 1, 1, 2, 3, 5])
    names = []
    for _ in range(nn):
        n = g_shared(rng)
        while n in names:
            n = g_str(rng)
        if names and rng.random() < 0.04:
            n = rng.choice(names)
        names.append(n)
    for i, n in enumerate(names):
        idx = i if rng.random() < 0.93 else None
        out.append({'kind': 'name', 'idx': idx, 'v': n, 't': E.NameType.URI.value if rng.random() < 0.08 else E.NameType.UNINTERPRETED_TEXT_STRING.value})
    for i in range(rng.choice([0, 0, 1, 2, 3, 4])):
        out.append({'kind': 'group', 'idx': i, 'v': g_shared(rng)})
    for i in range(rng.choice([0, 0, 1, 2, 3])):
        out.append({'kind': 'asi', 'idx': i, 'ns': g_shared(rng), 'd': g_shared(rng)})
    if cls != 'COpaque' or rng.random() < 0.05:
        r = rng.random()
        if r < 0.85:
            m = rng.random()
            z = 0 if m < 0.1 else (sum(MASK_BITS) if m < 0.25 else (rng.choice(MASK_BITS) if m < 0.4 else sum(rng.sample(MASK_BITS, rng.randint(1, 8)))))
            if rng.random() < 0.03:
                z |= 1 << rng.randint(24, 30)      # an undefined bit
            if rng.random() < 0.04:
                z = rng.choice([2 ** 31 - 1, 2 ** 31, -1, -2 ** 31, 2 ** 32])      # the ends of the 32-bit Integer
            out.append({'kind': 'mask', 'idx': rng.choice([None, 0]), 'z': z})
    if secret['k'] in ('key', 'split') and rng.random() < 0.3:
        kb = secret['kb']
        if kb['alg'] is not None and rng.random() < 0.7:
            out.append({'kind': 'alg', 'idx': None, 'z': kb['alg'] if rng.random() < 0.85 else g_member(rng, E.CryptographicAlgorithm)})
        if kb['len'] is not None and rng.random() < 0.7:
            out.append({'kind': 'len', 'idx': None, 'z': kb['len'] if rng.random() < 0.85 else g_int(rng)})
    elif secret['k'] == 'cert' and rng.random() < 0.03:
        out.append({'kind': 'len', 'idx': None, 'z': 2048})
    if rng.random() < 0.35 and (ver < (2, 0) or rng.random() < 0.05):
        out.append({'kind': 'policy', 'idx': rng.choice([None, 0]), 's': rng.choice(['default', 'site-policy', 'site-policy', 'p' * 60])})
    if ver >= (1, 4) and rng.random() < 0.5 or rng.random() < 0.02:
        out.append({'kind': 'sens', 'idx': None, 'b': rng.random() < 0.6})
    if rng.random() < 0.03 and out:
        out.append(dict(rng.choice(out)))         # a repeated attribute
    rng.shuffle(out)
    # keep multi-valued attributes in index order after the shuffle
    for kind in ('name', 'group', 'asi'):
        pos = [i for i, a in enumerate(out) if a['kind'] == kind]
        vals = [a for a in out if a['kind'] == kind]
        k = 0
        for i in pos:
            a = dict(vals[k])
            if a['idx'] is not None:
                a['idx'] = k
            out[i] = a
            k += 1
    return out


# ====================================================================== direct oracle (no model)
def cp_empty(c):
    return c is not None and all(v is None for v in c.values())


def oracle_strip_falsy(s):
    """The registered secret with every present-but-empty cryptographic-parameters structure turned into an absent one: what the
    remaining known finding predicts."""
    s = json.loads(json.dumps(s, default=lambda b: {'__b': b.hex()}))

    def fix(o):
        if isinstance(o, dict) and '__b' in o:
            return bytes.fromhex(o['__b'])
        if isinstance(o, dict):
            return {k: fix(v) for k, v in o.items()}
        return o
    s = fix(s)
    kb = s.get('kb')
    if kb and kb['kwd']:
        for which in ('eki', 'mski'):
            ki = kb['kwd'][which]
            if ki is not None and cp_empty(ki['cp']):
                ki['cp'] = None
    return s


def first_diff(a, b, path=''):
    if isinstance(a, dict) and isinstance(b, dict):
        for k in a:
            if k not in b:
                return path + '.' + k
            d = first_diff(a[k], b[k], path + '.' + k)
            if d:
                return d
        return None
    return None if a == b else (path or '.')


def oracle_expected_attrs(ver, uid, now, state, secret, attrs):
    """supplied + server-assigned (+ the object's own algorithm/length/certificate type, + mask 0 / sensitive False defaults)."""
    k = secret['k']
    crypto = k != 'opaque'
    out = [(0, 0, ('VText', str(uid)))]
    out += [(1, i, ('VName', a['v'], a['t'])) for i, a in enumerate(x for x in attrs if x['kind'] == 'name')]
    out.append((2, 0, ('VEnum', OT_OF[secret['cls'] if k == 'key' else {'split': 'CSplit', 'cert': 'CCert', 'secret': 'CSecret', 'opaque': 'COpaque'}[k]].value)))
    if k in ('key', 'split'):
        out.append((3, 0, ('VEnum', secret['kb']['alg'])))
        out.append((4, 0, ('VInt', secret['kb']['len'])))
    if k == 'cert':
        out.append((5, 0, ('VEnum', secret['ctype'])))
    if ver < (2, 0):
        pol = [a['s'] for a in attrs if a['kind'] == 'policy']
        out.append((6, 0, ('VText', pol[0] if pol else 'default')))
    if crypto:
        m = [a['z'] for a in attrs if a['kind'] == 'mask']
        out.append((7, 0, ('VInt', m[0] if m else 0)))
        out.append((8, 0, ('VEnum', state)))
    out.append((9, 0, ('VDate', now)))
    out += [(10, i, ('VText', a['v'])) for i, a in enumerate(x for x in attrs if x['kind'] == 'group')]
    out += [(11, i, ('VAsi', a['ns'], a['d'])) for i, a in enumerate(x for x in attrs if x['kind'] == 'asi')]
    if ver >= (1, 4):
        s = [a['b'] for a in attrs if a['kind'] == 'sens']
        out.append((12, 0, ('VBool', s[0] if s else False)))
    return out


def wf_inputs(secret, attrs):
    """Inputs outside the property's domain of supported values: undefined mask bits; length attribute overriding a 0 length."""
    for a in attrs:
        if a['kind'] == 'mask' and a['z'] >> 24:
            return False
        if a['kind'] == 'len' and secret['k'] in ('key', 'split') and a['z'] != secret['kb']['len']:
            return False
    return True


def oracle_get(ctx, reg, obs, ver, when, err=None):
    s = reg['secret']
    if obs == s or not wf_inputs(reg['secret'], reg['attrs']):
        return
    name = OT_OF[CLASS_OF_SECRET(s)].name
    witness = {'registered': jsonable(s), 'returned': jsonable(obs), 'attributes': jsonable(reg['attrs']), 'registered_under': reg['ver'],
               'read_under': ver, 'when': when, 'error': err}
    if obs is None:
        ctx.violation({'op': 'GET', 'otype': name, 'field': 'whole object', 'returned': 'failure'}, witness,
                      'Get fails for a stored %s' % name)
        return
    if obs == oracle_strip_falsy(s):
        ctx.count('oracle.known.empty-cryptographic-parameters')
        ctx.violation({'op': 'GET', 'field': 'key_wrapping_data.cryptographic_parameters', 'registered': 'empty-structure', 'returned': 'absent'},
                      witness, 'an empty cryptographic-parameters structure inside key wrapping data comes back absent')
        return
    if s['k'] == 'secret':
        norm = dict(s, kb={'fmt': E.KeyFormatType.OPAQUE.value, 'value': s['kb']['value'], 'alg': None, 'len': None, 'kwd': None})
        if obs == norm:
            ctx.count('oracle.known.secret-data-key-block')
            ctx.violation({'op': 'GET', 'otype': 'SECRET_DATA', 'field': 'key_block', 'returned': 'format OPAQUE, no algorithm/length/wrapping data'},
                          witness, 'Secret Data key block fields other than the value are not kept')
            return
    ctx.violation({'op': 'GET', 'otype': name, 'field': first_diff(s, obs) or first_diff(obs, s)}, witness,
                  'Get returns a %s that differs from what was registered' % name)


def oracle_attrs(ctx, reg, obs, ver, state, when, err=None):
    if not wf_inputs(reg['secret'], reg['attrs']):
        return
    exp = oracle_expected_attrs(ver, reg['uid'], reg['now'], state, reg['secret'], reg['attrs'])
    if obs == exp:
        return
    name = OT_OF[CLASS_OF_SECRET(reg['secret'])].name
    witness = {'registered': jsonable(reg['secret']), 'attributes': jsonable(reg['attrs']), 'expected': jsonable(exp), 'returned': jsonable(obs),
               'registered_under': reg['ver'], 'read_under': ver, 'when': when, 'client_call': reg.get('call')}
    if obs is not None:
        untyped = [(n, i, (v[0], v[1], E.NameType.UNINTERPRETED_TEXT_STRING.value) if n == 1 else v) for n, i, v in exp]
        if obs == untyped:
            ctx.count('oracle.known.name-type')
            ctx.violation({'op': 'GET_ATTRIBUTES', 'attribute': 'Name', 'field': 'name_type', 'registered': 'URI',
                           'returned': 'UNINTERPRETED_TEXT_STRING'}, witness, 'the type of a Name attribute is not stored: URI names come back as text strings')
            return
    diff = None
    for a, b in zip(exp, obs or []):
        if a != b:
            diff = ATTR_NAMES[a[0]] if a[0] < len(ATTR_NAMES) else str(a[0])
            break
    if diff is None:
        diff = 'attribute count %d vs %d' % (len(exp), len(obs or []))
    ctx.violation({'op': 'GET_ATTRIBUTES', 'otype': name, 'attribute': diff}, witness,
                  'GetAttributes of a %s differs from supplied + server-assigned attributes at %s' % (name, diff))


def CLASS_OF_SECRET(s):
    return s['cls'] if s['k'] == 'key' else {'split': 'CSplit', 'cert': 'CCert', 'secret': 'CSecret', 'opaque': 'COpaque'}[s['k']]


def jsonable(x):
    if isinstance(x, bytes):
        return {'hex': x.hex()}
    if isinstance(x, dict):
        return {k: jsonable(v) for k, v in x.items()}
    if isinstance(x, (list, tuple)):
        return [jsonable(v) for v in x]
    return x


# ====================================================================== histories
CLASSES = ['CSym', 'CPub', 'CPriv', 'CSplit', 'CCert', 'CSecret', 'COpaque']
VERS = list(KVER)


def run_history(ctx, rng, der, hid, n_events, big, forced=None):
    """One history on a fresh database; returns the list of events (inputs + observations)."""
    st = Stack(ctx, der, chunk=rng.choice([1, 7, 64, 4096]))
    events, live, regs, modified, wrapper = [], [], {}, set(), {}
    forced = list(forced or [])
    try:
        for step in range(n_events):
            st.eng.clock.t += rng.choice([0, 1, 1, 60, 86400])
            r = rng.random()
            when = 'history %d step %d' % (hid, step)
            if forced or r < 0.3 or not live:
                ver = rng.choice(VERS)
                if forced:
                    ver, secret, attrs = forced.pop(0)
                else:
                    secret = g_secret(rng, rng.choice(CLASSES), big)
                    attrs = g_attrs(rng, ver, secret)
                uid, err = st.register(ver, secret, attrs)
                if err and err[0] == 'CLIENT':
                    ctx.count('register.refused-by-client-encoder.%s' % err[1])
                    continue
                events.append({'e': 'register', 'ver': ver, 'owner': 'alice', 'now': st.eng.clock.t, 'secret': secret, 'attrs': attrs, 'obs': uid,
                               'err': err})
                cls = CLASS_OF_SECRET(secret)
                ctx.count('register.%s.%s' % (cls, 'ok' if uid is not None else 'refused'))
                ctx.count('register.version.%d.%d' % ver)
                if secret.get('kb', {}).get('kwd'):
                    ctx.count('register.with-wrapping-data.%s' % ('ok' if uid is not None else 'refused'))
                ctx.case_seen(('reg', jsonable(secret), jsonable(attrs)), nontrivial=True)
                if uid is not None:
                    live.append(uid)
                    regs[uid] = {'uid': uid, 'ver': ver, 'now': st.eng.clock.t, 'secret': secret, 'attrs': attrs, 'state': E.State.PRE_ACTIVE.value}
                    # read straight back, through the client, and from the raw file
                    row, oc = st.row(uid)
                    events.append({'e': 'row', 'uid': uid, 'otype_col': oc, 'obs': row})
                continue
            uid = rng.choice(live)
            reg = regs[uid]
            ver = rng.choice(VERS)
            if r < 0.55:
                obs = st.get(ver, uid)
                events.append({'e': 'get', 'uid': uid, 'obs': obs, 'err': st.last_err, 'ver': ver})
                ctx.count('get.%s' % CLASS_OF_SECRET(reg['secret']))
                ctx.case_seen(('get', uid, hid, step), nontrivial=True)
                oracle_get(ctx, reg, obs, ver, when, st.last_err)
                if obs is not None and rng.random() < 0.3:
                    client_side_convert(ctx, st, ver, uid, obs)
            elif r < 0.75:
                if uid in modified:
                    continue
                obs = st.attrs(ver, uid)
                events.append({'e': 'attrs', 'ver': ver, 'uid': uid, 'obs': obs, 'err': st.last_err})
                ctx.count('get_attributes.%d.%d' % ver)
                ctx.case_seen(('attrs', uid, hid, step), nontrivial=True)
                oracle_attrs(ctx, reg, obs, ver, reg['state'], when, st.last_err)
            elif r < 0.8:
                if uid in modified:
                    continue
                obs = st.attr_list(ver, uid)
                events.append({'e': 'attrlist', 'ver': ver, 'uid': uid, 'obs': obs})
                ctx.count('get_attribute_list')
                exp = [a[0] for a in oracle_expected_attrs(ver, uid, reg['now'], reg['state'], reg['secret'], reg['attrs'])]
                if obs is None or sorted(set(obs)) != sorted(set(exp)):
                    ctx.violation({'op': 'GET_ATTRIBUTE_LIST', 'otype': CLASS_OF_SECRET(reg['secret'])},
                                  {'registered': jsonable(reg['secret']), 'attributes': jsonable(reg['attrs']), 'returned': obs, 'expected': exp, 'when': when},
                                  'GetAttributeList names differ from supplied + server-assigned attributes')
            elif r < 0.85:
                st.eng.restart()
                events.append({'e': 'restart'})
                ctx.count('restart')
            elif r < 0.89:
                if reg['secret']['k'] != 'opaque' and reg['state'] == E.State.PRE_ACTIVE.value and st.activate(ver, uid):
                    reg['state'] = E.State.ACTIVE.value
                    events.append({'e': 'activate', 'uid': uid})
                    ctx.count('activate')
            elif r < 0.92:
                if len(live) > 1 and reg['state'] == E.State.PRE_ACTIVE.value and st.destroy(ver, uid):
                    live.remove(uid)
                    events.append({'e': 'destroy', 'uid': uid})
                    ctx.count('destroy')
            elif r < 0.95:
                # ModifyAttribute of a multi-valued attribute of ANOTHER object: this object's attributes must not move
                sib = [u for u in live if u != uid and u not in modified]
                cand = []
                for u in sib:
                    for kind in ('group', 'name', 'asi'):
                        n_inst = len([a for a in regs[u]['attrs'] if a['kind'] == kind])
                        if n_inst:
                            cand.append((u, kind, n_inst))
                if cand:
                    u, kind, n_inst = rng.choice(cand)
                    if st.modify_sibling(u, kind, rng.randrange(n_inst), 'renamed-%d' % step):
                        modified.add(u)
                        events.append({'e': 'other'})
                        ctx.count('modify-attribute-on-sibling.%s' % kind)
            elif r < 0.985:
                # batch [Get wrapped under an active wrapping key, Create]: the Create's commit must not persist the wrapped bytes
                targets = [u for u in live if regs[u]['secret']['k'] == 'key' and regs[u]['secret']['cls'] == 'CSym'
                           and regs[u]['secret']['kb']['kwd'] is None and len(regs[u]['secret']['kb']['value']) in (16, 24, 32, 64)
                           and u != wrapper.get('uid')]
                if targets:
                    if 'uid' not in wrapper:
                        wsec = {'k': 'key', 'cls': 'CSym', 'kb': {'fmt': E.KeyFormatType.RAW.value, 'value': bytes(range(16)), 'alg': 3, 'len': 128, 'kwd': None}}
                        wattrs = [{'kind': 'mask', 'idx': 0, 'z': E.CryptographicUsageMask.WRAP_KEY.value | E.CryptographicUsageMask.UNWRAP_KEY.value}]
                        wuid, _ = st.register((1, 2), wsec, wattrs)
                        events.append({'e': 'register', 'ver': (1, 2), 'owner': 'alice', 'now': st.eng.clock.t, 'secret': wsec, 'attrs': wattrs, 'obs': wuid})
                        if wuid is not None and st.activate((1, 2), wuid):
                            live.append(wuid)
                            regs[wuid] = {'uid': wuid, 'ver': (1, 2), 'now': st.eng.clock.t, 'secret': wsec, 'attrs': wattrs, 'state': E.State.ACTIVE.value}
                            events.append({'e': 'activate', 'uid': wuid})
                            wrapper['uid'] = wuid
                    if 'uid' in wrapper:
                        okg, created = st.wrapped_get_batch(ver, rng.choice(targets), wrapper['uid'])
                        events.append({'e': 'other'})
                        if created is not None:
                            events.extend(make_events(st, 'KCreate', ver, st.eng.clock.t, KDRV_CREATE_TEMPLATE, created)[0])
                        ctx.count('batch.wrapped-get+create.%s' % ('ok' if okg else 'refused'))
            else:
                st.other(ver, rng)
                events.append({'e': 'other'})
                ctx.count('other-operation')
        # every surviving object once more at the end, after a final re-open
        st.eng.restart()
        events.append({'e': 'restart'})
        for uid in live:
            ver = rng.choice(VERS)
            obs = st.get(ver, uid)
            events.append({'e': 'get', 'uid': uid, 'obs': obs, 'err': st.last_err, 'ver': ver})
            oracle_get(ctx, regs[uid], obs, ver, 'history %d end' % hid, st.last_err)
            if uid in modified:
                continue
            obs = st.attrs(ver, uid)
            events.append({'e': 'attrs', 'ver': ver, 'uid': uid, 'obs': obs})
            oracle_attrs(ctx, regs[uid], obs, ver, regs[uid]['state'], 'history %d end' % hid, st.last_err)
            ctx.cov['evaluations'] += 2
    finally:
        st.close()
    return events


def make_events(st, kind, ver, now, attrs, uid):
    """The model event of a Create / DeriveKey: the generated material is read back with Get and handed to the model as an input."""
    got = st.get((1, 2), uid)
    if got is None or 'kb' not in got:
        return [{'e': 'foreign'}], False
    return [{'e': 'make', 'kind': kind, 'ver': ver, 'owner': 'alice', 'now': now, 'mat': got['kb']['value'], 'attrs': attrs, 'obs': uid}], True


def pair_events(st, ver, now, lc, lu, lr, pub, priv):
    gu, gr = st.get((1, 2), pub), st.get((1, 2), priv)
    if gu is None or gr is None:
        return [{'e': 'foreign'}, {'e': 'foreign'}], False
    return [{'e': 'makepair', 'ver': ver, 'owner': 'alice', 'now': now, 'fu': gu['kb']['fmt'], 'mu': gu['kb']['value'], 'fr': gr['kb']['fmt'],
             'mr': gr['kb']['value'], 'lc': lc, 'lu': lu, 'lr': lr, 'obs': (pub, priv)}], True


KDRV_CREATE_TEMPLATE = [{'kind': 'alg', 'idx': None, 'z': 3}, {'kind': 'len', 'idx': None, 'z': 256}, {'kind': 'mask', 'idx': None, 'z': 12}]


def scenario_history(ctx, der):
    """Scripted history run before the generated ones: objects sharing multi-valued attribute values in different orders, a
    ModifyAttribute on a sibling, and a batch whose wrapped Get is followed by a committing Create; every object is read back
    plainly, before and after a re-open."""
    st = Stack(ctx, der, chunk=7)
    events, regs = [], {}
    K = E.KeyFormatType

    def sym(value):
        return {'k': 'key', 'cls': 'CSym', 'kb': {'fmt': K.RAW.value, 'value': value, 'alg': 3, 'len': 8 * len(value), 'kwd': None}}

    def reg(ver, secret, attrs):
        st.eng.clock.t += 1
        uid, err = st.register(ver, secret, attrs)
        events.append({'e': 'register', 'ver': ver, 'owner': 'alice', 'now': st.eng.clock.t, 'secret': secret, 'attrs': attrs, 'obs': uid})
        if uid is not None:
            regs[uid] = {'uid': uid, 'ver': ver, 'now': st.eng.clock.t, 'secret': secret, 'attrs': attrs, 'state': E.State.PRE_ACTIVE.value}
            row, oc = st.row(uid)
            events.append({'e': 'row', 'uid': uid, 'otype_col': oc, 'obs': row})
        return uid

    def read_all(when, skip=()):
        for uid in sorted(regs):
            for ver in ((1, 0), (1, 4), (2, 0)):
                obs = st.get(ver, uid)
                events.append({'e': 'get', 'uid': uid, 'obs': obs, 'ver': ver})
                oracle_get(ctx, regs[uid], obs, ver, when, st.last_err)
                if uid in skip:
                    continue
                obs = st.attrs(ver, uid)
                events.append({'e': 'attrs', 'ver': ver, 'uid': uid, 'obs': obs})
                oracle_attrs(ctx, regs[uid], obs, ver, regs[uid]['state'], when, st.last_err)
                ctx.cov['evaluations'] += 2

    def multi(groups=(), names=(), asi=()):
        out = [{'kind': 'group', 'idx': i, 'v': g} for i, g in enumerate(groups)]
        out += [{'kind': 'name', 'idx': i, 'v': n, 't': 1} for i, n in enumerate(names)]
        out += [{'kind': 'asi', 'idx': i, 'ns': a, 'd': b} for i, (a, b) in enumerate(asi)]
        return out
    try:
        a = reg((1, 2), sym(b'\x11' * 16), multi(['backup'], ['shared-name'], [('ns', 'data')]))
        b = reg((1, 4), sym(b'\x22' * 32), multi(['tier-1', 'backup'], ['own-name', 'shared-name-2'], [('zz', 'y'), ('ns', 'data')]))
        c = reg((1, 0), {'k': 'opaque', 'ot': E.OpaqueDataType.NONE.value, 'value': b'o'}, multi(['backup', 'tier-1', 'backup'], [], [('ns', 'data'), ('ns', 'data')]))
        read_all('scenario: after the three registrations')
        ok1 = st.modify_sibling(a, 'group', 0, 'renamed')
        ok2 = st.modify_sibling(a, 'asi', 0, 'changed')
        events.append({'e': 'other'})
        ctx.count('scenario.modify-sibling.%s' % ('ok' if ok1 and ok2 else 'refused'))
        read_all('scenario: after ModifyAttribute on the first object', skip=(a,))
        w = reg((1, 2), sym(bytes(range(16))), [{'kind': 'mask', 'idx': 0, 'z': 0x30}])
        if st.activate((1, 2), w):
            regs[w]['state'] = E.State.ACTIVE.value
            events.append({'e': 'activate', 'uid': w})
        for ver in ((1, 2), (2, 0)):
            okg, created = st.wrapped_get_batch(ver, b, w)
            events.append({'e': 'other'})
            if created is not None:
                events.extend(make_events(st, 'KCreate', ver, st.eng.clock.t, KDRV_CREATE_TEMPLATE, created)[0])
            ctx.count('scenario.batch.wrapped-get+create.%s' % ('ok' if okg else 'refused'))
        read_all('scenario: after the batch [wrapped Get, Create]', skip=(a,))
        st.eng.restart()
        events.append({'e': 'restart'})
        read_all('scenario: after re-opening the database', skip=(a,))
    finally:
        st.close()
    return events


def client_history(ctx, rng, der, hid, n_calls):
    """Application-level history: ONE ProxyKmipClient object (one KMIPProxy) issues a sequence of create / create_key_pair /
    register / derive_key calls with varying optional arguments; every object is then read back (same client, the other
    versions' clients, after a re-open) and must report exactly what ITS call supplied plus the server-assigned attributes.
    The caller's argument lists must come back unchanged.  Register calls are also replayed on the model; the other operations
    take identifiers the model does not describe (EForeign)."""
    from kmip.pie import objects as po
    from kmip.pie import factory as pfactory
    M = E.CryptographicUsageMask
    st = Stack(ctx, der, chunk=rng.choice([7, 4096]))
    wver = rng.choice(VERS)
    cl = st.clients[wver]
    events, regs, derivable, modelled = [], {}, [], set()
    members = list(M)

    def g_masks():
        r = rng.random()
        if r < 0.25:
            return None
        if r < 0.35:
            return []
        ms = rng.sample(members, rng.randint(1, 4))
        if rng.random() < 0.25:
            # round 8 (C05O): a list of flags denotes their union; naming a flag twice must not change the mask
            ms.insert(rng.randrange(len(ms) + 1), rng.choice(ms))
        return ms

    def g_policy():
        return None if (wver >= (2, 0) or rng.random() < 0.6) else rng.choice(['default', 'site-policy'])

    def mask_int(ms):
        z = 0
        for m in ms or []:
            z |= m.value
        return z

    def note(uid, cls, alg, length, attrs, call):
        regs[uid] = {'uid': uid, 'ver': wver, 'now': st.eng.clock.t, 'state': E.State.PRE_ACTIVE.value, 'attrs': attrs, 'call': call,
                     'secret': ({'k': 'key', 'cls': cls, 'kb': {'alg': alg, 'len': length}} if cls in ('CSym', 'CPub', 'CPriv')
                                else {'k': {'CSecret': 'secret', 'COpaque': 'opaque', 'CCert': 'cert'}[cls], 'ctype': 1})}

    def unchanged(before, after, call):
        if before != after:
            ctx.violation({'op': 'CLIENT', 'what': 'caller argument mutated'}, {'call': call, 'before': repr(before), 'after': repr(after)},
                          'the client library changes a list the application passed in')

    def read_back(when, uids=None):
        for uid in sorted(uids if uids is not None else regs):
            reg = regs[uid]
            for ver in [wver] + rng.sample(VERS, 2):
                obs = st.attrs(ver, uid)
                if uid in modelled:
                    events.append({'e': 'attrs', 'ver': ver, 'uid': uid, 'obs': obs})
                oracle_attrs(ctx, reg, obs, ver, reg['state'], when, st.last_err)
                ctx.cov['evaluations'] += 1
            ctx.case_seen(('client-readback', hid, uid, when), nontrivial=True)
    try:
        for k in range(n_calls):
            st.eng.clock.t += rng.choice([1, 60])
            r = rng.random()
            call_no = 'call #%d on one ProxyKmipClient(kmip_version=%d.%d)' % ((k + 1,) + wver)
            try:
                if r < 0.45:
                    masks, name, pol = g_masks(), (g_shared(rng) if rng.random() < 0.6 else None), g_policy()
                    if masks is not None and M.DERIVE_KEY not in masks and rng.random() < 0.4:
                        masks.append(M.DERIVE_KEY)
                    alg, length = rng.choice([(E.CryptographicAlgorithm.AES, 128), (E.CryptographicAlgorithm.AES, 192), (E.CryptographicAlgorithm.AES, 256),
                                              (E.CryptographicAlgorithm.CAMELLIA, 128), (E.CryptographicAlgorithm.TRIPLE_DES, 192)])
                    keep = None if masks is None else list(masks)
                    call = '%s: create(%s, %d, operation_policy_name=%r, name=%r, cryptographic_usage_mask=%r)' % (
                        call_no, alg.name, length, pol, name, None if masks is None else [m.name for m in masks])
                    uid = int(cl.create(alg, length, operation_policy_name=pol, name=name, cryptographic_usage_mask=masks))
                    unchanged(keep, masks, call)
                    attrs = [{'kind': 'mask', 'idx': None, 'z': M.ENCRYPT.value | M.DECRYPT.value | mask_int(masks)}]
                    if name:
                        attrs.append({'kind': 'name', 'idx': None, 'v': name, 't': 1})
                    if pol:
                        attrs.append({'kind': 'policy', 'idx': None, 's': pol})
                    note(uid, 'CSym', alg.value, length, attrs, call)
                    evs, ok_m = make_events(st, 'KCreate', wver, st.eng.clock.t,
                                            [{'kind': 'alg', 'idx': None, 'z': alg.value}, {'kind': 'len', 'idx': None, 'z': length}] + attrs, uid)
                    events.extend(evs)
                    if ok_m:
                        modelled.add(uid)
                    if M.DERIVE_KEY in (masks or []):
                        derivable.append(uid)
                    ctx.count('client.create')
                elif r < 0.6:
                    pm, vm = (g_masks() or [rng.choice(members)]), (g_masks() or [rng.choice(members)])
                    pn, vn = (g_shared(rng) if rng.random() < 0.5 else None), (g_shared(rng) if rng.random() < 0.5 else None)
                    pol = g_policy()
                    keep = (None if pm is None else list(pm), None if vm is None else list(vm))
                    call = '%s: create_key_pair(RSA, 1024, operation_policy_name=%r, public_name=%r, public_usage_mask=%r, private_name=%r, private_usage_mask=%r)' % (
                        call_no, pol, pn, None if pm is None else [m.name for m in pm], vn, None if vm is None else [m.name for m in vm])
                    pub, priv = cl.create_key_pair(E.CryptographicAlgorithm.RSA, 1024, operation_policy_name=pol, public_name=pn,
                                                   public_usage_mask=pm, private_name=vn, private_usage_mask=vm)
                    unchanged(keep, (pm, vm), call)
                    tm = {}
                    for uid, cls, ms, nm in ((int(pub), 'CPub', pm, pn), (int(priv), 'CPriv', vm, vn)):
                        attrs = [{'kind': 'mask', 'idx': None, 'z': mask_int(ms)}]
                        if nm:
                            attrs.append({'kind': 'name', 'idx': None, 'v': nm, 't': 1})
                        tm[cls] = list(attrs)
                        if pol:
                            attrs.append({'kind': 'policy', 'idx': None, 's': pol})
                        note(uid, cls, E.CryptographicAlgorithm.RSA.value, 1024, attrs, call)
                    lc = ([{'kind': 'policy', 'idx': None, 's': pol}] if pol else []) + [
                        {'kind': 'alg', 'idx': None, 'z': E.CryptographicAlgorithm.RSA.value}, {'kind': 'len', 'idx': None, 'z': 1024}]
                    evs, ok_m = pair_events(st, wver, st.eng.clock.t, lc, tm['CPub'], tm['CPriv'], int(pub), int(priv))
                    events.extend(evs)
                    if ok_m:
                        modelled.update([int(pub), int(priv)])
                    ctx.count('client.create_key_pair')
                elif r < 0.85:
                    masks = g_masks()
                    nm = g_shared(rng)
                    asi = [{'application_namespace': g_shared(rng), 'application_data': g_shared(rng)} for _ in range(rng.choice([0, 0, 1, 2]))]
                    keep = (None if masks is None else list(masks), [dict(a) for a in asi])
                    kind = rng.choice(['sym', 'secret', 'pub', 'opaque'])
                    if kind == 'sym':
                        value = bytes(rng.randrange(256) for _ in range(rng.choice([16, 32])))
                        obj = po.SymmetricKey(E.CryptographicAlgorithm.AES, 8 * len(value), value, masks=masks, name=nm, app_specific_info=asi or None)
                    elif kind == 'secret':
                        obj = po.SecretData(g_bytes(rng, 40) or b'x', E.SecretDataType.PASSWORD, masks=masks, name=nm, app_specific_info=asi or None)
                    elif kind == 'pub':
                        obj = po.PublicKey(E.CryptographicAlgorithm.RSA, 1024, g_bytes(rng, 60) or b'k', E.KeyFormatType.PKCS_1, masks=masks, name=nm,
                                           app_specific_info=asi or None)
                    else:
                        obj = po.OpaqueObject(g_bytes(rng, 40), E.OpaqueDataType.NONE, name=nm)
                        asi, masks = [], None
                    call = '%s: register(%s(masks=%r, name=%r, app_specific_info=%r))' % (
                        call_no, type(obj).__name__, None if masks is None else [m.name for m in masks], nm, asi)
                    secret = abs_secret(pfactory.ObjectFactory().convert(obj))
                    attrs = []
                    if kind != 'opaque':
                        attrs.append({'kind': 'mask', 'idx': None, 'z': mask_int(obj.cryptographic_usage_masks)})
                    attrs += [{'kind': 'name', 'idx': None, 'v': n, 't': 1} for n in obj.names]
                    attrs += [{'kind': 'asi', 'idx': 0, 'ns': a['application_namespace'], 'd': a['application_data']} for a in asi]
                    try:
                        uid = int(cl.register(obj))
                    except Exception:
                        uid = None
                    unchanged(keep, (masks, asi) if kind != 'opaque' else keep, call)
                    events.append({'e': 'register', 'ver': wver, 'owner': 'alice', 'now': st.eng.clock.t, 'secret': secret, 'attrs': attrs, 'obs': uid})
                    ctx.count('client.register.%s' % ('ok' if uid is not None else 'refused'))
                    if uid is not None:
                        regs[uid] = {'uid': uid, 'ver': wver, 'now': st.eng.clock.t, 'state': E.State.PRE_ACTIVE.value, 'attrs': attrs, 'call': call,
                                     'secret': secret}
                        modelled.add(uid)
                        obs = st.get(rng.choice(VERS), uid)
                        events.append({'e': 'get', 'uid': uid, 'obs': obs})
                        oracle_get(ctx, regs[uid], obs, wver, 'client history %d %s' % (hid, call_no), st.last_err)
                elif derivable:
                    base = rng.choice(derivable)
                    masks = g_masks()
                    keep = None if masks is None else list(masks)
                    length = rng.choice([128, 256])
                    call = '%s: derive_key(SYMMETRIC_KEY, [%d], HASH, sha256, cryptographic_length=%d, cryptographic_algorithm=AES, cryptographic_usage_mask=%r)' % (
                        call_no, base, length, None if masks is None else [m.name for m in masks])
                    to_secret = rng.random() < 0.4
                    kw = {'cryptographic_length': length}
                    if not to_secret:
                        kw['cryptographic_algorithm'] = E.CryptographicAlgorithm.AES
                    if masks:
                        kw['cryptographic_usage_mask'] = masks
                    uid = int(cl.derive_key(E.ObjectType.SECRET_DATA if to_secret else E.ObjectType.SYMMETRIC_KEY, [str(base)], E.DerivationMethod.HASH,
                                            {'cryptographic_parameters': {'hashing_algorithm': E.HashingAlgorithm.SHA_256}}, **kw))
                    unchanged(keep, masks, call + (' -> SECRET_DATA' if to_secret else ''))
                    note(uid, 'CSecret' if to_secret else 'CSym', E.CryptographicAlgorithm.AES.value, length,
                         [{'kind': 'mask', 'idx': None, 'z': mask_int(masks)}] if masks else [], call)
                    evs, ok_m = make_events(st, 'KDeriveSecret' if to_secret else 'KDeriveSym', wver, st.eng.clock.t,
                                            [{'kind': 'len', 'idx': None, 'z': length}]
                                            + ([] if to_secret else [{'kind': 'alg', 'idx': None, 'z': E.CryptographicAlgorithm.AES.value}])
                                            + ([{'kind': 'mask', 'idx': None, 'z': mask_int(masks)}] if masks else []), uid)
                    events.extend(evs)
                    if ok_m:
                        modelled.add(uid)
                    ctx.count('client.derive_key')
            except Exception as e:
                st.clients[wver].proxy.protocol.socket.rbuf = b''
                ctx.count('client.call-refused.%s.%s' % ('create' if r < 0.45 else 'create_key_pair' if r < 0.6 else 'register' if r < 0.85 else 'derive_key', str(e)[:70]))
            if rng.random() < 0.3:
                read_back('client history %d after %s' % (hid, call_no))
        read_back('client history %d, all calls done' % hid)
        st.eng.restart()
        events.append({'e': 'restart'})
        read_back('client history %d, after re-opening the database' % hid)
    finally:
        st.close()
    return events


def switch_history(ctx, rng, der):
    """ONE ProxyKmipClient object is moved between protocol versions with the documented `kmip_version` setter: for every ordered
    pair (v1, v2) it talks under v1, is switched to v2, and must then behave as a fresh v2 client - GetAttributes of objects whose
    attribute sets differ between versions (Sensitive from 1.4, Operation Policy Name until 1.4) and a Register that needs v2."""
    st = Stack(ctx, der, chunk=4096)
    events, regs = [], {}
    K = E.KeyFormatType
    try:
        def reg_with(cl, ver, secret, attrs, call):
            st.eng.clock.t += 1
            uid, err = st.register_with(cl, secret, attrs)
            if err and err[0] == 'CLIENT':
                ctx.count('switch.register.refused-by-client')
                return None
            events.append({'e': 'register', 'ver': ver, 'owner': 'alice', 'now': st.eng.clock.t, 'secret': secret, 'attrs': attrs, 'obs': uid, 'err': err})
            if uid is not None:
                regs[uid] = {'uid': uid, 'ver': ver, 'now': st.eng.clock.t, 'secret': secret, 'attrs': attrs, 'state': E.State.PRE_ACTIVE.value, 'call': call}
            return uid
        sym = {'k': 'key', 'cls': 'CSym', 'kb': {'fmt': K.RAW.value, 'value': b'\x07' * 16, 'alg': 3, 'len': 128, 'kwd': None}}
        base = [reg_with(st.clients[(1, 4)], (1, 4), sym, [{'kind': 'sens', 'idx': None, 'b': True}, {'kind': 'policy', 'idx': None, 's': 'site-policy'},
                                                             {'kind': 'mask', 'idx': None, 'z': 12}], 'fresh 1.4 client'),
                reg_with(st.clients[(1, 0)], (1, 0), {'k': 'opaque', 'ot': E.OpaqueDataType.NONE.value, 'value': b'o'},
                         [{'kind': 'name', 'idx': 0, 'v': 'n', 't': 1}], 'fresh 1.0 client')]
        cl = st.new_client((1, 2))
        for v1 in VERS:
            for v2 in VERS:
                if v1 == v2:
                    continue
                cl.kmip_version = KVER[v1]
                st.attrs_with(cl, base[1])                      # one exchange under v1
                cl.kmip_version = KVER[v2]
                call = 'one ProxyKmipClient switched kmip_version %d.%d -> %d.%d with the setter' % (v1 + v2)
                for uid in [u for u in base if u is not None] + ([rng.choice(sorted(regs))] if regs else []):
                    got = st.attrs_with(cl, uid)
                    err = st.last_err
                    fresh = st.attrs(v2, uid)
                    events.append({'e': 'attrs', 'ver': v2, 'uid': uid, 'obs': got})
                    oracle_attrs(ctx, dict(regs[uid], call=call + '; object from: ' + str(regs[uid].get('call'))), got, v2, regs[uid]['state'], call, err)
                    if got != fresh:
                        ctx.violation({'op': 'GET_ATTRIBUTES', 'client': 'switched-version', 'from': '%d.%d' % v1, 'to': '%d.%d' % v2},
                                      {'call': call, 'uid': uid, 'switched_client': jsonable(got), 'fresh_client': jsonable(fresh)},
                                      'a client switched to another KMIP version reports other attributes than a fresh client of that version')
                    ctx.cov['evaluations'] += 1
                ctx.case_seen(('switch', v1, v2), nontrivial=True)
                ctx.count('switch.pair')
                # a Register that is only valid under v2
                attrs = [{'kind': 'mask', 'idx': None, 'z': 3}]
                if v2 >= (1, 4):
                    attrs.append({'kind': 'sens', 'idx': None, 'b': True})
                if v2 < (2, 0):
                    attrs.append({'kind': 'policy', 'idx': None, 's': 'site-policy'})
                uid = reg_with(cl, v2, sym, attrs, call)
                if uid is not None:
                    got = st.attrs(v2, uid)
                    events.append({'e': 'attrs', 'ver': v2, 'uid': uid, 'obs': got})
                    oracle_attrs(ctx, regs[uid], got, v2, regs[uid]['state'], call, st.last_err)
                else:
                    ctx.violation({'op': 'REGISTER', 'client': 'switched-version', 'from': '%d.%d' % v1, 'to': '%d.%d' % v2},
                                  {'call': call, 'attributes': jsonable(attrs), 'answer': jsonable(events[-1].get('err'))},
                                  'a client switched to another KMIP version cannot register what a fresh client of that version can')
    finally:
        st.close()
    return events


def keypair_history(ctx, rng, der, hid, n_pairs):
    """CreateKeyPair with the template dimension (KMIP 4.2): every optional attribute is placed in the common, the public-key and/or
    the private-key template with different values; each key must report the value of its own template if that template has the
    attribute, else the common one - right after creation, under other versions and after a re-open."""
    st = Stack(ctx, der, chunk=rng.choice([7, 4096]))
    events, regs, modelled = [], {}, set()
    M = E.CryptographicUsageMask
    PLACES = [(), ('c',), ('u',), ('r',), ('c', 'u'), ('c', 'r'), ('u', 'r'), ('c', 'u', 'r')]
    try:
        for k in range(n_pairs):
            st.eng.clock.t += 5
            ver = rng.choice(VERS)
            cl = st.clients[ver]
            tmpl = {'c': [], 'u': [], 'r': []}

            def put(kind, make, places=None):
                pl = places if places is not None else rng.choice(PLACES)
                for where in pl:
                    tmpl[where] += make(where)
                return pl
            tag = {'c': 'common', 'u': 'public', 'r': 'private'}
            put('name', lambda w: [{'kind': 'name', 'idx': i, 'v': '%s-name-%d-%d' % (tag[w], k, i), 't': 1} for i in range(rng.choice([1, 1, 2]))])
            put('group', lambda w: [{'kind': 'group', 'idx': i, 'v': '%s-group-%d' % (tag[w], i)} for i in range(rng.choice([1, 2]))])
            put('asi', lambda w: [{'kind': 'asi', 'idx': 0, 'ns': tag[w] + '-ns', 'd': 'data-%d' % k}])
            if ver < (2, 0):
                put('policy', lambda w: [{'kind': 'policy', 'idx': None, 's': {'c': 'default', 'u': 'site-policy', 'r': 'p' * 60}[w]}])
            if ver >= (1, 4):
                put('sens', lambda w: [{'kind': 'sens', 'idx': None, 'b': {'c': False, 'u': True, 'r': True}[w] if rng.random() < 0.7 else False}])
            # the mask must reach both keys: common, or both specific templates, possibly all three
            put('mask', lambda w: [{'kind': 'mask', 'idx': None, 'z': {'c': M.SIGN.value | M.VERIFY.value, 'u': M.VERIFY.value, 'r': M.SIGN.value | M.DECRYPT.value}[w]}],
                rng.choice([('c',), ('u', 'r'), ('c', 'u'), ('c', 'r'), ('c', 'u', 'r')]))
            # algorithm and length must agree on both keys; a common length that both templates override tests "specific wins"
            put('alg', lambda w: [{'kind': 'alg', 'idx': None, 'z': E.CryptographicAlgorithm.RSA.value}], rng.choice([('c',), ('u', 'r'), ('c', 'u', 'r'), ('c', 'r')]))
            lp = rng.choice([('c',), ('u', 'r'), ('c', 'u', 'r')])
            put('len', lambda w: [{'kind': 'len', 'idx': None, 'z': 2048 if (w == 'c' and lp == ('c', 'u', 'r')) else 1024}], lp)
            for w in tmpl:
                rng.shuffle(tmpl[w])
                for kind in ('name', 'group'):                 # keep instance order = index order
                    inst = [a for a in tmpl[w] if a['kind'] == kind]
                    pos = [i for i, a in enumerate(tmpl[w]) if a['kind'] == kind]
                    for j, i in enumerate(pos):
                        tmpl[w][i] = dict(inst[j], idx=j)
            call = 'CreateKeyPair #%d under %d.%d: common=%s public=%s private=%s' % (k + 1, ver[0], ver[1], jsonable(tmpl['c']), jsonable(tmpl['u']), jsonable(tmpl['r']))
            try:
                r = cl.proxy.create_key_pair(
                    common_template_attribute=cobjects.TemplateAttribute(attributes=[build_attr(a) for a in tmpl['c']], tag=E.Tags.COMMON_TEMPLATE_ATTRIBUTE),
                    private_key_template_attribute=cobjects.TemplateAttribute(attributes=[build_attr(a) for a in tmpl['r']], tag=E.Tags.PRIVATE_KEY_TEMPLATE_ATTRIBUTE),
                    public_key_template_attribute=cobjects.TemplateAttribute(attributes=[build_attr(a) for a in tmpl['u']], tag=E.Tags.PUBLIC_KEY_TEMPLATE_ATTRIBUTE))
            except Exception as e:
                cl.proxy.protocol.socket.rbuf = b''
                ctx.count('keypair.refused-by-client.%s' % type(e).__name__)
                continue
            if r.result_status.value != E.ResultStatus.SUCCESS:
                ctx.count('keypair.refused.%s' % (r.result_message.value if r.result_message else '')[:60])
                continue
            ctx.count('keypair.created')
            ctx.case_seen(('keypair', hid, k, call), nontrivial=True)
            evs, ok_m = pair_events(st, ver, st.eng.clock.t, tmpl['c'], tmpl['u'], tmpl['r'], int(r.public_key_uuid), int(r.private_key_uuid))
            events.extend(evs)
            if ok_m:
                modelled.update([int(r.public_key_uuid), int(r.private_key_uuid)])
            for uid, cls, own in ((int(r.public_key_uuid), 'CPub', 'u'), (int(r.private_key_uuid), 'CPriv', 'r')):
                eff = []
                for kind in ('name', 'group', 'asi', 'policy', 'sens', 'mask', 'alg', 'len'):
                    mine = [a for a in tmpl[own] if a['kind'] == kind]
                    eff += mine if mine else [a for a in tmpl['c'] if a['kind'] == kind]
                length = [a['z'] for a in eff if a['kind'] == 'len'][0]
                regs[uid] = {'uid': uid, 'ver': ver, 'now': st.eng.clock.t, 'state': E.State.PRE_ACTIVE.value, 'call': call,
                             'attrs': [a for a in eff if a['kind'] not in ('alg', 'len')],
                             'secret': {'k': 'key', 'cls': cls, 'kb': {'alg': E.CryptographicAlgorithm.RSA.value, 'len': length}}}
            for uid in sorted(regs)[-2:]:
                for v in [ver] + rng.sample(VERS, 2):
                    obs = st.attrs(v, uid)
                    if uid in modelled:
                        events.append({'e': 'attrs', 'ver': v, 'uid': uid, 'obs': obs})
                    oracle_attrs(ctx, regs[uid], obs, v, regs[uid]['state'], 'key pair history %d after %s' % (hid, call[:40]), st.last_err)
                    ctx.cov['evaluations'] += 1
        st.eng.restart()
        events.append({'e': 'restart'})
        for uid in sorted(regs):
            v = rng.choice(VERS)
            obs = st.attrs(v, uid)
            if uid in modelled:
                events.append({'e': 'attrs', 'ver': v, 'uid': uid, 'obs': obs})
            oracle_attrs(ctx, regs[uid], obs, v, regs[uid]['state'], 'key pair history %d after re-opening the database' % hid, st.last_err)
            obs = st.attr_list(v, uid)
            if uid in modelled:
                events.append({'e': 'attrlist', 'ver': v, 'uid': uid, 'obs': obs})
            exp = [a[0] for a in oracle_expected_attrs(v, uid, regs[uid]['now'], regs[uid]['state'], regs[uid]['secret'], regs[uid]['attrs'])]
            if obs is None or sorted(set(obs)) != sorted(set(exp)):
                ctx.violation({'op': 'GET_ATTRIBUTE_LIST', 'otype': regs[uid]['secret']['cls']},
                              {'client_call': regs[uid]['call'], 'returned': obs, 'expected': exp}, 'GetAttributeList names differ from supplied + server-assigned attributes')
    finally:
        st.close()
    return events


CONVERT_CASES = []


def abs_pie(p):
    """kmip.pie object -> the model's pobj fields the client-side conversion fills."""
    from kmip.pie import objects as po
    cls = {po.SymmetricKey: 'CSym', po.PublicKey: 'CPub', po.PrivateKey: 'CPriv', po.SplitKey: 'CSplit', po.X509Certificate: 'CCert',
           po.SecretData: 'CSecret', po.OpaqueObject: 'COpaque'}[type(p)]
    out = {'cls': cls, 'value': bytes(p.value), 'alg': None, 'len': None, 'fmt': None, 'kc': None, 'parts': None, 'ident': None, 'thresh': None,
           'spm': None, 'prime': None, 'sub': None}
    if isinstance(p, po.Key):
        out.update(alg=ev(p.cryptographic_algorithm), len=p.cryptographic_length, fmt=ev(p.key_format_type))
        names = ['block_cipher_mode', 'padding_method', 'hashing_algorithm', 'key_role_type', 'digital_signature_algorithm',
                 'cryptographic_algorithm', 'random_iv', 'iv_length', 'tag_length', 'fixed_field_length', 'invocation_field_length',
                 'counter_length', 'initial_counter_value']

        def cpr(prefix):
            return {f: (ev(getattr(p, prefix + n)) if f in CP_ENUM else getattr(p, prefix + n)) for f, n in zip(CP_FIELDS, names)}
        out['kc'] = {'method': ev(p._kdw_wrapping_method), 'euid': p._kdw_eki_unique_identifier, 'ecp': cpr('_kdw_eki_cp_'),
                     'muid': p._kdw_mski_unique_identifier, 'mcp': cpr('_kdw_mski_cp_'), 'mac': p._kdw_mac_signature,
                     'iv': p._kdw_iv_counter_nonce, 'enc': ev(p._kdw_encoding_option)}
    if isinstance(p, po.SplitKey):
        out.update(parts=p.split_key_parts, ident=p.key_part_identifier, thresh=p.split_key_threshold, spm=ev(p.split_key_method),
                   prime=p.prime_field_size)
    if isinstance(p, po.Certificate):
        out['sub'] = ev(p.certificate_type)
    if isinstance(p, po.SecretData):
        out['sub'] = ev(p.data_type)
    if isinstance(p, po.OpaqueObject):
        out['sub'] = ev(p.opaque_type)
    return out


def p_pobj(o):
    kc = 'kc_none'
    if o['kc'] is not None:
        k = o['kc']
        kc = '(KC %s %s %s %s %s %s %s %s)' % (p_oz(k['method']), p_os(k['euid']), p_cp(k['ecp']), p_os(k['muid']), p_cp(k['mcp']),
                                               p_ob(k['mac']), p_ob(k['iv']), p_oz(k['enc']))
    return '(POBJ %s %s %s %s %s %s %s %s %s %s %s %s)' % (o['cls'], cp.byts(o['value']), p_oz(o['alg']), p_oz(o['len']), p_oz(o['fmt']), kc,
                                                            p_oz(o['parts']), p_oz(o['ident']), p_oz(o['thresh']), p_oz(o['spm']), p_oz(o['prime']),
                                                            p_oz(o['sub']))


def convert_pair(ctx, secret):
    """ObjectFactory.convert in both directions on one abstract secret, outside any server."""
    from kmip.pie import factory
    f = factory.ObjectFactory()
    try:
        _, core = build_secret(secret)
    except Exception as e:       # a value the kmip.core classes refuse to hold
        ctx.count('convert.unbuildable.%s' % type(e).__name__)
        return
    try:
        pie = f.convert(core)
    except Exception:
        pie = None
    CONVERT_CASES.append(('CToPie %s %s' % (p_secret(secret), p_res(None if pie is None else abs_pie(pie), p_pobj)), ('to_pie', jsonable(secret))))
    if pie is None:
        return
    a = abs_pie(pie)
    try:
        back = abs_secret(f.convert(pie))
    except Exception:
        back = None
    CONVERT_CASES.append(('CToCore %s %s' % (p_pobj(a), p_res(back, p_secret)), ('to_core', jsonable(secret))))
    ctx.count('convert.%s' % a['cls'])
    # direct oracle on the conversion pair alone
    if back != secret and back != oracle_strip_falsy(secret) and not (secret['k'] == 'secret'):
        ctx.violation({'op': 'CONVERT', 'otype': a['cls'], 'field': first_diff(secret, back) if back else 'failure'},
                      {'secret': jsonable(secret), 'back': jsonable(back)}, 'ObjectFactory.convert(core -> pie -> core) changes the object')


def client_side_convert(ctx, st, ver, uid, obs):
    """ProxyKmipClient.get: the pie object the application receives must be the conversion of what the server sent."""
    try:
        pie = st.get_pie(ver, uid)
    except Exception as e:       # the client-side constructor refuses what the server stores
        ctx.count('client.get.raises.%s' % type(e).__name__)
        CONVERT_CASES.append(('CToPie %s Err' % p_secret(obs), ('client_get_raises', jsonable(obs))))
        return
    CONVERT_CASES.append(('CToPie %s (Ok %s)' % (p_secret(obs), p_pobj(abs_pie(pie))), ('client_get', jsonable(obs))))
    ctx.count('client.get.pie')


def decorator_cases(ctx, rng):
    from kmip.pie import sqltypes
    cases = []
    um = sqltypes.UsageMaskType()
    members = list(E.CryptographicUsageMask)
    lists = [[], members, list(reversed(members)), members[:1] * 3] + [[m] for m in members]
    lists += [rng.sample(members, rng.randint(1, len(members))) + rng.sample(members, 2) for _ in range(40)]
    for l in lists:
        cases.append('DMaskOut %s %s' % (cp.lst([m.value for m in l], cp.z), cp.z(um.process_bind_param(l, None))))
    for z in [0, 1, 2 ** 24 - 1, 2 ** 24, 2 ** 31 - 1, 2 ** 24 + 5] + [rng.randrange(2 ** 25) for _ in range(40)] + [m.value for m in members]:
        cases.append('DMaskIn %s %s' % (cp.z(z), cp.lst([m.value for m in um.process_result_value(z, None)], cp.z)))
    for en in (E.State, E.ObjectType, E.CryptographicAlgorithm, E.KeyFormatType, E.OpaqueDataType, E.WrappingMethod, E.SplitKeyMethod,
               E.NameType, E.BlockCipherMode):
        et = sqltypes.EnumType(en)
        cases.append('DEnumOut None %s' % cp.z(et.process_bind_param(None, None)))
        cases.append('DEnumIn %s %s' % (cp.z(-1), p_oz(ev(et.process_result_value(-1, None)))))
        for m in en:
            cases.append('DEnumOut (Some %s) %s' % (cp.z(m.value), cp.z(et.process_bind_param(m, None))))
            cases.append('DEnumIn %s %s' % (cp.z(m.value), p_oz(ev(et.process_result_value(m.value, None)))))
    for _ in cases:
        ctx.cov['evaluations'] += 1
    ctx.count('decorator.cases', len(cases))
    return cases


def corpus():
    """Minimised inputs of past disagreements and the known findings; always run first."""
    K = E.KeyFormatType
    cpn = {f: None for f in CP_FIELDS}
    sym = lambda kwd, value=b'\x01' * 16: {'k': 'key', 'cls': 'CSym', 'kb': {'fmt': K.RAW.value, 'value': value, 'alg': 3, 'len': 8 * len(value), 'kwd': kwd}}
    kw = lambda cpd, uid='7': {'method': 1, 'eki': {'uid': uid, 'cp': cpd}, 'mski': None, 'mac': None, 'iv': None, 'enc': 1}
    name = lambda v, t, i: {'kind': 'name', 'idx': i, 'v': v, 't': t}
    return [
        ((1, 4), sym(kw(dict(cpn, riv=False))), []),                                  # random_iv = False alone (lost before fix 46c741e)
        ((1, 2), sym(kw(dict(cpn, ivl=0))), []),                                      # iv_length = 0 alone
        ((1, 0), sym(kw(dict(cpn, riv=False, tagl=0), uid='')), []),                   # falsy values with an empty key identifier
        ((2, 0), sym(kw(dict(cpn))), []),                                             # empty parameters structure: the remaining known finding
        ((1, 4), sym(kw(dict(cpn, riv=False, bcm=1))), []),                           # falsy next to truthy: kept
        ((1, 1), sym(kw(dict(cpn, bcm=1)), b''), [name('n', 2, 0)]),                   # URI name, empty key value under wrapping data
        ((1, 3), sym(None, b''), [{'kind': 'len', 'idx': None, 'z': 128}]),            # length attribute over a zero length
        ((1, 4), {'k': 'secret', 'dtype': 1, 'kb': {'fmt': K.RAW.value, 'value': b'pw', 'alg': None, 'len': None, 'kwd': None}}, []),
        ((1, 4), {'k': 'opaque', 'ot': E.OpaqueDataType.NONE.value, 'value': b''}, [name('a', 1, 0), name('b', 1, 1)]),
        ((1, 2), {'k': 'cert', 'ctype': 1, 'value': b'\x30\x00'}, [{'kind': 'mask', 'idx': 0, 'z': sum(MASK_BITS)}]),
    ] + [
        # Big Integer boundaries of the only Big Integer on this path (split key prime field size): stored and returned exactly, or refused
        ((1, 3), {'k': 'split', 'kb': {'fmt': K.RAW.value, 'value': b'\x09' * 16, 'alg': 3, 'len': 128, 'kwd': None},
                  'sp': {'parts': parts, 'ident': 1, 'thresh': 2, 'method': 1, 'prime': prime}}, [])
        for parts, prime in [(3, 2 ** 63 - 1), (3, 2 ** 63), (2 ** 31 - 1, 2 ** 64 - 59), (3, 2 ** 64 - 1), (3, 2 ** 64), (-1, -1), (-2 ** 31, -2 ** 63),
                             (3, -2 ** 63 - 1), (3, 2 ** 31), (3, 2 ** 32)]
    ]


def describe(ev_list, limit=12):
    out = []
    for e in ev_list[:limit]:
        d = {k: jsonable(v) for k, v in e.items()}
        out.append(d)
    return out


def run(ctx):
    ctx.cov['rule'] = (
        'histories on a fresh SQLite file driven through ProxyKmipClient/KMIPProxy <-> in-process transport (responses in 1/7/64/4096 byte chunks) '
        '<-> KmipSession (generated client certificate) <-> KmipEngine: Register of generated objects of the seven stored types '
        '(value empty / one byte / long / random; every enumeration drawn with smallest and largest member forced; key wrapping data with every '
        'optional sub-field present or absent incl. falsy-only parameter sets, empty byte strings and empty identifiers; split key fields incl. '
        '2^63-1; names incl. URI type, duplicates, 100-300 characters; object groups; application specific information; usage mask none / one / all / '
        'random bits; policy name; sensitive flag; consistent and conflicting algorithm/length attributes; refused inputs), under the six KMIP '
        'versions, interleaved with Get / GetAttributes / GetAttributeList under other versions, Activate, Destroy, Locate/Query, engine '
        're-opens on the same file and a raw sqlite3 dump of the stored row; plus application-level histories in which ONE ProxyKmipClient '
        'object issues sequences of create / create_key_pair / register / derive_key calls with varying optional arguments and every object '
        'is read back against what its own call supplied; one client object switched between every ordered pair of versions with the '
        'kmip_version setter, compared with a fresh client; CreateKeyPair with every optional attribute placed in the common / public / private '
        'templates in all combinations.  A case is distinct when its (secret, attributes) or '
        '(history, step) differs; non-trivial = an event whose answer depends on the stored object.')
    ctx.cov['trusted_extra'] = [
        'SQLAlchemy unit of work / SQLite column affinity: modelled as "a row holds what the type decorator returned"; tied on every run by '
        'comparing the model row with a raw sqlite3 dump of the file',
        'TTLV wire hop of secrets and attributes: identity in the model (C01 proves the codec); tied by the end-to-end histories',
        'harness printers/observers (harness/c05.py abs_* and p_*)']
    # known findings of this property that bin/mkmanifest has not merged into known_findings.json yet (read only)
    from pathlib import Path
    fd = Path(__file__).resolve().parents[1] / 'findings.d' / 'C05.json'
    if fd.exists():
        have = {f.get('id') for f in ctx.findings}
        ctx.findings += [f for f in json.loads(fd.read_text()) if f.get('property') == 'C05' and f.get('id') not in have]
    ctx.regen(only=['sqltypes'])
    ctx.prove('props/C05.v')
    quick = ctx.tier == 'quick'
    rng = ctx.subrng('histories')
    der = make_cert('alice')
    big = 300 if quick else 5000

    hists = []
    # corpus first (known findings + past disagreements), one history
    hists.append(run_history(ctx, ctx.subrng('corpus'), der, 0, 45, big, forced=corpus()))
    hists.append(scenario_history(ctx, der))
    n_hist = 110 if quick else 400
    for h in range(2, n_hist + 2):
        hists.append(run_history(ctx, rng, der, h, rng.randint(14, 30), big))
    clrng = ctx.subrng('client-histories')
    for h in range(12 if quick else 80):
        hists.append(client_history(ctx, clrng, der, 1000 + h, clrng.randint(5, 10)))
    hists.append(switch_history(ctx, ctx.subrng('switch'), der))
    kprng = ctx.subrng('keypairs')
    for h in range(6 if quick else 40):
        hists.append(keypair_history(ctx, kprng, der, 2000 + h, 5))
    crng = ctx.subrng('convert')
    for _ in range(150 if quick else 1500):
        convert_pair(ctx, g_secret(crng, crng.choice(CLASSES), 64))
    for _, s, _ in corpus():
        convert_pair(ctx, s)

    for h in hists:
        for e in h:
            ctx.count('model-event.%s' % (e['e'] + ('.' + e['kind'] if e['e'] == 'make' else '')))
    cases = [cp.lst(h, p_event) for h in hists]
    bad = ctx.run_cases('histories', HEADER, cases, 'check_history', shard=6,
                        what='srv_register / srv_get / srv_attrs / srv_attr_list / sql_out / step vs the real client-session-engine-SQLite stack')
    for i in bad[:10]:
        where = ctx.model_output(HEADER, 'first_bad %s' % cases[i])
        k = None
        import re
        m = re.search(r'Some (\d+)', where)
        if m:
            k = int(m.group(1))
        evs = hists[i]
        detail = {'history': i, 'first_bad_event': k, 'event': jsonable({a: b for a, b in evs[k].items()}) if k is not None else None,
                  'preceding_register': None}
        if k is not None and 'uid' in evs[k]:
            for e in evs[:k]:
                if e['e'] == 'register' and e['obs'] == evs[k]['uid']:
                    detail['preceding_register'] = jsonable(e)
        ctx.disagreement('histories', detail)
        if k is not None:
            detail['model_answers'] = ctx.model_output(HEADER, 'answer_at %s %d' % (cases[i], k))[:3000]
        ctx.log('history %d disagrees at event %s: %s\n    MODEL: %s' % (i, k, json.dumps(detail['event'], default=str)[:900], (detail.get('model_answers') or '')[:900]))
    ccases = [c for c, _ in CONVERT_CASES]
    bad = ctx.run_cases('convert', HEADER, ccases, 'check_convert', shard=150,
                        what='core_to_pie / pie_to_core vs kmip.pie.factory.ObjectFactory.convert (and ProxyKmipClient.get)')
    for i in bad[:10]:
        ctx.disagreement('convert', {'case': CONVERT_CASES[i][1], 'coq': ccases[i][:600]})
    dcases = decorator_cases(ctx, ctx.subrng('decorators'))
    bad = ctx.run_cases('decorators', HEADER, dcases, 'check_decorator', shard=300,
                        what='sql_enum_out/in, sql_mask_out/in vs kmip.pie.sqltypes')
    for i in bad[:10]:
        ctx.disagreement('decorators', {'coq': dcases[i]})
    ctx.sample({'history_0_first_events': describe(hists[0], 4)})
    ctx.sample({'history_1_first_events': describe(hists[1], 3)})
    del CONVERT_CASES[:]
