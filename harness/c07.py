"""C07 - unique identifiers are never reused; a destroyed identifier stays dead.

run(ctx):  prove props/C07.v  ->  generate histories against the real engine (several identities,
restarts, destroy-newest-then-create, all four creating operations, addressing by identifier, as
wrapping key, as derivation base and through the ID placeholder)  ->  Coq compares every event with
the model (Uid/Cases.v check_history)  ->  direct oracle on the implementation's own answers.

The history executor, the abstract item language and the payload builders are also used by
harness/c11.py.
"""
import json
import shutil

import kdrv
from kdrv import OP, OT, payloads
from kmip.core import enums, attributes as cattrs, objects as cobjects
from kmip.core import policy as core_policy
from vlib import coqprint as cp

HEADER = ('From PK Require Import Uid.Cases.\nFrom Coq Require Import List ZArith Bool.\n'
          'Import ListNotations.\nOpen Scope Z_scope.\n')

USERS = ['alice', 'bob', 'carol', 'dave', 'mallory']
GROUPS = {0: None, 1: ['custodians'], 2: ['other'], 3: ['other', 'custodians'], 4: []}


def identity(who):
    """Requesters are encoded as user index + 100 * group code (Uid.Model.user_of / group_code)."""
    return USERS[who % 100], GROUPS[who // 100]


def who_name(who):
    u, g = identity(who)
    return u if g is None else '%s%r' % (u, g)


def pick_who(rng, custodian=0.12, odd=0.08):
    x = rng.random()
    if x < custodian:
        return rng.randrange(4) + 100 * rng.choice([1, 1, 3])
    if x < custodian + odd:
        return rng.randrange(4) + 100 * rng.choice([2, 4])
    return rng.randrange(3)


def build_policies():
    """The operation policies every engine of this check runs with: the shipped ones plus 'team' = the default preset
    and a section for the group 'custodians' that allows every operation to everybody in it."""
    import copy
    pol = copy.deepcopy(core_policy.policies)
    preset = copy.deepcopy(pol['default']['preset'])
    pol['team'] = {'preset': preset,
                   'groups': {'custodians': {ot: {o: enums.Policy.ALLOW_ALL for o in ops} for ot, ops in preset.items()}}}
    return pol


def new_engine(work):
    return kdrv.Engine(workdir=work, policies=build_policies())
M = enums.CryptographicUsageMask
ALG = enums.CryptographicAlgorithm

TYPES = {'TSym': OT.SYMMETRIC_KEY, 'TPub': OT.PUBLIC_KEY, 'TPriv': OT.PRIVATE_KEY, 'TSplit': OT.SPLIT_KEY,
         'TCert': OT.CERTIFICATE, 'TSecret': OT.SECRET_DATA, 'TOpaque': OT.OPAQUE_DATA}
KINDS = ['AGet', 'AGetAttributes', 'AGetAttributeList', 'AActivate', 'ARevoke', 'AEncrypt', 'ADecrypt', 'ASign',
         'ASignatureVerify', 'AMac', 'ADeleteAttribute', 'AModifyAttribute', 'ASetAttribute']
POLICY_OP = {'AGet': 'GET', 'AEncrypt': 'GET', 'ADecrypt': 'GET', 'ASign': 'GET', 'ASignatureVerify': 'GET', 'AMac': 'GET',
             'AGetAttributes': 'GET_ATTRIBUTES', 'AGetAttributeList': 'GET_ATTRIBUTE_LIST', 'AActivate': 'ACTIVATE',
             'ARevoke': 'REVOKE', 'ADeleteAttribute': 'DELETE_ATTRIBUTE', 'AModifyAttribute': 'MODIFY_ATTRIBUTE',
             'ASetAttribute': 'SET_ATTRIBUTE'}
VERSION_WEIGHTS = [((1, 0), 1), ((1, 1), 1), ((1, 2), 5), ((1, 3), 1), ((1, 4), 2), ((2, 0), 3)]


# ------------------------------------------------------------------ tie of the model's access table to kmip/core/policy.py
def check_policy_assumption(policies=None):
    """The model's `permitted` = owner, or Locate/Get/GetAttributes/GetAttributeList on PublicKey/Certificate.
    Returns a list of discrepancies with the shipped default policy (empty = the assumption holds)."""
    pol = (policies or core_policy.policies).get('default', {}).get('preset', {})
    bad = []
    if set((policies or core_policy.policies).get('default', {})) != {'preset'}:
        bad.append(('default', 'sections', sorted((policies or core_policy.policies).get('default', {})), ['preset']))
    read_ops = {'GET', 'GET_ATTRIBUTES', 'GET_ATTRIBUTE_LIST', 'LOCATE'}
    used = set(POLICY_OP.values()) | {'LOCATE', 'DESTROY'}
    for tname, ot in TYPES.items():
        for opn in sorted(used):
            have = pol.get(ot, {}).get(enums.Operation[opn])
            want = enums.Policy.ALLOW_ALL if (tname in ('TPub', 'TCert') and opn in read_ops) else enums.Policy.ALLOW_OWNER
            if have != want:
                bad.append((tname, opn, getattr(have, 'name', None), want.name))
    return bad


# ------------------------------------------------------------------ abstract items -> real payloads
CP_SYM = dict(cryptographic_algorithm=ALG.AES, block_cipher_mode=enums.BlockCipherMode.CBC, padding_method=enums.PaddingMethod.PKCS5)
CP_SIG = dict(cryptographic_algorithm=ALG.RSA, hashing_algorithm=enums.HashingAlgorithm.SHA_256, padding_method=enums.PaddingMethod.PKCS1v15)   # deterministic: C11 compares two engines


def mac_item(uid, params, data):
    return (OP.MAC, payloads.MACRequestPayload(
        unique_identifier=(cattrs.UniqueIdentifier(uid) if uid is not None else None),
        cryptographic_parameters=params, data=cobjects.Data(data)))


def wrap_spec(w):
    return cobjects.KeyWrappingSpecification(
        wrapping_method=enums.WrappingMethod.ENCRYPT,
        encryption_key_information=cobjects.EncryptionKeyInformation(
            unique_identifier=w,
            cryptographic_parameters=cattrs.CryptographicParameters(block_cipher_mode=enums.BlockCipherMode.NIST_KEY_WRAP)),
        encoding_option=enums.EncodingOption.NO_ENCODING)


def derivation_params():
    return cattrs.DerivationParameters(
        cryptographic_parameters=cattrs.CryptographicParameters(hashing_algorithm=enums.HashingAlgorithm.SHA_256))


def build_addr(kind, uid, ver, variant=0):
    """Payload of an addressed operation; every one of them looks the object up before any other check
    (engine.py: the `unique_identifier = ...` prologue of each handler)."""
    if kind == 'AGet':
        return kdrv.get(uid)
    if kind == 'AGetAttributes':
        return kdrv.get_attributes(uid)
    if kind == 'AGetAttributeList':
        return kdrv.get_attribute_list(uid)
    if kind == 'AActivate':
        return kdrv.activate(uid)
    if kind == 'ARevoke':
        code = enums.RevocationReasonCode.KEY_COMPROMISE if variant % 2 else enums.RevocationReasonCode.CESSATION_OF_OPERATION
        return kdrv.revoke(uid, code=code)
    if kind == 'AEncrypt':
        return kdrv.encrypt(uid, kdrv.crypto_params(**CP_SYM), b'0123456789abcdef', iv=b'\x00' * 16)
    if kind == 'ADecrypt':
        return kdrv.decrypt(uid, kdrv.crypto_params(**CP_SYM), b'0123456789abcdef' * 2, iv=b'\x00' * 16)
    if kind == 'ASign':
        return kdrv.sign(uid, kdrv.crypto_params(**CP_SIG), b'data to sign')
    if kind == 'ASignatureVerify':
        return kdrv.signature_verify(uid, kdrv.crypto_params(**CP_SIG), b'data to sign', b'\x01' * 128)
    if kind == 'AMac':
        return mac_item(uid, kdrv.crypto_params(cryptographic_algorithm=ALG.HMAC_SHA256), b'data')
    two = tuple(ver) >= (2, 0)
    if kind == 'AModifyAttribute':
        if two:
            return kdrv.modify_attribute_v2(uid, kdrv.attr_value('NAME', kdrv.name_value('n1')),
                                            kdrv.attr_value('NAME', kdrv.name_value('n0')))
        return kdrv.modify_attribute_v1(uid, kdrv.attr('NAME', kdrv.name_value('n0'), 0))
    if kind == 'ADeleteAttribute':
        if two:
            return kdrv.delete_attribute_v2(uid, current_value_obj=kdrv.attr_value('OBJECT_GROUP', 'g0'))
        return kdrv.delete_attribute_v1(uid, 'Object Group', 0)
    if kind == 'ASetAttribute':
        return kdrv.set_attribute(uid, kdrv.attr_value('SENSITIVE', bool(variant % 2)))
    raise KeyError(kind)


def sid(u):
    return None if u is None else str(u)


SPELLINGS = {'zero': '0%d', 'space': ' %d', 'plus': '+%d', 'float': '%d.0', 'tail': '%d '}


def spell(u, kind=None):
    """An identifier as the client writes it.  SQLite compares the text with INTEGER affinity, so these all address the
    same row (the model knows identifiers by value only)."""
    if u is None:
        return None
    if kind and u >= 0:
        return SPELLINGS[kind] % u
    return str(u)


def protected_attrs(spec):
    """Template attributes only the server may assign (spec['prot']): the engine must refuse the request."""
    pr = spec.get('prot')
    if not pr:
        return []
    if pr[0] == 'uid':
        return [kdrv.attr('UNIQUE_IDENTIFIER', str(spec['prot_uid']))]
    if pr[0] == 'otype':
        return [kdrv.attr('OBJECT_TYPE', OT.SECRET_DATA)]
    if pr[0] == 'state':
        return [kdrv.attr('STATE', enums.State.ACTIVE)]
    if pr[0] == 'idate':
        return [kdrv.attr('INITIAL_DATE', 5)]
    raise KeyError(pr[0])


def concretize(runner, spec):
    """Resolve the symbolic targets of an abstract item against the current run."""
    c = dict(spec)
    if 'tgt' in spec:
        c['tgt_uid'] = runner.resolve(spec['tgt'])
    if 'w' in spec:
        c['w_uid'] = runner.resolve(spec['w'])
    if 'bases' in spec:
        c['base_uids'] = [runner.resolve(b) for b in spec['bases']]
    if spec.get('prot') and spec['prot'][0] == 'uid':
        c['prot_uid'] = runner.resolve(spec['prot'][1])
    return c


def build_item(spec, ver):
    """spec: abstract item (dict) with targets already resolved (tgt_uid / w_uid / base_uids)."""
    o = spec['op']
    good = spec.get('good', True)
    opn = [kdrv.attr('OPERATION_POLICY_NAME', 'team')] if spec.get('pol') else []
    opn = opn + protected_attrs(spec)
    if o == 'create':
        mask = None if not good else ((M.ENCRYPT, M.DECRYPT, M.WRAP_KEY, M.DERIVE_KEY) if spec.get('rich') else (M.ENCRYPT, M.DECRYPT))
        return kdrv.create(mask=mask, names=['n0'], extra=([kdrv.attr('OBJECT_GROUP', 'g0')] if spec.get('rich') else []) + opn)
    if o == 'ckp':
        common = [kdrv.attr('CRYPTOGRAPHIC_ALGORITHM', ALG.RSA), kdrv.attr('CRYPTOGRAPHIC_LENGTH', 1024)] + opn
        if not good:
            return kdrv.create_key_pair(common=common, public=[])
        return kdrv.create_key_pair(common=common)
    if o == 'register':
        t = TYPES[spec['t']]
        if not good:
            return (OP.REGISTER, payloads.RegisterRequestPayload(object_type=t, template_attribute=kdrv.template([]), managed_object=None))
        mask = (M.ENCRYPT, M.DECRYPT, M.DERIVE_KEY, M.WRAP_KEY) if spec.get('rich') else (M.ENCRYPT, M.DECRYPT)
        attrs = [kdrv.attr('NAME', kdrv.name_value('n0'), 0)] + opn
        if t != OT.OPAQUE_DATA:
            attrs.insert(0, kdrv.attr('CRYPTOGRAPHIC_USAGE_MASK', list(mask)))
        return kdrv.register(t, attrs=attrs)
    if o == 'derive':
        length = 128 if good else 4096
        t = TYPES[spec['t']]
        if t == OT.SYMMETRIC_KEY:
            attrs = kdrv.sym_attrs(ALG.AES, length, (M.ENCRYPT, M.DECRYPT, M.DERIVE_KEY)) + opn
        else:
            attrs = [kdrv.attr('CRYPTOGRAPHIC_LENGTH', length), kdrv.attr('CRYPTOGRAPHIC_USAGE_MASK', [M.DERIVE_KEY])] + opn
        return kdrv.derive_key([sid(b) for b in spec['base_uids']], method=enums.DerivationMethod.HASH,
                               params=derivation_params(), attrs=attrs, otype=t)
    if o == 'destroy':
        return kdrv.destroy(spell(spec['tgt_uid'], spec.get('sp')))
    if o == 'addr':
        return build_addr(spec['k'], spell(spec['tgt_uid'], spec.get('sp')), ver, spec.get('variant', 0))
    if o == 'getwrapped':
        return kdrv.get(spell(spec['tgt_uid'], spec.get('sp')), wrap=wrap_spec(sid(spec['w_uid'])))
    if o == 'locate':
        return kdrv.locate()
    if o == 'locatep':
        flt = [kdrv.attr('OBJECT_TYPE', TYPES[spec['ft']])] if spec.get('ft') else []
        return kdrv.locate(attrs=flt, offset=spec.get('off'), maximum=spec.get('mx'))
    if o == 'discover':
        return kdrv.discover_versions([tuple(v) for v in spec['vs']])
    if o == 'query':
        return kdrv.query([enums.QueryFunction[f] for f in spec['funcs']])
    raise KeyError(o)


CREATING = ('create', 'ckp', 'register', 'derive')


def classify(spec, it):
    """Observed response item -> (Coq resp term, python class tuple)."""
    o = spec['op']
    p = it['payload'] or {}
    if it['status'] == 'SUCCESS':
        if o == 'ckp':
            ids = [p['public_key_unique_identifier'], p['private_key_unique_identifier']]
            return ('RIssued', [canon(x) for x in ids])
        if o in CREATING:
            return ('RIssued', [canon(p['unique_identifier'])])
        if o == 'destroy':
            return ('RDestroyed', numeric(p['unique_identifier']))
        if o in ('locate', 'locatep'):
            return ('RLocated', sorted(canon(x) for x in (p.get('unique_identifiers') or [])))
        if o == 'discover':
            return ('RVersions', [10 * v['major'] + v['minor'] for v in (p.get('protocol_versions') or [])])
        return ('RFound', p.get('unique_identifier'))
    reason, msg = it['reason'], it['message'] or ''
    if reason == 'OPERATION_NOT_SUPPORTED' and 'is not supported by KMIP' in msg:
        return ('RNotSupported', None)
    if msg.startswith('Could not locate object: '):
        if reason == 'ITEM_NOT_FOUND':
            return ('RNotFound', msg[len('Could not locate object: '):])
        if reason == 'PERMISSION_DENIED':
            return ('RDenied', msg[len('Could not locate object: '):])
    if reason == 'ITEM_NOT_FOUND' and msg == 'Wrapping key does not exist.':
        return ('RWrapNotFound', None)
    if o in CREATING:
        return ('RFailed', None)
    if o == 'destroy':
        return ('RRefused', None)
    return ('RFound', None)


def numeric(s):
    """The integer an identifier spelling denotes for SQLite's INTEGER affinity ('01', ' 1', '+1', '1.0' are all 1)."""
    return int(float(str(s).strip()))


def canon(s):
    """Identifiers are canonical decimal strings in the model (bound); anything else is a harness error."""
    n = int(s)
    if str(n) != str(s):
        raise ValueError('non-canonical identifier from the server: %r' % (s,))
    return n


def resp_term(c):
    if c[0] in ('RIssued', 'RLocated', 'RVersions'):
        return '(%s %s)' % (c[0], cp.lst(c[1], zt))
    return c[0]


def zt(n):
    return str(n) if n >= 0 else '(%d)' % n


def opt_z(x):
    return 'None' if x is None else '(Some %s)' % zt(x)


# ------------------------------------------------------------------ executing a history
class Tracker:
    """What the harness remembers about the run - only from the implementation's own answers."""
    def __init__(self):
        self.log = []            # every identifier ever issued, in order: {uid, owner, t, rich}
        self.by_uid = {}
        self.destroyed = {}      # uid -> index of the event that destroyed it

    def issued(self, uid, owner, t, rich, pol=0):
        rec = {'uid': uid, 'owner': owner % 100, 't': t, 'rich': rich, 'active': False, 'pol': pol}
        self.log.append(rec)
        self.by_uid.setdefault(uid, rec)

    def live(self):
        return [r for r in self.log if r['uid'] not in self.destroyed]


class Runner:
    """Runs abstract events against a real engine; keeps the Coq case and evaluates the direct oracle."""

    def __init__(self, ctx, eng, oracle=True):
        self.ctx = ctx
        self.eng = eng
        self.tr = Tracker()
        self.events = []         # abstract events as executed (JSON-able, replayable)
        self.coq = []            # (event term, obs term)
        self.hits = []           # direct-oracle hits (signature, witness, what)
        self.oracle = oracle
        self.ever = set()

    # symbolic targets: None (placeholder) | ['ref', k] k-th identifier issued | ['newest'] largest uid in the table
    # | ['lit', n] | ['fresh', d] next_uid + d (never issued so far)
    def resolve(self, tgt):
        if tgt is None:
            return None
        kind = tgt[0]
        if kind == 'ref':
            return self.tr.log[tgt[1]]['uid'] if tgt[1] < len(self.tr.log) else 100000 + tgt[1]
        if kind == 'newest':
            us = self.eng.uids()
            return us[-1] if us else 100000
        if kind == 'lit':
            return tgt[1]
        if kind == 'fresh':
            return self.eng.next_uid() + tgt[1]
        raise KeyError(kind)

    def restart(self, dispose=True):
        if dispose:
            try:
                self.eng.engine._data_store.dispose()
            except Exception:
                pass
        self.eng.restart()
        self.events.append({'ev': 'restart'})
        self.coq.append(('ERestart', 'Ob (Some []) %s %s' % (zt(self.eng.next_uid()), cp.lst(self.eng.uids(), zt))))
        self.ctx.count('event.restart')

    def killed_request(self, who, ver, spec, point):
        """The server process is killed while it handles a one-item request: the request runs in a forked child that
        exits without any cleanup at `point` ('after_write' = right after the first INSERT/DELETE statement,
        'before_commit', 'after_commit'); the parent then opens a new engine on the file (hot journal and all).
        Nobody sees an answer; whether the transaction reached the file is read from the file."""
        import os
        eng, tr = self.eng, self.tr
        c = concretize(self, spec)
        before_next, before_uids = eng.next_uid(), eng.uids()
        req = eng.build([build_item(c, ver)], version=ver)
        pid = os.fork()
        if pid == 0:                                   # ---- child: never returns
            try:
                import sqlalchemy
                ds = eng.engine._data_store
                if point == 'before_commit':
                    sqlalchemy.event.listen(ds, 'commit', lambda conn: os._exit(0))
                elif point == 'after_write':
                    def hook(conn, cursor, statement, parameters, context, executemany):
                        if statement.lstrip()[:6].upper() in ('INSERT', 'DELETE', 'UPDATE'):
                            os._exit(0)
                    sqlalchemy.event.listen(ds, 'after_cursor_execute', hook)
                else:
                    sqlalchemy.event.listen(eng.engine._data_store_session_factory, 'after_commit', lambda session: os._exit(0))
                eng.process(req, *identity(who))
            finally:
                os._exit(0)
        os.waitpid(pid, 0)
        try:
            eng.engine._data_store.dispose()
        except Exception:
            pass
        eng.restart()
        after_next, after_uids = eng.next_uid(), eng.uids()
        new = [u for u in after_uids if u not in before_uids]
        gone = [u for u in before_uids if u not in after_uids]
        committed = bool(new or gone or after_next != before_next)
        c['gate'] = committed
        c['killed_at'] = point
        ev_index = len(self.events)
        self.coq.append(('Rq %d %d false [It %s %s]' % (who, ver[0] * 10 + ver[1], op_term(c), cp.boolean(committed)),
                         'ObK %s %s' % (zt(after_next), cp.lst(after_uids, zt))))
        self.events.append({'ev': 'killed', 'who': who, 'ver': list(ver), 'point': point, 'items': [strip(c)],
                            'committed': committed, 'next_uid': after_next, 'uids': after_uids})
        self.ctx.count('event.killed.%s.%s' % (point, 'committed' if committed else 'lost'))
        # identifiers the killed transaction consumed were issued as far as the database is concerned
        ts = ['TPub', 'TPriv'] if c['op'] == 'ckp' else [c.get('t', 'TSym')]
        for u, t in zip(new, ts):
            if self.oracle and u in self.ever:
                self.hit({'kind': 'reuse', 'op': c['op'], 'killed_at': point},
                         'identifier %d handed to an object created by a request killed at %s was already issued earlier' % (u, point),
                         ev_index, {'identifier': u})
            self.ever.add(u)
            tr.issued(u, who, t, bool(c.get('rich')), 1 if c.get('pol') else 0)
        for u in gone:
            tr.destroyed.setdefault(u, ev_index)
        if self.oracle:
            for u in tr.destroyed:
                if u in after_uids:
                    self.hit({'kind': 'dead-row'}, 'managed_objects holds a row for destroyed identifier %d after the kill' % u, ev_index,
                             {'identifier': u})
        self.coq.append(('ERestart', 'Ob (Some []) %s %s' % (zt(after_next), cp.lst(after_uids, zt))))
        self.events.append({'ev': 'restart'})

    def short_busy_timeout(self):
        """Every connection the engine opens from now on gives up on a locked database after 60 ms."""
        import sqlalchemy
        ds = self.eng.engine._data_store
        if not getattr(ds, '_verif_short_busy', False):
            sqlalchemy.event.listen(ds, 'connect', lambda dbapi_con, rec: dbapi_con.execute('PRAGMA busy_timeout=60'))
            ds._verif_short_busy = True
            ds.dispose()

    def request(self, who, ver, cont, specs, locked=False):
        """who: index into USERS; specs: abstract items with symbolic targets (resolved now).
        locked: a second SQLite connection (a backup job, an sqlite3 shell) holds a read transaction on the file while the
        request is served, so that every COMMIT of the request is refused with 'database is locked'."""
        eng, tr = self.eng, self.tr
        conc = [concretize(self, s) for s in specs]

        items = [build_item(c, ver) for c in conc]
        before = eng.dump() if self.oracle else None
        blocker = None
        if locked:
            import sqlite3
            self.short_busy_timeout()
            blocker = sqlite3.connect(eng.path, isolation_level=None, timeout=0.05)
            blocker.execute('BEGIN')
            blocker.execute('select count(*) from sqlite_master').fetchall()
            self.ctx.count('event.request.commit_refused')
        try:
            r = eng.request(items, version=ver, user=identity(who)[0], groups=identity(who)[1],
                            batch_option=(enums.BatchErrorContinuationOption.CONTINUE if cont else None))
        except Exception as e:
            # process_request let something other than a KmipError escape (the session answers GENERAL_FAILURE for the whole
            # message): recorded as a request-level failure - the model has none here, so the correspondence will object -
            # and the history goes on, so that the identifier oracles still see what the store looks like afterwards
            self.ctx.count('request.escaped.%s' % type(e).__name__)
            r = {'error': {'reason': 'GENERAL_FAILURE', 'status': 'OPERATION_FAILED',
                           'message': 'process_request raised %s' % type(e).__name__}, 'items': [], 'raw': None}
        finally:
            if blocker is not None:
                blocker.rollback()
                blocker.close()
        after_next, after_uids = eng.next_uid(), eng.uids()
        ev_index = len(self.events)
        vz = ver[0] * 10 + ver[1]
        item_terms, classes = [], []
        if r['error'] is None:
            for c, it in zip(conc, r['items']):
                cl = classify(c, it)
                classes.append(cl)
                c['gate'] = it['status'] == 'SUCCESS'
                c['class'] = cl[0]
                c['out'] = cl[1]
                c['reason'] = it['reason']
                c['message'] = it['message']
        for k, c in enumerate(conc):
            gate = c.get('gate', True)     # items after a Stop are never executed: any gate
            item_terms.append('It %s %s' % (op_term(c), cp.boolean(gate)))
        ev = 'Rq %d %d %s %s' % (who, vz, cp.boolean(cont), cp.lst(item_terms, str))
        rs = 'None' if r['error'] is not None else '(Some %s)' % cp.lst([resp_term(c) for c in classes], str)
        self.coq.append((ev, 'Ob %s %s %s' % (rs, zt(after_next), cp.lst(after_uids, zt))))
        self.events.append({'ev': 'req', 'who': who, 'ver': list(ver), 'cont': cont, 'locked': locked, 'items': [strip(c) for c in conc],
                            'error': r['error'], 'next_uid': after_next, 'uids': after_uids})
        self.ctx.count('event.request')
        if r['error'] is not None:
            self.ctx.count('request.error')
        # ---- bookkeeping + direct oracle on the implementation's own answers
        for c, cl in zip(conc, classes):
            self.ctx.count('item.%s.%s' % (c['op'] + ('.' + c['k'] if c['op'] == 'addr' else ''), cl[0]))
            if self.oracle:
                self.oracle_item(ev_index, who, ver, c, cl)
            if cl[0] == 'RIssued':
                ts = ['TPub', 'TPriv'] if c['op'] == 'ckp' else [c.get('t', 'TSym')]
                for u, t in zip(cl[1], ts):
                    tr.issued(u, who, t, bool(c.get('rich')) or c['op'] == 'derive', 1 if c.get('pol') else 0)
            if cl[0] == 'RDestroyed':
                rec = tr.by_uid.get(cl[1])
                if rec is not None and (who // 100 != 0 or rec['owner'] != who % 100):
                    self.ctx.count('destroy.by_non_owner_allowed_by_group')
                tr.destroyed.setdefault(cl[1], ev_index)
            if cl[0] == 'RFound' and c['op'] == 'addr' and c.get('gate') and c['k'] == 'AActivate' and c.get('tgt_uid') in tr.by_uid:
                tr.by_uid[c['tgt_uid']]['active'] = True
            if cl[0] == 'RFound' and c['op'] == 'addr' and c.get('gate') and c['k'] == 'ARevoke' and c.get('tgt_uid') in tr.by_uid:
                tr.by_uid[c['tgt_uid']]['active'] = False
        if self.oracle:
            self.oracle_tables(ev_index, before, conc, classes, after_uids)
        return r, conc, classes

    # -------------------------------------------------------------- direct oracle (no model)
    def hit(self, sig, what, ev_index, extra=None):
        w = {'history': self.events[:ev_index + 1], 'failing_event': ev_index, 'what': what}
        if extra:
            w.update(extra)
        self.hits.append((sig, w, what))

    def oracle_item(self, ev_index, who, ver, c, cl):
        tr = self.tr
        dead = tr.destroyed
        if cl[0] == 'RIssued':
            ids = cl[1]
            if len(set(ids)) != len(ids):
                self.hit({'kind': 'reuse', 'op': c['op']}, 'one response carries the same identifier twice: %r' % ids, ev_index)
            for u in ids:
                if u in self.ever:
                    how = 'destroyed earlier' if u in dead else 'still live'
                    self.hit({'kind': 'reuse', 'op': c['op']},
                             'identifier %d issued by %s was already issued earlier in this history (%s)' % (u, c['op'], how),
                             ev_index, {'identifier': u})
                self.ever.add(u)
        # addressing a destroyed identifier explicitly
        if c['op'] in ('addr', 'destroy', 'getwrapped') and c.get('tgt_uid') in dead and c.get('tgt') is not None:
            if cl[0] not in ('RNotFound', 'RNotSupported'):
                self.hit({'kind': 'dead-addressed', 'op': c['op'], 'k': c.get('k')},
                         '%s on destroyed identifier %d by %s answered %s (%s / %r), not "not found"' % (
                             c.get('k', c['op']), c['tgt_uid'], who_name(who), cl[0], c.get('reason'), c.get('message')),
                         ev_index, {'identifier': c['tgt_uid']})
        if c['op'] in ('addr', 'destroy', 'getwrapped') and c.get('tgt') is None and cl[0] in ('RFound', 'RDestroyed', 'RRefused', 'RDenied', 'RWrapNotFound'):
            # through the placeholder: the object reached must not be a destroyed one
            u = cl[1] if cl[0] in ('RFound', 'RDestroyed') else None
            try:
                u = int(u) if u is not None else None
            except (TypeError, ValueError):
                u = None
            if u is not None and u in dead:
                self.hit({'kind': 'dead-addressed', 'op': c['op'], 'k': c.get('k'), 'via': 'placeholder'},
                         '%s through the ID placeholder reached destroyed identifier %d' % (c.get('k', c['op']), u), ev_index,
                         {'identifier': u})
        if c['op'] == 'getwrapped' and c.get('w_uid') in dead and cl[0] == 'RFound':
            self.hit({'kind': 'dead-addressed', 'op': 'getwrapped', 'via': 'wrapping-key'},
                     'Get wrapped with destroyed key %d did not fail' % c['w_uid'], ev_index, {'identifier': c['w_uid']})
        if c['op'] == 'derive' and cl[0] == 'RIssued' and any(b in dead for b in c['base_uids']):
            self.hit({'kind': 'dead-addressed', 'op': 'derive', 'via': 'derivation-base'},
                     'DeriveKey succeeded with a destroyed base among %r' % c['base_uids'], ev_index)
        if cl[0] == 'RLocated':
            listed = [u for u in cl[1] if u in dead]
            if listed:
                self.hit({'kind': 'dead-located'}, 'Locate by %s lists destroyed identifiers %r' % (who_name(who), listed), ev_index,
                         {'identifier': listed[0]})

    def oracle_tables(self, ev_index, before, conc, classes, after_uids):
        dead_now = [cl[1] for cl in classes if cl[0] == 'RDestroyed']
        for cl in classes:
            if cl[0] == 'RIssued':
                for u in cl[1]:
                    if u not in after_uids and u not in dead_now:
                        self.hit({'kind': 'issued-missing'}, 'identifier %d was answered as created but managed_objects has no row for it' % u,
                                 ev_index, {'identifier': u})
        for u in self.tr.destroyed:
            if u in after_uids:
                self.hit({'kind': 'dead-row'}, 'managed_objects still (or again) holds a row for destroyed identifier %d' % u, ev_index,
                         {'identifier': u})
        if not dead_now:
            return
        # frame: a request with a successful Destroy may change only table rows that belong to the identifiers it destroyed,
        # created or successfully modified (full raw rows of every table: state, masks, names, values ... of every other object)
        touched, other_writes = set(dead_now), False
        for c, cl in zip(conc, classes):
            if cl[0] == 'RIssued':
                touched.update(cl[1])
                other_writes = True
            if cl[0] == 'RFound' and c.get('gate') and c['op'] == 'addr' and c['k'] in (
                    'AActivate', 'ARevoke', 'ADeleteAttribute', 'AModifyAttribute', 'ASetAttribute'):
                other_writes = True
                u = c.get('tgt_uid')
                if u is None:
                    try:
                        u = numeric(cl[1])
                    except (TypeError, ValueError):
                        u = None
                if u is not None:
                    touched.add(u)
        after = self.eng.dump()
        for t in sorted(set(before) | set(after)):
            b = [json.dumps(r, sort_keys=True) for r in before.get(t, [])]
            a = [json.dumps(r, sort_keys=True) for r in after.get(t, [])]
            diff = [json.loads(x) for x in set(b) ^ set(a)]
            for row in diff:
                keyed = [v for k, v in row.items() if 'uid' in k.lower()]
                if (keyed and not any(v in touched for v in keyed)) or (not keyed and not other_writes):
                    self.hit({'kind': 'frame', 'table': t},
                             'a request that destroyed %r (and wrote to %r) changed a row of table %s that belongs to neither: %r' % (
                                 dead_now, sorted(touched - set(dead_now)), t, row), ev_index)
                    return
        self.ctx.count('oracle.frame_checked')


def strip(c):
    return {k: v for k, v in c.items() if k not in ('raw',)}


def op_term(c):
    o = c['op']
    pol = 1 if c.get('pol') else 0
    if o == 'create':
        return '(OCreate %d)' % pol
    if o == 'ckp':
        return '(OCreateKeyPair %d)' % pol
    if o == 'register':
        return '(ORegister %s %d)' % (c['t'], pol)
    if o == 'derive':
        return '(ODeriveKey %s %s %d)' % (cp.lst(c['base_uids'], zt), c['t'], pol)
    if o == 'destroy':
        return '(ODestroy %s)' % opt_z(c['tgt_uid'])
    if o == 'addr':
        return '(OAddr %s %s)' % (c['k'], opt_z(c['tgt_uid']))
    if o == 'getwrapped':
        return '(OGetWrapped %s %s)' % (opt_z(c['tgt_uid']), zt(c['w_uid']))
    if o == 'locate':
        return 'OLocate'
    if o == 'locatep':
        return '(OLocatePage %s %d %s)' % ('(Some %s)' % c['ft'] if c.get('ft') else 'None', c.get('off') or 0,
                                           'None' if c.get('mx') is None else '(Some %d)' % c['mx'])
    if o == 'discover':
        return '(ODiscover %s)' % cp.lst([10 * a + b for a, b in c['vs']], zt)
    if o == 'query':
        return 'OQuery'
    raise KeyError(o)


# ------------------------------------------------------------------ history generator (online: looks at the tracker)
def pick_version(rng):
    tot = sum(w for _, w in VERSION_WEIGHTS)
    x = rng.randrange(tot)
    for v, w in VERSION_WEIGHTS:
        if x < w:
            return v
        x -= w


QUERY_FUNCTIONS = ['QUERY_OPERATIONS', 'QUERY_OBJECTS', 'QUERY_SERVER_INFORMATION', 'QUERY_APPLICATION_NAMESPACES',
                   'QUERY_EXTENSION_LIST', 'QUERY_EXTENSION_MAP']


def gen_info_spec(rng):
    """DiscoverVersions with a client list (partial, unordered, duplicates, unsupported members, empty) or Query."""
    if rng.random() < 0.65:
        pool = list(kdrv.VERSIONS) + [(1, 5), (2, 1), (9, 9)]
        n = rng.choice([0, 1, 2, 2, 3, 4])
        vs = [rng.choice(pool) for _ in range(n)]
        return {'op': 'discover', 'vs': [list(v) for v in vs]}
    k = rng.randrange(1, 4)
    return {'op': 'query', 'funcs': rng.sample(QUERY_FUNCTIONS, k)}


def gen_locate_page(rng, off=None):
    return {'op': 'locatep', 'ft': rng.choice([None, None, 'TSym', 'TOpaque', 'TPub']),
            'off': rng.choice([0, 1, 2, 3, 5]) if off is None else off, 'mx': rng.choice([None, 1, 2, 3])}


def gen_create_spec(rng, tr, cheap=True):
    s = gen_create_spec0(rng, tr, cheap)
    if rng.random() < 0.4:
        s['pol'] = 1                                   # Operation Policy Name 'team'
    if rng.random() < 0.12:                            # the template tries to assign what only the server assigns
        x = rng.random()
        if x < 0.7:
            dead = [k for k, r in enumerate(tr.log) if r['uid'] in tr.destroyed]
            y = rng.random()
            if dead and y < 0.6:
                s['prot'] = ['uid', ['ref', rng.choice(dead)]]
            elif tr.log and y < 0.8:
                s['prot'] = ['uid', ['ref', rng.randrange(len(tr.log))]]
            else:
                s['prot'] = ['uid', ['fresh', rng.choice([0, 3])]]
        else:
            s['prot'] = [rng.choice(['otype', 'state', 'idate'])]
    return s


def gen_create_spec0(rng, tr, cheap=True):
    x = rng.random()
    if x < 0.40:
        return {'op': 'create', 'good': rng.random() < 0.9, 'rich': rng.random() < 0.5}
    if x < 0.47 and not cheap:
        return {'op': 'ckp', 'good': rng.random() < 0.9}
    if x < 0.80:
        return {'op': 'register', 't': rng.choice(list(TYPES)), 'good': rng.random() < 0.9, 'rich': rng.random() < 0.5}
    bases = gen_bases(rng, tr)
    if bases is None:
        return {'op': 'register', 't': rng.choice(list(TYPES)), 'good': True, 'rich': True}
    return {'op': 'derive', 'bases': bases, 't': rng.choice(['TSym', 'TSym', 'TSecret']), 'good': rng.random() < 0.85}


def gen_bases(rng, tr):
    """All bases but the last must have been created derive-capable (the engine checks type and mask per
    base before it looks at the next one; the model abstracts those checks into one gate)."""
    rich = [k for k, r in enumerate(tr.log) if r['rich'] and r['t'] in ('TSym', 'TSecret', 'TPub', 'TPriv')]
    if not rich and not tr.log:
        return None
    n = 1 if rng.random() < 0.75 else 2
    out = []
    for i in range(n):
        last = i == n - 1
        if (not last or rng.random() < 0.7) and rich:
            out.append(['ref', rng.choice(rich)])
        elif last:
            out.append(gen_target(rng, tr, allow_none=False))
        else:
            return None
    return out


def gen_target(rng, tr, allow_none=True, dead_bias=0.3):
    x = rng.random()
    dead = [k for k, r in enumerate(tr.log) if r['uid'] in tr.destroyed]
    if dead and x < dead_bias:
        return ['ref', rng.choice(dead)]
    if allow_none and x < dead_bias + 0.08:
        return None
    if x < dead_bias + 0.16:
        return rng.choice([['fresh', 0], ['fresh', 1], ['fresh', 7], ['lit', 0], ['lit', -1]])
    if tr.log:
        if rng.random() < 0.3:
            return ['newest']
        return ['ref', rng.randrange(len(tr.log))]
    return ['fresh', 0]


def owner_of(tr, eng, tgt, rng):
    """Identity most likely to be allowed on the target (its owner), sometimes someone else."""
    x = rng.random()
    if x < 0.2:
        return rng.randrange(3)
    if x < 0.42:
        return pick_who(rng, custodian=0.8, odd=0.2)    # allowed (or not) by a group section, not by ownership
    if tgt is not None and tgt[0] == 'ref' and tgt[1] < len(tr.log):
        return tr.log[tgt[1]]['owner']
    if tgt is not None and tgt[0] == 'newest':
        us = eng.uids()
        if us and us[-1] in tr.by_uid:
            return tr.by_uid[us[-1]]['owner']
    return rng.randrange(len(USERS))


def gen_history(ctx, rng, run, length, ckp_budget, kill_budget=2):
    tr, eng = run.tr, run.eng
    ckp = [ckp_budget]
    kills = [kill_budget]

    def creating(cheap=None):
        s = gen_create_spec(rng, tr, cheap=(ckp[0] <= 0) if cheap is None else cheap)
        if s['op'] == 'ckp':
            ckp[0] -= 1
        return s

    n = 0
    while n < length:
        x = rng.random()
        ver = pick_version(rng)
        if x < 0.14:                                   # destroy the newest object, then create
            ctx.count('pattern.destroy_newest_then_create')
            tgt = ['newest']
            run.request(owner_of(tr, eng, tgt, rng), ver, False, [{'op': 'destroy', 'tgt': tgt}])
            if rng.random() < 0.35:
                run.restart(dispose=rng.random() < 0.5)
            run.request(pick_who(rng), pick_version(rng), False, [creating()])
            n += 2
        elif x < 0.17 and kills[0] > 0:                # the server is killed while creating / destroying, then create
            ctx.count('pattern.kill_then_create')
            kills[0] -= 1
            point = rng.choice(['after_write', 'before_commit', 'after_commit'])
            if rng.random() < 0.6:
                spec = creating(cheap=True)
                if spec['op'] == 'derive':
                    spec = {'op': 'create', 'good': True, 'rich': True}
                spec['good'] = True
                run.killed_request(pick_who(rng), ver, spec, point)
            else:
                tgt = ['newest']
                run.killed_request(owner_of(tr, eng, tgt, rng), ver, {'op': 'destroy', 'tgt': tgt}, point)
            run.request(pick_who(rng), pick_version(rng), False, [creating()])
            n += 2
        elif x < 0.185 and tr.live():                  # un-offset Locate, Destroy, then paged Locates of the same client
            ctx.count('pattern.locate_destroy_paged_locate')
            rec = rng.choice(tr.live())
            who = rec['owner']
            first = gen_locate_page(rng, off=0)
            run.request(who, ver, False, [first])
            run.request(who, ver, False, [{'op': 'destroy', 'tgt': ['lit', rec['uid']]}])
            for _ in range(rng.randrange(1, 4)):
                nxt = dict(first, off=rng.choice([1, 2, 3]), mx=rng.choice([first['mx'], None, 2]))
                if rng.random() < 0.25:
                    nxt['ft'] = rng.choice([None, 'TSym'])
                run.request(who, ver, False, [nxt])
            n += 3
        elif x < 0.20:                                 # the COMMIT of a request is refused (database locked by someone else)
            ctx.count('pattern.commit_refused')
            y = rng.random()
            if y < 0.45:
                items, who = [creating(cheap=True)], pick_who(rng)
            elif y < 0.8:
                tgt = gen_target(rng, tr, allow_none=False, dead_bias=0.0)
                items, who = [{'op': 'destroy', 'tgt': tgt}], owner_of(tr, eng, tgt, rng)
            else:
                tgt = gen_target(rng, tr, allow_none=False, dead_bias=0.0)
                items = [{'op': 'addr', 'k': rng.choice(['AActivate', 'ARevoke', 'AModifyAttribute', 'ADeleteAttribute']), 'tgt': tgt,
                          'variant': rng.randrange(4)}]
                who = owner_of(tr, eng, tgt, rng)
            run.request(who, (1, 2), False, items, locked=True)
            run.request(pick_who(rng), pick_version(rng), False, [creating(cheap=True)])
            run.request(who, (1, 2), False, [{'op': 'locate'}])
            n += 3
        elif x < 0.21 and tr.live():                   # Destroy of an object in a chosen state while others stand by; other spellings
            ctx.count('pattern.destroy_in_state_with_bystanders')
            rec = rng.choice(tr.live())
            who, tgt = rec['owner'], ['lit', rec['uid']]
            if rec.get('pol') and rng.random() < 0.3:
                who = rng.randrange(4) + 100
            prep = rng.choice(['preactive', 'deactivated', 'compromised', 'compromised', 'active_then_compromised'])
            sp1, sp2 = rng.choice([None, None] + list(SPELLINGS)), rng.choice([None] + list(SPELLINGS))
            steps = {'preactive': [], 'deactivated': [('AActivate', 0), ('ARevoke', 0)], 'compromised': [('ARevoke', 1)],
                     'active_then_compromised': [('AActivate', 0), ('ARevoke', 1)]}[prep]
            run.request(who, (1, 2), False, [{'op': 'addr', 'k': 'AGetAttributes', 'tgt': tgt, 'sp': sp1}])
            for k_, var in steps:
                run.request(who, (1, 2), False, [{'op': 'addr', 'k': k_, 'tgt': tgt, 'variant': var}])
            run.request(who, ver, False, [{'op': 'destroy', 'tgt': tgt, 'sp': sp2}])
            run.request(who, (1, 2), True, [{'op': 'addr', 'k': 'AGetAttributes', 'tgt': tgt, 'sp': sp1},
                                            {'op': 'addr', 'k': 'AGet', 'tgt': tgt, 'sp': rng.choice([None] + list(SPELLINGS))}])
            n += 3 + len(steps)
        elif x < 0.22:                                 # restart, then create
            ctx.count('pattern.restart_then_create')
            run.restart(dispose=rng.random() < 0.5)
            run.request(pick_who(rng), ver, False, [creating()])
            n += 2
        elif x < 0.30:                                 # batch: create, use / destroy through the placeholder, create again
            ctx.count('pattern.placeholder_batch')
            items = [creating()]
            for _ in range(rng.randrange(1, 4)):
                y = rng.random()
                if y < 0.35:
                    items.append({'op': 'destroy', 'tgt': None})
                elif y < 0.8:
                    items.append({'op': 'addr', 'k': rng.choice(KINDS), 'tgt': None, 'variant': rng.randrange(4)})
                else:
                    items.append(creating())
            run.request(pick_who(rng), ver, rng.random() < 0.7, items)
            n += 1
        elif x < 0.50:                                 # a creating operation on its own
            c = creating()
            who = pick_who(rng)
            if c['op'] == 'derive' and rng.random() < 0.8:
                who = owner_of(tr, eng, c['bases'][0], rng)
            run.request(who, ver, False, [c])
            n += 1
        elif x < 0.62:                                 # destroy something (often after activating it: refused)
            tgt = gen_target(rng, tr, allow_none=False, dead_bias=0.15)
            who = owner_of(tr, eng, tgt, rng)
            if rng.random() < 0.2:
                run.request(who, (1, 2), False, [{'op': 'addr', 'k': 'AActivate', 'tgt': tgt}])
                n += 1
            run.request(who, ver, False, [{'op': 'destroy', 'tgt': tgt}])
            n += 1
        elif x < 0.70:
            y = rng.random()
            run.request(pick_who(rng), ver, False, [{'op': 'locate'} if y < 0.4 else (gen_locate_page(rng) if y < 0.75 else gen_info_spec(rng))])
            n += 1
        elif x < 0.76:                                 # Get wrapped: target and wrapping key chosen independently
            tgt = gen_target(rng, tr, allow_none=False, dead_bias=0.2)
            w = gen_target(rng, tr, allow_none=False, dead_bias=0.35)
            who = owner_of(tr, eng, tgt, rng)
            if rng.random() < 0.5 and w[0] == 'ref':
                run.request(who, (1, 2), False, [{'op': 'addr', 'k': 'AActivate', 'tgt': w}])
                n += 1
            run.request(who, ver, False, [{'op': 'getwrapped', 'tgt': tgt, 'w': w}])
            n += 1
        elif x < 0.80:                                 # mixed batch with explicit identifiers
            items = []
            for _ in range(rng.randrange(2, 5)):
                y = rng.random()
                if y < 0.3:
                    items.append(creating())
                elif y < 0.5:
                    items.append({'op': 'destroy', 'tgt': gen_target(rng, tr)})
                elif y < 0.6:
                    items.append({'op': 'locate'})
                else:
                    items.append({'op': 'addr', 'k': rng.choice(KINDS), 'tgt': gen_target(rng, tr), 'variant': rng.randrange(4)})
            run.request(pick_who(rng), ver, rng.random() < 0.6, items)
            n += 1
        else:                                          # an addressed operation on its own
            tgt = gen_target(rng, tr)
            run.request(owner_of(tr, eng, tgt, rng), ver, False,
                        [{'op': 'addr', 'k': rng.choice(KINDS), 'tgt': tgt, 'variant': rng.randrange(4),
                          'sp': rng.choice(list(SPELLINGS)) if rng.random() < 0.15 else None}])
            n += 1


# ------------------------------------------------------------------ fixed scenarios (run first, every time)
def scenarios():
    D = lambda t: {'op': 'destroy', 'tgt': t}
    C = {'op': 'create', 'good': True, 'rich': True}
    G = lambda t, k='AGet': {'op': 'addr', 'k': k, 'tgt': t}
    out = []
    # destroy the newest, then each creating operation
    for maker in (C, {'op': 'ckp', 'good': True}, {'op': 'register', 't': 'TCert', 'good': True},
                  {'op': 'derive', 'bases': [['ref', 0]], 't': 'TSym', 'good': True}):
        out.append([('req', 0, (1, 2), False, [C]), ('req', 0, (1, 2), False, [C]), ('req', 0, (1, 2), False, [D(['newest'])]),
                    ('req', 0, (1, 2), False, [maker]),
                    ('req', 0, (1, 2), False, [G(['ref', 1])]), ('req', 1, (1, 2), False, [G(['ref', 1])]),
                    ('req', 0, (1, 2), False, [G(['ref', 2])]), ('req', 1, (1, 2), False, [G(['ref', 2])]),
                    ('req', 0, (1, 2), False, [{'op': 'locate'}]), ('req', 1, (1, 2), False, [{'op': 'locate'}])])
    # destroy everything, restart, create: the allocator must not start over
    out.append([('req', 0, (1, 0), False, [C]), ('req', 0, (1, 0), False, [C]), ('req', 0, (1, 0), False, [D(['ref', 1])]),
                ('req', 0, (1, 0), False, [D(['ref', 0])]), ('restart',), ('req', 2, (2, 0), False, [C]),
                ('req', 2, (2, 0), False, [G(['ref', 0])]), ('req', 2, (2, 0), False, [G(['ref', 1])]), ('req', 2, (2, 0), False, [G(['ref', 2])])])
    # public key: world readable while live, dead for everyone afterwards; every addressed operation
    sc = [('req', 0, (1, 2), False, [{'op': 'ckp', 'good': True}])]
    sc += [('req', 1, (2, 0), True, [G(['ref', 0], k) for k in KINDS])]
    sc += [('req', 0, (1, 4), False, [D(['ref', 0])])]
    sc += [('req', w, (2, 0), True, [G(['ref', 0], k) for k in KINDS] + [D(['ref', 0]), {'op': 'locate'}]) for w in (0, 1)]
    out.append(sc)
    # placeholder: create, destroy through it, address through it, create again, address again
    out.append([('req', 0, (1, 2), True, [C, D(None), G(None), G(None, 'AGetAttributes'), C, G(None), D(None), D(None)]),
                ('req', 0, (1, 2), False, [G(None)]), ('req', 0, (1, 2), False, [{'op': 'locate'}])])
    # dead identifiers as wrapping key and as derivation base
    out.append([('req', 0, (1, 2), False, [C]), ('req', 0, (1, 2), False, [C]),
                ('req', 0, (1, 2), False, [G(['ref', 1], 'AActivate')]),
                ('req', 0, (1, 2), False, [{'op': 'getwrapped', 'tgt': ['ref', 0], 'w': ['ref', 1]}]),
                ('req', 0, (1, 2), False, [{'op': 'derive', 'bases': [['ref', 0]], 't': 'TSecret', 'good': True}]),
                ('req', 0, (1, 2), False, [G(['ref', 1], 'ARevoke')]), ('req', 0, (1, 2), False, [D(['ref', 1])]),
                ('req', 0, (1, 2), False, [{'op': 'getwrapped', 'tgt': ['ref', 0], 'w': ['ref', 1]}]),
                ('req', 0, (1, 2), False, [{'op': 'derive', 'bases': [['ref', 0], ['ref', 1]], 't': 'TSym', 'good': True}]),
                ('req', 0, (1, 2), False, [D(['ref', 0])]),
                ('req', 0, (1, 2), False, [{'op': 'derive', 'bases': [['ref', 0]], 't': 'TSym', 'good': True}]),
                ('req', 0, (1, 2), False, [{'op': 'getwrapped', 'tgt': ['ref', 0], 'w': ['ref', 2]}])])
    # Destroy by a requester who is not the owner but allowed by a group section of the object's policy: the
    # identifier must be dead for everybody afterwards (owner, custodians, strangers), also after a restart
    T = {'op': 'create', 'good': True, 'rich': True, 'pol': 1}
    bob_c, carol_c, alice, bob = 101, 302, 0, 1
    after = []
    for w in (alice, bob_c, bob, carol_c):
        after += [('req', w, (1, 2), True, [G(['ref', 0]), G(['ref', 0], 'AGetAttributes'), D(['ref', 0]), {'op': 'locate'},
                                           G(['ref', 1]), G(['ref', 2]), D(['ref', 2])])]
    out.append([('req', alice, (1, 2), False, [T]), ('req', alice, (1, 2), False, [T]), ('req', alice, (1, 2), False, [C]),
                ('req', bob_c, (1, 2), False, [D(['ref', 0])]), ('req', alice, (1, 2), False, [D(['ref', 2])])]
               + after + [('restart',)] + after +
               [('req', carol_c, (2, 0), False, [{'op': 'register', 't': 'TCert', 'good': True, 'pol': 1}]),
                ('req', bob_c, (1, 4), False, [D(['newest'])]), ('req', carol_c, (1, 4), False, [T]),
                ('req', carol_c, (1, 4), False, [G(['newest'])]), ('req', alice, (1, 4), False, [{'op': 'locate'}])])
    # a template that names a Unique Identifier (dead, live, never issued) or another server-assigned attribute: refused,
    # nothing issued; the dead identifier stays dead
    O = {'op': 'register', 't': 'TOpaque', 'good': True}
    sc = [('req', 0, (1, 2), False, [O]), ('req', 0, (1, 2), False, [C]), ('req', 0, (1, 2), False, [O]),
          ('req', 0, (1, 2), False, [D(['ref', 2])]), ('restart',)]
    for maker in (C, O, {'op': 'ckp', 'good': True}, {'op': 'derive', 'bases': [['ref', 1]], 't': 'TSym', 'good': True}):
        for tgt in (['ref', 2], ['ref', 0], ['fresh', 2]):
            sc.append(('req', 1, (1, 2), False, [dict(maker, prot=['uid', tgt])]))
            sc.append(('req', 0, (1, 2), True, [G(['ref', 2]), {'op': 'locate'}]))
        for kind in ('otype', 'state', 'idate'):
            sc.append(('req', 1, (1, 4), False, [dict(maker, prot=[kind])]))
    sc.append(('req', 1, (1, 2), False, [C]))
    out.append(sc)
    # Destroy of an object in every state (Pre-Active, Deactivated, Compromised, Active->Compromised, stateless) while objects
    # of every class stand by in every state; nothing but the destroyed object may change (raw rows of all tables)
    R = lambda t: {'op': 'register', 't': t, 'good': True, 'rich': True}
    sc = [('req', 0, (1, 2), False, [R(t)]) for t in ('TSym', 'TPub', 'TPriv', 'TSplit', 'TCert', 'TSecret', 'TOpaque')]
    sc += [('req', 1, (1, 2), False, [{'op': 'ckp', 'good': True}]), ('req', 1, (1, 2), False, [C]),
           ('req', 0, (1, 2), False, [G(['ref', 0], 'AActivate')]), ('req', 0, (1, 2), False, [G(['ref', 4], 'AActivate')]),
           ('req', 1, (1, 2), False, [G(['ref', 9], 'AActivate')])]
    victims = 10
    for prep in ([], [('AActivate', 0), ('ARevoke', 0)], [('ARevoke', 1)], [('AActivate', 0), ('ARevoke', 1)]):
        for maker in (C, R('TCert'), R('TSecret')):
            sc.append(('req', 2, (1, 2), False, [maker]))
            for k_, var in prep:
                sc.append(('req', 2, (1, 2), False, [dict(G(['ref', victims], k_), variant=var)]))
            sc.append(('req', 2, (1, 2), False, [D(['ref', victims])]))
            sc.append(('req', 0, (1, 2), True, [G(['ref', 0], 'AGetAttributes'), G(['ref', 0], 'AEncrypt'), G(['ref', victims])]))
            victims += 1
    sc += [('req', 0, (1, 2), False, [D(['ref', 6])]), ('restart',),
           ('req', 0, (1, 2), True, [G(['ref', 0], 'AGetAttributes'), G(['ref', 4], 'AGetAttributes')])]
    out.append(sc)
    # the same content registered again (same owner, another owner, after a Destroy, after a restart): always a new identifier
    sc = []
    for t in ('TCert', 'TSym', 'TPub', 'TPriv', 'TSplit', 'TSecret', 'TOpaque'):
        sc += [('req', 0, (1, 2), False, [R(t)]), ('req', 0, (1, 2), False, [R(t)]), ('req', 1, (1, 2), False, [R(t)]),
               ('req', 0, (1, 2), False, [D(['newest'])]), ('req', 0, (1, 2), False, [R(t)])]
    sc += [('restart',)] + [('req', 0, (1, 4), False, [R(t)]) for t in ('TCert', 'TOpaque', 'TSym')] + [('req', 0, (1, 2), False, [{'op': 'locate'}])]
    out.append(sc)
    # an identifier written in several ways: address by one spelling, destroy by another, ask again by the first
    sc = [('req', 0, (1, 2), False, [C]), ('req', 0, (1, 2), False, [C])]
    for i_, (a_, b_) in enumerate((('zero', None), (None, 'float'), ('space', 'plus'), ('float', 'zero'), ('tail', 'tail'))):
        sc += [('req', 0, (1, 2), False, [C]),
               ('req', 0, (1, 2), False, [dict(G(['ref', 2 + i_], 'AGetAttributes'), sp=a_)]),
               ('req', 0, (1, 2), False, [dict(D(['ref', 2 + i_]), sp=b_)]),
               ('req', 0, (1, 2), True, [dict(G(['ref', 2 + i_], 'AGetAttributes'), sp=a_), dict(G(['ref', 2 + i_]), sp=b_), G(['ref', 2 + i_]),
                                         dict(D(['ref', 2 + i_]), sp=a_)]),
               ('req', 0, (1, 2), False, [dict(G(['ref', 0]), sp=a_)])]
    out.append(sc)
    # paged Locate around a Destroy: an un-offset Locate before it, then the same client's Locates with an offset
    LP = lambda ft, off, mx: {'op': 'locatep', 'ft': ft, 'off': off, 'mx': mx}
    sc = [('req', 0, (1, 2), False, [C]) for _ in range(6)]
    sc += [('req', 0, (1, 2), False, [LP(None, 0, 2)]), ('req', 0, (1, 2), False, [LP('TSym', 0, None)]),
           ('req', 0, (1, 2), False, [D(['ref', 2])])]
    for ft, off, mx in ((None, 2, 2), (None, 1, None), ('TSym', 2, 2), ('TSym', 0, 3), (None, 0, None), ('TOpaque', 1, 1), (None, 2, 2)):
        sc.append(('req', 0, (1, 2), False, [LP(ft, off, mx)]))
    sc += [('restart',), ('req', 0, (1, 2), False, [LP(None, 2, 2)]), ('req', 1, (1, 2), False, [LP(None, 0, 2)])]
    out.append(sc)
    # the COMMIT of each kind of operation is refused once (a second connection holds the database), then things go on
    LK = {'locked': True}
    sc = [('req', 0, (1, 2), False, [C]), ('req', 0, (1, 2), False, [C]), ('req', 0, (1, 2), False, [C])]
    for maker in (C, {'op': 'register', 't': 'TOpaque', 'good': True}, {'op': 'register', 't': 'TCert', 'good': True},
                  {'op': 'derive', 'bases': [['ref', 0]], 't': 'TSym', 'good': True}, {'op': 'ckp', 'good': True}):
        sc += [('req', 0, (1, 2), False, [maker], LK), ('req', 0, (1, 2), False, [{'op': 'locate'}]), ('req', 1, (1, 2), False, [C]),
               ('req', 1, (1, 2), False, [G(['newest'])])]
    sc += [('req', 0, (1, 2), False, [D(['ref', 1])], LK), ('req', 0, (1, 2), False, [G(['ref', 1]), {'op': 'locate'}]),
           ('req', 0, (1, 2), False, [D(['ref', 1])]), ('req', 0, (1, 2), False, [G(['ref', 1])]),
           ('req', 0, (1, 2), False, [G(['ref', 2], 'AActivate')], LK), ('req', 0, (1, 2), False, [D(['ref', 2])]),
           ('req', 0, (1, 2), True, [C, D(None), C], LK), ('req', 0, (1, 2), False, [C]), ('restart',),
           ('req', 0, (1, 2), False, [{'op': 'locate'}]), ('req', 0, (1, 2), False, [C])]
    out.append(sc)
    # the server is killed while it creates / destroys, at three points of the transaction; then the next create
    for point in ('after_write', 'before_commit', 'after_commit'):
        out.append([('req', 0, (1, 2), False, [C]), ('killed', 0, (1, 2), C, point), ('req', 1, (1, 2), False, [C]),
                    ('killed', 0, (1, 2), D(['ref', 0]), point), ('req', 0, (1, 2), False, [G(['ref', 0])]),
                    ('killed', 1, (1, 2), D(['newest']), point), ('req', 2, (1, 2), False, [C]),
                    ('req', 1, (1, 2), False, [{'op': 'locate'}]), ('req', 0, (1, 2), False, [{'op': 'locate'}])])
    return out


def play(run, script):
    for ev in script:
        if ev[0] == 'restart':
            run.restart()
        elif ev[0] == 'killed':
            _, who, ver, spec, point = ev
            run.killed_request(who, tuple(ver), dict(spec), point)
        else:
            _, who, ver, cont, specs = ev[:5]
            run.request(who, tuple(ver), cont, [dict(s) for s in specs], **(ev[5] if len(ev) > 5 else {}))


def ctx_in_child(run):
    return run.ctx


def replay_events(run, events):
    """Re-run a recorded history (events as stored in a replay file)."""
    skip_restart = False
    for ev in events:
        if ev['ev'] == 'restart':
            if not skip_restart:
                run.restart()
            skip_restart = False
        elif ev['ev'] == 'killed':
            it = ev['items'][0]
            spec = {k: v for k, v in it.items() if k in ('op', 'good', 'rich', 't', 'bases', 'tgt', 'w', 'k', 'variant', 'pol', 'prot', 'vs', 'funcs', 'ft', 'off', 'mx', 'sp')}
            run.killed_request(ev['who'], tuple(ev['ver']), spec, ev['point'])
            skip_restart = True                        # killed_request records its own restart event
        else:
            specs = [{k: v for k, v in it.items() if k in ('op', 'good', 'rich', 't', 'bases', 'tgt', 'w', 'k', 'variant', 'pol', 'prot', 'vs', 'funcs', 'ft', 'off', 'mx', 'sp')}
                     for it in ev['items']]
            run.request(ev['who'], tuple(ev['ver']), ev['cont'], specs, locked=bool(ev.get('locked')))


# ------------------------------------------------------------------ restart by kill: the server runs in its own process
class CountCtx:
    """ctx stand-in inside a forked server process: counters are shipped back to the parent."""
    def __init__(self, work):
        from collections import Counter
        self.work = work
        self.counts = Counter()

    def count(self, key, n=1):
        self.counts[key] += n


def _runner_state(run, rng, counts, last):
    return {'events': run.events, 'coq': run.coq, 'hits': run.hits, 'tr': run.tr, 'ever': run.ever,
            'rng': rng.getstate() if rng is not None else None, 'counts': dict(counts), 'last': last}


def run_in_server_processes(ctx, path, segments, seed_rng=None):
    """segments: list of (how the process ends: 'kill' | 'exit', callable(run, rng)).  Each segment runs in a FORKED process
    that opens its own KmipEngine on `path` (a new server process on the same database file), executes the callable,
    ships the runner state back through a pipe and is then killed with SIGKILL (or leaves with os._exit) - never a clean
    shutdown.  The parent never opens the database itself.  Returns the final runner state."""
    import os, pickle, signal, struct, time, random
    state = None
    for k, (how, fn) in enumerate(segments):
        r, w = os.pipe()
        pid = os.fork()
        if pid == 0:                                   # ---------------- the server process
            code = 0
            try:
                os.close(r)
                eng = kdrv.Engine(path=path, policies=build_policies())
                cctx = CountCtx(ctx.work)
                run = Runner(cctx, eng)
                rng = random.Random()
                if state is not None:
                    run.events, run.coq, run.hits, run.tr, run.ever = state['events'], state['coq'], state['hits'], state['tr'], state['ever']
                    if state['rng'] is not None:
                        rng.setstate(state['rng'])
                    # what the new process finds in the file; nothing may have changed since the last acknowledged operation
                    nxt, us = eng.next_uid(), eng.uids()
                    run.events.append({'ev': 'restart', 'by': state['last']['how'], 'next_uid': nxt, 'uids': us})
                    run.coq.append(('ERestart', 'Ob (Some []) %s %s' % (zt(nxt), cp.lst(us, zt))))
                    cctx.count('event.restart.process_%s' % state['last']['how'])
                    lost = [u for u in state['last']['uids'] if u not in us]
                    back = [u for u in us if u not in state['last']['uids']]
                    if lost or back or nxt != state['last']['next']:
                        run.hit({'kind': 'restart-changed-store', 'by': state['last']['how']},
                                'after the server process ended by %s and a new process opened the same database file: acknowledged '
                                'objects %r are gone, identifiers %r are (back) in the table, allocator %d -> %d' % (
                                    state['last']['how'], lost, back, state['last']['next'], nxt), len(run.events) - 1)
                elif seed_rng is not None:
                    rng.setstate(seed_rng.getstate())
                fn(run, rng)
                last = {'how': how, 'next': eng.next_uid(), 'uids': eng.uids()}
                data = pickle.dumps(('ok', _runner_state(run, rng, cctx.counts, last)))
            except BaseException as e:                 # ship the failure to the parent, never fall out of the child
                import traceback
                data = pickle.dumps(('error', traceback.format_exc()[-2000:]))
                code = 1
            try:
                data = struct.pack('!I', len(data)) + data
                while data:
                    n_ = os.write(w, data)
                    data = data[n_:]
                os.close(w)
                if how == 'kill' and code == 0:
                    time.sleep(300)                    # answers are out; wait for the SIGKILL
            finally:
                os._exit(code)
        os.close(w)                                    # ---------------- the parent
        buf = b''
        while True:
            chunk = os.read(r, 1 << 16)
            if not chunk:
                break
            buf += chunk
            if len(buf) >= 4 and len(buf) - 4 >= struct.unpack('!I', buf[:4])[0]:
                break
        os.close(r)
        if how == 'kill':
            try:
                os.kill(pid, signal.SIGKILL)
            except OSError:
                pass
        os.waitpid(pid, 0)
        if len(buf) < 4:
            raise RuntimeError('server process %d of the history died without reporting' % k)
        kind, payload = pickle.loads(buf[4:4 + struct.unpack('!I', buf[:4])[0]])
        if kind != 'ok':
            raise RuntimeError('server process %d of the history failed: %s' % (k, payload))
        state = payload
        for key, n_ in state['counts'].items():
            ctx.count(key, n_)
        state['counts'] = {}
    return state


def remove_db(path):
    import os, glob
    for f in glob.glob(path + '*'):
        try:
            os.unlink(f)
        except OSError:
            pass


def check_database_settings(ctx):
    """What the allocator model relies on, read from a database the engine has just created and used:
    AUTOINCREMENT in the DDL of managed_objects, rollback-journal mode (a committed transaction is in the database file
    itself), and no side files next to the database other than SQLite's own journal."""
    import os, sqlite3, glob
    eng = new_engine(ctx.work)
    try:
        eng.request([build_item({'op': 'create', 'good': True}, (1, 2))], user='alice')
        con = sqlite3.connect(eng.path)
        try:
            mode = con.execute('PRAGMA journal_mode').fetchone()[0]
            ddl = con.execute("select sql from sqlite_master where type='table' and name='managed_objects'").fetchone()[0]
        finally:
            con.close()
        side = sorted(f[len(eng.path):] for f in glob.glob(eng.path + '*'))
        bad = []
        if str(mode).lower() != 'delete':
            bad.append('journal_mode is %r, not the rollback journal the model assumes (commits would live in a side file)' % mode)
        if 'AUTOINCREMENT' not in ddl.upper():
            bad.append('managed_objects is created without AUTOINCREMENT')
        if not set(side) <= {'', '-journal'}:
            bad.append('files next to the database besides the rollback journal: %r' % [x for x in side if x not in ('', '-journal')])
        return bad, {'journal_mode': mode, 'autoincrement': 'AUTOINCREMENT' in ddl.upper(), 'files': side}
    finally:
        eng.close()
        remove_db(eng.path)


# ------------------------------------------------------------------ shrinking a failing history
def shrink(ctx, events, kind):
    """Greedy event removal while the direct oracle still reports a hit of the same kind."""
    def fails(evs):
        """-> None, or (events as re-observed, first hit of that kind) when the oracle still fires"""
        eng = new_engine(ctx.work)
        try:
            run = Runner(NullCtx(ctx.work), eng)
            try:
                replay_events(run, evs)
            except Exception:
                return None
            hs = [h for h in run.hits if h[0].get('kind') == kind]
            return (hs[0][1]['history'], hs[0]) if hs else None
        finally:
            eng.close()
    cur = list(events)
    best = fails(cur)
    if best is None:
        return None
    cur = best[0]
    budget = 150
    i = len(cur) - 2                      # the last event is the failing one; drop earlier events, latest first
    while i >= 0 and budget > 0:
        cand = cur[:i] + cur[i + 1:]
        budget -= 1
        got = fails(cand) if cand else None
        if got is not None:
            best, cur = got, got[0]
            i = min(i, len(cur) - 1)
        i -= 1
    return best


class NullCtx:
    def __init__(self, work=None):
        self.work = work

    def count(self, *a, **k):
        pass


# ------------------------------------------------------------------ the check
def run(ctx):
    quick = ctx.tier == 'quick'
    ctx.cov['rule'] = (
        'histories of requests by three identities against one database file: fixed scenarios first (destroy-newest-then-'
        'Create/CreateKeyPair/Register/DeriveKey, destroy-all + restart + create, every addressed operation on a live and on a '
        'destroyed public key by owner and non-owner, placeholder batches, dead wrapping key / derivation base), then seeded '
        'random histories biased to destroy-newest-then-create, restart-then-create, placeholder batches. A case is one event '
        'of a history (request or restart); distinct = distinct (items, observed classes, table state); non-trivial = the '
        'request issued, destroyed or addressed an identifier.')
    ctx.cov['trusted_extra'] = [
        'SQLite AUTOINCREMENT semantics (sqlite_sequence persisted with the store) - modelled as a monotone counter, tied by K',
        'harness/kdrv.py + harness/c07.py request builders and the class projection of responses (classify)',
        'model bound: canonical decimal identifier strings; shipped default operation policy, client groups None (checked against kmip/core/policy.py every run)']
    ctx.prove('props/C07.v')

    bad_pol = check_policy_assumption()
    if bad_pol:
        ctx.broken.append({'kind': 'translation', 'name': 'default policy vs Uid.Model.permitted',
                           'detail': 'the shipped default policy no longer matches the access table of the model: %r' % bad_pol[:6],
                           'candidates': []})

    try:
        bad_db, seen_db = check_database_settings(ctx)
        ctx.cov['database_settings'] = seen_db
    except Exception as e:
        bad_db = ['could not read the database settings: %r' % e]
    if bad_db:
        ctx.broken.append({'kind': 'translation', 'name': 'database settings the allocator model relies on',
                           'detail': '; '.join(bad_db), 'candidates': []})

    histories = []           # (coq case, events)
    all_hits = []

    def one(script=None, seed_name=None, length=0):
        eng = new_engine(ctx.work)
        try:
            run_ = Runner(ctx, eng)
            try:
                if script is not None:
                    play(run_, script)
                else:
                    rng = ctx.subrng(seed_name)
                    gen_history(ctx, rng, run_, length, ckp_budget=1 if quick else 2)
            except Exception as e:          # the driver could not go on with this history (never on the unchanged tree):
                import traceback         # a broken correspondence; what the oracle saw so far is kept, other histories still run
                ctx.broken.append({'kind': 'correspondence', 'name': 'histories',
                                   'detail': 'history driver raised: ' + traceback.format_exc()[-1500:], 'candidates': []})
                n_ = min(len(run_.coq), len(run_.events))
                run_.coq, run_.events = run_.coq[:n_], run_.events[:n_]
            histories.append((cp.lst(['(%s, %s)' % p for p in run_.coq], str), run_.events))
            for h in run_.hits:
                all_hits.append(h)
            for ev, (evt, obt) in zip(run_.events, run_.coq):
                nontriv = ev['ev'] == 'killed' or ev['ev'] == 'req' and any(i.get('class') not in (None, 'RLocated', 'RFailed') for i in ev['items'])
                ctx.case_seen((evt, obt), nontrivial=nontriv)
        finally:
            eng.close()

    for sc in scenarios():
        one(script=sc)
    n_hist = 60 if quick else 400
    for k in range(n_hist):
        one(seed_name='hist%d' % k, length=ctx.subrng('len%d' % k).randrange(8, 36))
    # restart by kill: every segment of these histories runs in its own server process, ended by SIGKILL (or _exit)
    import os

    def kill_history(name, script_segments=None):
        path = os.path.join(str(ctx.work), 'srv_%s.db' % name)
        remove_db(path)
        rng = ctx.subrng(name)
        if script_segments is not None:
            segs = [(how, (lambda evs: (lambda run, r_: play(run, evs)))(evs)) for how, evs in script_segments]
        else:
            nseg = rng.randrange(2, 5)
            segs = [(rng.choice(['kill', 'kill', 'exit']),
                     (lambda n_: (lambda run, r_: gen_history(ctx_in_child(run), r_, run, n_, ckp_budget=0, kill_budget=0)))(rng.randrange(3, 9)))
                    for _ in range(nseg)]
        try:
            st = run_in_server_processes(ctx, path, segs, seed_rng=rng)
            histories.append((cp.lst(['(%s, %s)' % p for p in st['coq']], str), st['events']))
            all_hits.extend(st['hits'])
            for ev, (evt, obt) in zip(st['events'], st['coq']):
                ctx.case_seen(('srv', evt, obt), nontrivial=True)
        except Exception as e:
            ctx.broken.append({'kind': 'correspondence', 'name': 'kill-histories', 'detail': repr(e)[-1500:], 'candidates': []})
        finally:
            remove_db(path)

    C_ = {'op': 'create', 'good': True, 'rich': True}
    O_ = {'op': 'register', 't': 'TOpaque', 'good': True}
    kill_history('kill_scenario', [
        ('kill', [('req', 0, (1, 2), False, [O_]), ('req', 0, (1, 2), False, [C_]), ('req', 0, (1, 2), False, [O_]),
                  ('req', 0, (1, 2), False, [{'op': 'destroy', 'tgt': ['ref', 2]}])]),
        ('kill', [('req', 0, (1, 2), False, [{'op': 'addr', 'k': 'AGet', 'tgt': ['ref', 2]}]), ('req', 1, (1, 2), False, [C_]),
                  ('req', 0, (1, 2), False, [{'op': 'locate'}])]),
        ('exit', [('req', 1, (1, 2), False, [{'op': 'destroy', 'tgt': ['newest']}]), ('req', 1, (1, 2), False, [C_])]),
        ('kill', [('req', 0, (1, 2), False, [{'op': 'locate'}]), ('req', 1, (1, 2), False, [{'op': 'locate'}]), ('req', 2, (1, 2), False, [C_])])])
    for k in range(8 if quick else 60):
        kill_history('srv%d' % k)
    ctx.log('ran %d histories, %d events' % (len(histories), sum(len(e) for _, e in histories)))

    bad = ctx.run_cases('histories', HEADER, [h for h, _ in histories], 'check_history', shard=40,
                        what='Uid.Model.run_history vs KmipEngine: identifiers issued, found/denied/not-found class of every '
                             'item, Locate ids, sqlite_sequence, managed_objects.uid after every event')
    for i in bad[:10]:
        where = ctx.model_output(HEADER, 'first_bad %s' % histories[i][0])
        ctx.disagreement('histories', {'history_index': i, 'first_bad_event': where, 'events': histories[i][1][:60]},
                         model_says=ctx.model_output(HEADER, 'model_trace %s' % histories[i][0])[:3000])
    # direct-oracle hits: shrink the first of each kind, then report
    seen_kinds = set()
    for sig, w, what in all_hits:
        if sig.get('kind') not in seen_kinds and len(seen_kinds) < 3:
            seen_kinds.add(sig.get('kind'))
            try:
                got = shrink(ctx, w['history'], sig.get('kind'))
                if got is not None:
                    n0 = len(w['history'])
                    sig, w, what = got[1]
                    w = dict(w, shrunk_from=n0)
            except Exception as e:      # shrinking is best effort
                w = dict(w, shrink_error=repr(e))
        ctx.violation(sig, w, what)
    ctx.sample({'history': histories[0][1][:6]})
    if len(histories) > len(scenarios()):
        ctx.sample({'history': histories[len(scenarios())][1][:6]})
    ctx.sample({'coq_case': histories[3][0][:600]})


def replay(ctx, data):
    """bin/check C07 --replay file: re-run the recorded history and re-evaluate the direct oracle."""
    w = data.get('input') or {}
    events = w.get('history') or (data.get('first_disagreeing_cases') or [{}])[0].get('case', {}).get('events')
    if not events:
        print('replay file holds no history')
        return 2
    if any(e.get('ev') == 'restart' and e.get('by') for e in events):
        # the history has restarts by process end: replay every stretch in a server process of its own, ended the same way
        import os
        segs, cur = [], []
        for e in events:
            if e.get('ev') == 'restart' and e.get('by'):
                segs.append((e['by'], cur))
                cur = []
            else:
                cur.append(e)
        segs.append(('exit', cur))
        path = os.path.join(str(ctx.work), 'replay_srv.db')
        remove_db(path)
        st = run_in_server_processes(ctx, path, [(how, (lambda evs: (lambda run, r_: replay_events(run, evs)))(evs)) for how, evs in segs])
        remove_db(path)
        for sig, wit, what in st['hits']:
            print('REPRODUCED:', what)
        text = cp.lst(['(%s, %s)' % p for p in st['coq']], str)
        ok, out, err = ctx.coq_eval('replay', HEADER + 'Eval vm_compute in (check_history %s, first_bad %s).\n' % (text, text))
        print('model agrees with the implementation on this history:', ' '.join(out.split()) if ok else err[-400:])
        return 1 if st['hits'] or 'false' in out else 0
    eng = new_engine(ctx.work)
    try:
        run_ = Runner(NullCtx(ctx.work), eng)
        replay_events(run_, events)
        for sig, wit, what in run_.hits:
            print('REPRODUCED:', what)
        text = cp.lst(['(%s, %s)' % p for p in run_.coq], str)
        ok, out, err = ctx.coq_eval('replay', HEADER + 'Eval vm_compute in (check_history %s, first_bad %s).\n' % (text, text))
        print('model agrees with the implementation on this history:', ' '.join(out.split()) if ok else err[-400:])
        return 1 if run_.hits or 'false' in out else 0
    finally:
        eng.close()
