"""Independent reference implementations for C06 (testing part of the tie, labelled so).

Nothing here calls the code under test.  Hashes / HMAC come from hashlib / hmac;
HKDF, PBKDF2, SP 800-108 counter-mode KBKDF, CMAC, RFC 3394, the block modes
(CBC, CFB, OFB, CTR), PKCS7 / ANSI X.923 padding and RC4 are written out here
over a raw single-block primitive (`cryptography`'s Cipher(alg, ECB) used one
block at a time).  GCM uses the separate AEAD interface `AESGCM`.
The constructions take the primitive as a parameter so that the Gallina
constructions (Crypto/Constructions.v) can be compared with them on observed
primitive tables.
"""
import hashlib
import hmac as _hmac
import struct

HASHES = {1: 'md5', 2: 'sha1', 3: 'sha224', 4: 'sha256', 5: 'sha384', 6: 'sha512'}
DIGEST = {1: 16, 2: 20, 3: 28, 4: 32, 5: 48, 6: 64}


def digest(h, data):
    return hashlib.new(HASHES[h], data).digest()


def hmac_fn(h):
    name = HASHES[h]
    return lambda key, msg: _hmac.new(key, msg, name).digest()


# ---------------------------------------------------------------- KDF constructions over an abstract PRF
def hkdf(prf, hashlen, length, salt, info, ikm):
    """RFC 5869 extract-then-expand; salt None/empty -> hashlen zero bytes; info None -> empty."""
    if not salt:
        salt = bytes(hashlen)
    if info is None:
        info = b''
    prk = prf(salt, ikm)
    out, t, i = b'', b'', 1
    while len(out) < length:
        t = prf(prk, t + info + bytes([i]))
        out += t
        i += 1
    return out[:length]


def pbkdf2(prf, hashlen, length, salt, iterations, password):
    """RFC 8018 PBKDF2 with PRF = HMAC keyed by the password."""
    out, i = b'', 1
    while len(out) < length:
        u = prf(password, salt + struct.pack('>I', i))
        t = u
        for _ in range(iterations - 1):
            u = prf(password, u)
            t = bytes(a ^ b for a, b in zip(t, u))
        out += t
        i += 1
    return out[:length]


def kbkdf_counter(prf, hashlen, length, fixed, key):
    """SP 800-108 counter mode, r = 32 bits, counter before the fixed input data."""
    out, i = b'', 1
    while len(out) < length:
        out += prf(key, struct.pack('>I', i) + fixed)
        i += 1
    return out[:length]


# ---------------------------------------------------------------- raw block primitive
def _alg_class(name):
    from cryptography.hazmat.primitives.ciphers import algorithms
    try:
        from cryptography.hazmat.decrepit.ciphers import algorithms as old
    except Exception:  # older layouts
        old = algorithms
    for mod in (algorithms, old):
        if hasattr(mod, name):
            return getattr(mod, name)
    raise KeyError(name)


def block_fns(alg_name, key):
    """(encrypt_block, decrypt_block, block_bytes): the raw block function, one block per call (one ECB context each,
    fed exactly one block at a time - ECB keeps no state between blocks)."""
    from cryptography.hazmat.primitives.ciphers import Cipher, modes
    klass = _alg_class(alg_name)
    alg = klass(key)
    bs = klass.block_size // 8
    e = Cipher(alg, modes.ECB()).encryptor()
    d = Cipher(alg, modes.ECB()).decryptor()

    def enc(b):
        assert len(b) == bs
        r = e.update(b)
        assert len(r) == bs
        return r

    def dec(b):
        assert len(b) == bs
        r = d.update(b)
        assert len(r) == bs
        return r
    return enc, dec, bs


def xor(a, b):
    n = min(len(a), len(b))
    return (int.from_bytes(a[:n], 'big') ^ int.from_bytes(b[:n], 'big')).to_bytes(n, 'big')


def pad(scheme, bs, m):
    n = bs - len(m) % bs
    return m + (bytes([n]) * n if scheme == 0 else bytes(n - 1) + bytes([n]))


def unpad(scheme, bs, d):
    if not d or len(d) % bs:
        return None
    v = d[-1]
    if not 1 <= v <= bs:
        return None
    tail = d[-v:]
    if scheme == 0 and tail != bytes([v]) * v:
        return None
    if scheme == 1 and tail[:-1] != bytes(v - 1):
        return None
    return d[:-v]


def _blocks(d, bs):
    return [d[i:i + bs] for i in range(0, len(d), bs)]


def mode_encrypt(mode, enc, bs, iv, data):
    """mode in 'ECB','CBC','CFB','OFB','CTR' written over the single-block function."""
    out = []
    if mode == 'ECB':
        assert len(data) % bs == 0
        return b''.join(enc(b) for b in _blocks(data, bs))
    if mode == 'CBC':
        assert len(data) % bs == 0
        prev = iv
        for b in _blocks(data, bs):
            prev = enc(xor(b, prev))
            out.append(prev)
        return b''.join(out)
    if mode == 'CFB':
        prev = iv
        for b in _blocks(data, bs):
            c = xor(b, enc(prev))
            out.append(c)
            prev = c
        return b''.join(out)
    if mode == 'OFB':
        prev = iv
        for b in _blocks(data, bs):
            prev = enc(prev)
            out.append(xor(b, prev))
        return b''.join(out)
    if mode == 'CTR':
        ctr = int.from_bytes(iv, 'big')
        top = 1 << (8 * bs)
        for b in _blocks(data, bs):
            out.append(xor(b, enc((ctr % top).to_bytes(bs, 'big'))))
            ctr += 1
        return b''.join(out)
    raise KeyError(mode)


def mode_decrypt(mode, enc, dec, bs, iv, data):
    out = []
    if mode == 'ECB':
        return b''.join(dec(b) for b in _blocks(data, bs))
    if mode == 'CBC':
        prev = iv
        for b in _blocks(data, bs):
            out.append(xor(dec(b), prev))
            prev = b
        return b''.join(out)
    if mode == 'CFB':
        prev = iv
        for b in _blocks(data, bs):
            out.append(xor(b, enc(prev)))
            prev = b
        return b''.join(out)
    return mode_encrypt(mode, enc, bs, iv, data)      # OFB, CTR are involutions


def rc4(key, data):
    s = list(range(256))
    j = 0
    for i in range(256):
        j = (j + s[i] + key[i % len(key)]) & 255
        s[i], s[j] = s[j], s[i]
    i = j = 0
    out = bytearray()
    for b in data:
        i = (i + 1) & 255
        j = (j + s[i]) & 255
        s[i], s[j] = s[j], s[i]
        out.append(b ^ s[(s[i] + s[j]) & 255])
    return bytes(out)


def gcm_encrypt(key, iv, aad, data):
    """(ciphertext, 16-byte tag) through the AEAD interface."""
    from cryptography.hazmat.primitives.ciphers.aead import AESGCM
    r = AESGCM(key).encrypt(iv, data, aad)
    return r[:-16], r[-16:]


def sym_encrypt(alg_name, key, mode, iv, scheme, data, aad=None):
    """Reference for the whole symmetric path; mode None = RC4.  Returns (ct, full tag or None)."""
    if alg_name == 'ARC4':
        return rc4(key, data), None
    if mode == 'GCM':
        return gcm_encrypt(key, iv, aad, data)
    enc, dec, bs = block_fns(alg_name, key)
    if mode in ('ECB', 'CBC'):
        data = pad(scheme, bs, data)
    return mode_encrypt(mode, enc, bs, iv, data), None


def sym_decrypt(alg_name, key, mode, iv, scheme, data):
    if alg_name == 'ARC4':
        return rc4(key, data)
    enc, dec, bs = block_fns(alg_name, key)
    out = mode_decrypt(mode, enc, dec, bs, iv, data)
    if mode in ('ECB', 'CBC'):
        out = unpad(scheme, bs, out)
    return out


# ---------------------------------------------------------------- CMAC (SP 800-38B) over the block function
def cmac(enc, bs, data):
    rb = {8: 0x1B, 16: 0x87}[bs]

    def dbl(b):
        n = int.from_bytes(b, 'big') << 1
        if n >> (8 * bs):
            n = (n & ((1 << (8 * bs)) - 1)) ^ rb
        return n.to_bytes(bs, 'big')
    k1 = dbl(enc(bytes(bs)))
    k2 = dbl(k1)
    blocks = _blocks(data, bs) or [b'']
    last = blocks[-1]
    if len(last) == bs:
        last = xor(last, k1)
    else:
        last = xor(last + b'\x80' + bytes(bs - len(last) - 1), k2)
    x = bytes(bs)
    for b in blocks[:-1]:
        x = enc(xor(x, b))
    return enc(xor(x, last))


# ---------------------------------------------------------------- RFC 3394 over the block function
RFC3394_IV = b'\xa6' * 8


def rfc3394_wrap(enc, key):
    n = len(key) // 8
    a = RFC3394_IV
    r = [key[8 * i:8 * i + 8] for i in range(n)]
    for j in range(6):
        for i in range(n):
            b = enc(a + r[i])
            t = n * j + i + 1
            a = xor(b[:8], t.to_bytes(8, 'big'))
            r[i] = b[8:]
    return a + b''.join(r)


def rfc3394_unwrap(dec, wrapped):
    n = len(wrapped) // 8 - 1
    a = wrapped[:8]
    r = [wrapped[8 * (i + 1):8 * (i + 2)] for i in range(n)]
    for j in reversed(range(6)):
        for i in reversed(range(n)):
            t = n * j + i + 1
            b = dec(xor(a, t.to_bytes(8, 'big')) + r[i])
            a = b[:8]
            r[i] = b[8:]
    if a != RFC3394_IV:
        return None
    return b''.join(r)


# ---------------------------------------------------------------- RSA through the library, parameters built here
def _hash_obj(h):
    from cryptography.hazmat.primitives import hashes
    return {1: hashes.MD5, 2: hashes.SHA1, 3: hashes.SHA224, 4: hashes.SHA256, 5: hashes.SHA384, 6: hashes.SHA512}[h]()


def load_private(der_or_pem):
    from cryptography.hazmat.primitives import serialization
    try:
        return serialization.load_der_private_key(der_or_pem, password=None)
    except Exception:
        return serialization.load_pem_private_key(der_or_pem, password=None)


def load_public(der_or_pem):
    from cryptography.hazmat.primitives import serialization
    try:
        return serialization.load_der_public_key(der_or_pem)
    except Exception:
        return serialization.load_pem_public_key(der_or_pem)


def sig_padding(kind, h):
    from cryptography.hazmat.primitives.asymmetric import padding
    if kind == 'PSS':
        return padding.PSS(mgf=padding.MGF1(_hash_obj(h)), salt_length=padding.PSS.MAX_LENGTH)
    return padding.PKCS1v15()


def rsa_sign(priv_bytes, kind, h, data):
    return load_private(priv_bytes).sign(data, sig_padding(kind, h), _hash_obj(h))


def rsa_verify(pub_bytes, kind, h, data, signature):
    from cryptography.exceptions import InvalidSignature
    try:
        load_public(pub_bytes).verify(signature, data, sig_padding(kind, h), _hash_obj(h))
        return True
    except InvalidSignature:
        return False


def enc_padding(kind, h):
    from cryptography.hazmat.primitives.asymmetric import padding
    if kind == 'OAEP':
        return padding.OAEP(mgf=padding.MGF1(algorithm=_hash_obj(h)), algorithm=_hash_obj(h), label=None)
    return padding.PKCS1v15()


def rsa_decrypt(priv_bytes, kind, h, ct):
    return load_private(priv_bytes).decrypt(ct, enc_padding(kind, h))


def rsa_encrypt(pub_bytes, kind, h, pt):
    return load_public(pub_bytes).encrypt(pt, enc_padding(kind, h))
