"""C13 - well-formed requests never hit the server's internal-error path (never answer GENERAL_FAILURE).

Tie T : translate/gen_pieclasses.py  -> coq/gen/PieClasses.v   (class/attribute table, object map, policy-query probes)
        translate/gen_attrrules.py   -> coq/gen/AttrRuleTable.v
Tie K : the grid operation x stored type x state x version x parameter menu (+ seeded random requests over random
        stores) is run against the real KmipEngine; Coq (NoCrash/Cases.v, `check_case`) compares the crash site the
        model predicts with the site observed (innermost /repo frame + exception class of the traceback logged with
        'Error occurred while processing operation.').
Oracle: result_reason == GENERAL_FAILURE on any cell is a violation unless it matches a findings.d/C13.json signature.
"""
import itertools
import os
import json
import logging
import traceback

import kdrv
from kdrv import OT, OP, AT, enums
from kmip.core import objects as cobjects, attributes as cattrs, primitives, secrets
from kmip.core.messages import payloads, contents
from kmip.core.factories import attributes as attr_factory
from kmip.pie import objects as pobjects
from vlib import coqprint as cp

E = enums
ALG = enums.CryptographicAlgorithm
MODE = enums.BlockCipherMode
PAD = enums.PaddingMethod
HASH = enums.HashingAlgorithm
KFT = enums.KeyFormatType
UM = enums.CryptographicUsageMask
ST = enums.State

ALL_MASK = [UM.ENCRYPT, UM.DECRYPT, UM.SIGN, UM.VERIFY, UM.MAC_GENERATE, UM.MAC_VERIFY, UM.DERIVE_KEY, UM.WRAP_KEY, UM.UNWRAP_KEY]
TYPE_NAMES = ['SYMMETRIC_KEY', 'PUBLIC_KEY', 'PRIVATE_KEY', 'SPLIT_KEY', 'CERTIFICATE', 'SECRET_DATA', 'OPAQUE_DATA']
STATES = ['PreActive', 'Active', 'Deactivated', 'Compromised', 'Destroyed']

_RSA = {}


def rsa_material():
    """One real RSA-1024 key pair (DER PKCS#1 private, DER PKCS#1 public) generated once per process, deterministic file cache not needed."""
    if not _RSA:
        from cryptography.hazmat.primitives.asymmetric import rsa
        from cryptography.hazmat.primitives import serialization as ser
        from cryptography.hazmat.backends import default_backend
        k = rsa.generate_private_key(public_exponent=65537, key_size=1024, backend=default_backend())
        _RSA['priv'] = k.private_bytes(ser.Encoding.DER, ser.PrivateFormat.TraditionalOpenSSL, ser.NoEncryption())
        _RSA['pub'] = k.public_key().public_bytes(ser.Encoding.DER, ser.PublicFormat.PKCS1)
    return _RSA


# a 512-bit RSA test key (DER, PKCS#1) - too small for the larger hashes: signing with it must be refused, not crash
SMALL_RSA_PRIV = bytes.fromhex(
    '3082013b020100024100dc339967a03800ebbd71f19ce09a78a37898af6e0e238994be1b00187ad965ff261233519e9e6698a23b9b0fe9e6898ee80a9f6fb95049ee1d4309'
    'df12efd3890203010001024100bcc77bd7ac32f70f236de11e862bc80b156388da88428d3bb8b33b24c185497b9a81c2d1858951f82d52177bf7b2a2bec5a0a2f85cab411f'
    'fd229a4c909867e5022100f2171914eb6aea5174b42caf40f1d31fd081cea8d7158321c93e886cd69e0f13022100e8da8a8842e69cceecb5739252db1a914cac706a021815'
    'd2a58e49da66407a730221009e345203c5c4dcd3d67c58273f3dc946a52fef298f4553a8a4a6e4e89b6837590220672c1de18e32fc1bbb4a12b12cc1241e6928a68e71eb16'
    '104586ac3676c3eefd02205db7065ffeaa1c7d8489298e35c0f02f9bf537ed97c20f52ae4b4df8e315a208')


# ---------------------------------------------------------------------------------------------- capture of the internal-error path
def exc_detail(ev):
    """For an AttributeError the name of the missing attribute (line numbers are deliberately not part of a site)."""
    import re
    if isinstance(ev, AttributeError):
        m = re.search(r"has no attribute '(\w+)'", str(ev))
        return m.group(1) if m else ''
    return ''


def observed_site(obs):
    """The internal-error site of one observation: the handler's (GENERAL_FAILURE item) or the response encoder's."""
    if obs['reason'] == 'GENERAL_FAILURE':
        return site_string(obs['crash'])
    if obs.get('encode'):
        return site_string(obs['encode'])
    return None


def site_string(c):
    """'file:function:Exception[(attr)]' - the form NoCrash/Model.v and gen/PieClasses.v use."""
    if c is None:
        return None
    return '%s:%s%s' % (c['site'], c['exc'], '(%s)' % c['detail'] if c.get('detail') else '')


class Capture(logging.Handler):
    """Collects the WARNING 'Error occurred while processing operation.' and the traceback record that follows it."""
    def __init__(self):
        logging.Handler.__init__(self, level=logging.DEBUG)
        self.warnings = 0
        self.sites = []

    def emit(self, record):
        try:
            record.getMessage()         # force the (lazy) formatting of every record, whatever its level
        except Exception:
            self.format_errors = getattr(self, 'format_errors', 0) + 1
        if record.levelno == logging.WARNING and record.getMessage() == 'Error occurred while processing operation.':
            self.warnings += 1
        if record.exc_info and record.exc_info[1] is not None and record.name == 'kmip.server.engine':
            et, ev, tb = record.exc_info
            frames = traceback.extract_tb(tb)
            site = None
            for fr in frames:
                fn = fr.filename.replace('\\', '/')
                if '/kmip/' in fn and '/site-packages/' not in fn:
                    site = '%s:%s' % (fn.split('/kmip/', 1)[1], fr.name)
            self.sites.append({'site': site, 'exc': et.__name__, 'msg': str(ev)[:160], 'detail': exc_detail(ev),
                               'line': frames[-1].lineno if frames else None})

    def reset(self):
        self.warnings = 0
        self.sites = []


class Driver:
    """A kdrv.Engine with the C13 instrumentation attached from outside: WARNING capture and crypto-engine call tracing."""
    def __init__(self, ctx):
        # the SQLite file lives in a private directory next to work/C13: a second `bin/check C13` started while this one
        # runs wipes work/C13 and would otherwise delete the database under a running engine
        import tempfile
        from pathlib import Path
        base = Path(ctx.work).parent
        base.mkdir(parents=True, exist_ok=True)
        self.dbdir = tempfile.mkdtemp(prefix='C13db.', dir=str(base))
        self.eng = kdrv.Engine(workdir=self.dbdir)
        self.cap = Capture()
        self.ctx = ctx
        self.setup_log = []        # add_object specs since the store was last emptied (what a replay has to redo)
        self.attach()

    def attach(self):
        lg = self.eng.engine._logger
        # DEBUG for two drivers out of three, INFO for the third: some code only runs to build a debug message
        Driver.count = getattr(Driver, 'count', 0) + 1
        lg.setLevel(logging.INFO if Driver.count % 3 == 0 else logging.DEBUG)
        lg.propagate = False
        for h in list(lg.handlers):
            if isinstance(h, Capture):
                lg.removeHandler(h)
        lg.addHandler(self.cap)
        logging.getLogger('kmip.server.engine.cryptography').setLevel(logging.CRITICAL + 1)
        self.crypto_calls = []
        ce = self.eng.engine._cryptography_engine
        ce.logger.setLevel(logging.CRITICAL + 1)
        for name in ('create_symmetric_key', 'create_asymmetric_key_pair', 'mac', 'encrypt', 'decrypt', 'derive_key',
                     'wrap_key', 'sign', 'verify_signature'):
            orig = getattr(type(ce), name)

            def wrapper(*a, _orig=orig, _name=name, **kw):
                depth = getattr(self, '_depth', 0)
                self._depth = depth + 1
                try:
                    r = _orig(ce, *a, **kw)
                    if depth == 0:
                        self.crypto_calls.append((_name, 'ok'))
                    return r
                except kdrv.kexc.KmipError:
                    if depth == 0:
                        self.crypto_calls.append((_name, 'kmip'))
                    raise
                except Exception as e:
                    if depth == 0:
                        self.crypto_calls.append((_name, 'exc:' + type(e).__name__))
                    raise
                finally:
                    self._depth = depth
            setattr(ce, name, wrapper)

    def close(self):
        import shutil
        self.eng.engine._logger.removeHandler(self.cap)
        self.eng.close()
        shutil.rmtree(self.dbdir, ignore_errors=True)

    def reset(self):
        """Empties every table (identifier counter keeps running): a fresh store without paying for a new engine."""
        import sqlite3
        con = sqlite3.connect(self.eng.path)
        try:
            for (t,) in con.execute("select name from sqlite_master where type='table'").fetchall():
                if t != 'sqlite_sequence':
                    con.execute('delete from "%s"' % t)
            con.commit()
        finally:
            con.close()
        self.setup_log = []

    def run_batch(self, items, version=(1, 2), user='alice', option=None):
        """One request with several batch items -> [observation per answered item] (same shape as `run`)."""
        self.cap.reset()
        self.crypto_calls = []
        eng = self.eng.engine
        orig = eng._process_operation

        def marked(operation, payload):
            self.crypto_calls.append(('ITEM', None))
            return orig(operation, payload)
        eng._process_operation = marked
        try:
            r = self.eng.request(list(items), version=version, user=user, batch_option=option)
        finally:
            del eng._process_operation
        if r['error'] is not None:
            return [{'status': 'REQUEST_ERROR', 'reason': r['error']['reason'], 'crash': None, 'crypto': [], 'warned': self.cap.warnings,
                     'message': r['error']['message'], 'encode': None}]
        enc = None
        try:
            from kmip.core import utils as _utils
            kv = getattr(enums.KMIPVersion, 'KMIP_%d_%d' % tuple(version))
            r['raw'].write(_utils.BytearrayStream(), kmip_version=kv)
        except Exception as e:
            fr = [f for f in traceback.extract_tb(e.__traceback__) if '/kmip/' in f.filename.replace('\\', '/') and '/site-packages/' not in f.filename]
            enc = {'site': ('%s:%s' % (fr[-1].filename.replace('\\', '/').split('/kmip/', 1)[1], fr[-1].name)) if fr else None,
                   'exc': type(e).__name__, 'msg': str(e)[:160], 'detail': exc_detail(e)}
        per_item, cur = [], None
        for c in self.crypto_calls:
            if c[0] == 'ITEM':
                cur = []
                per_item.append(cur)
            elif cur is not None:
                cur.append(c)
        sites = list(self.cap.sites)
        out = []
        for k, it in enumerate(r['items']):
            crash = None
            if it['reason'] == 'GENERAL_FAILURE':
                crash = dict(sites.pop(0)) if sites else {'site': None, 'exc': None}
            out.append({'status': it['status'], 'reason': it['reason'], 'crash': crash, 'crypto': per_item[k] if k < len(per_item) else [],
                        'warned': 1 if it['reason'] == 'GENERAL_FAILURE' else 0, 'message': it['message'], 'payload': it['payload'],
                        'encode': enc if k == len(r['items']) - 1 else None})
        if self.cap.warnings != sum(1 for o in out if o['reason'] == 'GENERAL_FAILURE'):
            out[-1]['warned'] = -1      # the WARNING count and the GENERAL_FAILURE count of the batch disagree
        return out

    def run(self, item, version=(1, 2), user='alice', auth=None):
        """-> observation dict {status, reason, crash: None | {site, exc}, crypto: [(fn, outcome)], warned}"""
        self.cap.reset()
        self.crypto_calls = []
        try:
            r = self.eng.request([item], version=version, user=user, auth=auth)
        except Exception as e:      # not a KmipError: the session answers the whole message with GENERAL_FAILURE
            fr = [f for f in traceback.extract_tb(e.__traceback__) if '/kmip/' in f.filename.replace('\\', '/') and '/site-packages/' not in f.filename]
            site = ('%s:%s' % (fr[-1].filename.replace('\\', '/').split('/kmip/', 1)[1], fr[-1].name)) if fr else None
            return {'status': 'REQUEST_CRASH', 'reason': 'GENERAL_FAILURE', 'crypto': list(self.crypto_calls), 'warned': 1, 'message': str(e)[:160],
                    'crash': {'site': site, 'exc': type(e).__name__, 'msg': str(e)[:160], 'detail': exc_detail(e)}, 'encode': None}
        if r['error'] is not None:
            return {'status': 'REQUEST_ERROR', 'reason': r['error']['reason'], 'crash': None, 'crypto': list(self.crypto_calls),
                    'warned': self.cap.warnings, 'message': r['error']['message'], 'encode': None}
        it = r['items'][0]
        enc = None
        try:
            from kmip.core import utils as _utils
            kv = getattr(enums.KMIPVersion, 'KMIP_%d_%d' % tuple(version))
            r['raw'].write(_utils.BytearrayStream(), kmip_version=kv)
        except Exception as e:      # the session turns this into a GENERAL_FAILURE error response (repo commit d6c2cec)
            fr = [f for f in traceback.extract_tb(e.__traceback__) if '/kmip/' in f.filename.replace('\\', '/') and '/site-packages/' not in f.filename]
            enc = {'site': ('%s:%s' % (fr[-1].filename.replace('\\', '/').split('/kmip/', 1)[1], fr[-1].name)) if fr else None,
                   'exc': type(e).__name__, 'msg': str(e)[:160], 'detail': exc_detail(e)}
        crash = None
        if it['reason'] == 'GENERAL_FAILURE':
            crash = dict(self.cap.sites[-1]) if self.cap.sites else {'site': None, 'exc': None}
        return {'status': it['status'], 'reason': it['reason'], 'crash': crash, 'crypto': list(self.crypto_calls),
                'warned': self.cap.warnings, 'message': it['message'], 'payload': it['payload'], 'encode': enc}


# ---------------------------------------------------------------------------------------------- stores
def obj_spec(otype, state='PreActive', mask='all', names=1, asi=0, groups=0, owner='alice', how='register', empty=False, value=None):
    return {'type': otype, 'state': state, 'mask': mask, 'names': names, 'asi': asi, 'groups': groups, 'owner': owner,
            'how': how, 'empty': empty, 'value': value}


def _common_attrs(spec, k):
    a = []
    for i in range(spec['names']):
        a.append(kdrv.attr(AT.NAME, kdrv.name_value('n%d_%d' % (k, i)), i))
    for i in range(spec['asi']):
        a.append(kdrv.attr(AT.APPLICATION_SPECIFIC_INFORMATION, {'application_namespace': 'ns%d' % i, 'application_data': 'd%d' % k}, i))
    for i in range(spec['groups']):
        a.append(kdrv.attr(AT.OBJECT_GROUP, 'g%d' % i, i))
    return a


_OTHER = {}


def other_material():
    """Key material of kinds other than RSA: {name: (public DER SPKI, public PEM, private DER PKCS#8, private PEM)}."""
    if not _OTHER:
        from cryptography.hazmat.primitives.asymmetric import ed25519, ed448, x25519, x448, ec, dsa
        from cryptography.hazmat.primitives import serialization as ser
        from cryptography.hazmat.backends import default_backend
        makers = {'ed25519': ed25519.Ed25519PrivateKey.generate, 'ed448': ed448.Ed448PrivateKey.generate,
                  'x25519': x25519.X25519PrivateKey.generate, 'x448': x448.X448PrivateKey.generate,
                  'ecp256': lambda: ec.generate_private_key(ec.SECP256R1(), default_backend()),
                  'dsa': lambda: dsa.generate_private_key(1024, default_backend())}
        for name, mk in makers.items():
            try:
                k = mk()
                pub = k.public_key()
                _OTHER[name] = (pub.public_bytes(ser.Encoding.DER, ser.PublicFormat.SubjectPublicKeyInfo),
                                pub.public_bytes(ser.Encoding.PEM, ser.PublicFormat.SubjectPublicKeyInfo),
                                k.private_bytes(ser.Encoding.DER, ser.PrivateFormat.PKCS8, ser.NoEncryption()),
                                k.private_bytes(ser.Encoding.PEM, ser.PrivateFormat.PKCS8, ser.NoEncryption()))
            except Exception:
                pass        # a kind this build of the cryptography library does not offer
    return _OTHER


def _secret(otype, empty=False, value=None):
    t = OT[otype]
    rsa = rsa_material()
    if value is not None and value.startswith('other:'):
        _, kind, form = value.split(':')
        pub_der, pub_pem, priv_der, priv_pem = other_material()[kind]
        raw = {'pub_der': pub_der, 'pub_pem': pub_pem, 'priv_der': priv_der, 'priv_pem': priv_pem}[form]
        if otype == 'SYMMETRIC_KEY':
            return kdrv.symmetric_key_secret(raw, ALG.AES, 8 * len(raw))
        return kdrv.core_secret(t, cryptographic_algorithm=ALG.RSA, cryptographic_length=1024,
                                key_format_type=(KFT.X_509 if otype == 'PUBLIC_KEY' else KFT.PKCS_8), key_value=raw, key_wrapping_data=None)
    if value is not None:
        raw = {'rsa_pub': rsa['pub'], 'rsa_priv': rsa['priv'], 'small_priv': SMALL_RSA_PRIV}[value]
        if otype == 'SYMMETRIC_KEY':        # a "symmetric key" whose bytes are an RSA key: lets Encrypt/Decrypt reach the asymmetric paths
            return kdrv.symmetric_key_secret(raw, ALG.AES, 8 * len(raw))
        return kdrv.core_secret(t, cryptographic_algorithm=ALG.RSA, cryptographic_length=512 if value == 'small_priv' else 1024,
                                key_format_type=KFT.PKCS_1, key_value=raw, key_wrapping_data=None)
    if empty:
        if otype == 'SECRET_DATA':
            return kdrv.core_secret(t, key_format_type=KFT.OPAQUE, key_value=b'', secret_data_type=enums.SecretDataType.PASSWORD)
        if otype == 'OPAQUE_DATA':
            return kdrv.core_secret(t, opaque_data_type=enums.OpaqueDataType.NONE, opaque_data_value=b'')
        if otype == 'CERTIFICATE':
            return kdrv.core_secret(t, certificate_type=enums.CertificateType.X_509, certificate_value=b'')
    if otype == 'PUBLIC_KEY':
        return kdrv.core_secret(t, cryptographic_algorithm=ALG.RSA, cryptographic_length=1024, key_format_type=KFT.PKCS_1,
                                key_value=rsa['pub'], key_wrapping_data=None)
    if otype == 'PRIVATE_KEY':
        return kdrv.core_secret(t, cryptographic_algorithm=ALG.RSA, cryptographic_length=1024, key_format_type=KFT.PKCS_1,
                                key_value=rsa['priv'], key_wrapping_data=None)
    if otype == 'CERTIFICATE':
        return kdrv.core_secret(t, certificate_type=enums.CertificateType.X_509, certificate_value=b'\x30\x82\x01\x0a' + b'\x44' * 20)
    if otype == 'OPAQUE_DATA':
        return kdrv.core_secret(t, opaque_data_type=enums.OpaqueDataType.NONE, opaque_data_value=b'\x66' * 16)
    if otype == 'SECRET_DATA':
        return kdrv.core_secret(t, key_format_type=KFT.OPAQUE, key_value=b'\x55' * 16, secret_data_type=enums.SecretDataType.PASSWORD)
    return kdrv.secret_for(t)


class SetupFailed(Exception):
    pass


def _setup_step(drv, spec, k, what, item, user):
    """One request of the store set-up.  It must succeed; a GENERAL_FAILURE here is itself a violation of the property
    (every set-up request is well-formed), reported with the specs a replay has to redo."""
    drv.cap.reset()
    r = drv.eng.request([item], user=user)
    it = r['items'][0] if r['items'] else {'status': 'REQUEST_ERROR', 'reason': (r['error'] or {}).get('reason'), 'message': (r['error'] or {}).get('message')}
    if it['status'] == 'SUCCESS':
        return it
    site = drv.cap.sites[-1] if drv.cap.sites else {}
    if it['reason'] == 'GENERAL_FAILURE' and hasattr(drv.ctx, 'violation'):
        sig = {'op': item[0].name, 'site': site.get('site'), 'exc': site.get('exc'), 'detail': site.get('detail', ''), 'stage': 'store-setup'}
        drv.ctx.violation(sig, {'setup': [[sp, kk] for sp, kk in drv.setup_log], 'failing_step': what, 'version': [1, 2], 'user': user,
                                'observed': {'status': it['status'], 'reason': it['reason'], 'crash': site}},
                          'store set-up: %s of a %s answered GENERAL_FAILURE (%s)' % (what, spec['type'], site_string(site) if site else None))
    raise SetupFailed('store setup failed: %s %r -> %s %s' % (what, spec, it['reason'], it['message']))


def add_object(drv, spec, k):
    """Creates one stored object per the spec through the engine's own operations; returns its uid (string) or None."""
    drv.setup_log.append((dict(spec), k))
    eng = drv.eng
    user = spec['owner']
    mask = ALL_MASK if spec['mask'] == 'all' else []
    otype = spec['type']
    extra = _common_attrs(spec, k)
    if spec['how'] == 'create' and otype == 'SYMMETRIC_KEY':
        item = kdrv.create(ALG.AES, 128, mask, extra=extra)
    elif spec['how'] == 'create' and otype in ('PUBLIC_KEY', 'PRIVATE_KEY'):
        item = kdrv.create_key_pair(ALG.RSA, 1024, private=[kdrv.attr(AT.CRYPTOGRAPHIC_USAGE_MASK, mask)] + extra,
                                    public=[kdrv.attr(AT.CRYPTOGRAPHIC_USAGE_MASK, mask)] + _common_attrs(spec, k + 500))
    else:
        attrs = list(extra)
        if otype != 'OPAQUE_DATA' and mask:
            attrs.insert(0, kdrv.attr(AT.CRYPTOGRAPHIC_USAGE_MASK, mask))
        item = kdrv.register(OT[otype], secret=_secret(otype, spec.get('empty'), spec.get('value')), attrs=attrs)
    it = _setup_step(drv, spec, k, 'creating', item, user)
    p = it['payload']
    if item[0] == OP.CREATE_KEY_PAIR:
        uid = str(p['public_key_unique_identifier'] if otype == 'PUBLIC_KEY' else p['private_key_unique_identifier'])
    else:
        uid = str(p['unique_identifier'])
    st = spec['state']
    if otype == 'OPAQUE_DATA':
        st = 'PreActive' if st != 'Destroyed' else st
    steps = {'PreActive': [], 'Active': [kdrv.activate(uid)],
             'Deactivated': [kdrv.activate(uid), kdrv.revoke(uid, enums.RevocationReasonCode.CESSATION_OF_OPERATION)],
             'Compromised': [kdrv.revoke(uid, enums.RevocationReasonCode.KEY_COMPROMISE)],
             'Destroyed': [kdrv.destroy(uid)]}[st]
    for s in steps:
        _setup_step(drv, spec, k, s[0].name.lower(), s, user)
    return uid


def observe_store(drv, user='alice', policy_op=None):
    """Summary of every stored object (raw SQL read of the tables the engine's ORM maps; the class is the one
    KmipEngine._object_map gives for the stored object type, exactly as _get_object_type does) + whether `user` passes
    the default operation policy (owner only).  This is the `store` the Coq model receives."""
    import sqlite3
    omap = drv.eng.engine._object_map
    con = sqlite3.connect(drv.eng.path)
    con.row_factory = sqlite3.Row
    try:
        q = lambda sql: [dict(r) for r in con.execute(sql)]
        crypto = {r['uid']: r for r in q('select * from crypto_objects')}
        keys = {r['uid']: r for r in q('select uid, cryptographic_algorithm, cryptographic_length, key_format_type from keys')}
        names, asi, groups = {}, {}, {}
        for r in q('select mo_uid, name from managed_object_names order by id'):
            names.setdefault(r['mo_uid'], []).append(r['name'])
        for r in q('select m.managed_object_id u, a.application_namespace n, a.application_data d from app_specific_info_map m '
                   'join app_specific_info a on a.id = m.app_specific_info_id order by a.id'):
            asi.setdefault(r['u'], []).append('%s|%s' % (r['n'], r['d']))
        for r in q('select m.managed_object_id u, g.object_group g from object_group_map m join object_groups g on g.id = m.object_group_id order by g.id'):
            groups.setdefault(r['u'], []).append(r['g'])
        out = []
        for r in q('select * from managed_objects order by uid'):
            u = r['uid']
            cls = omap[enums.ObjectType(r['object_type'])]
            c = crypto.get(u)
            k = keys.get(u)
            en = lambda x: None if x is None or x == -1 else x
            out.append({
                'uid': int(u), 'cls': cls.__name__, 'otype': r['object_type'],
                'owner': r['owner'], 'allowed': bool(r['owner'] == user), 'state': en(c['state']) if c else None,
                'mask': (c['cryptographic_usage_mask'] or 0) if c else 0,
                'names': names.get(u, []), 'asi': asi.get(u, []), 'groups': groups.get(u, []),
                'value_empty': not bool(r['value']), 'kft': en(k['key_format_type']) if k else None,
                'alg': en(k['cryptographic_algorithm']) if k else None, 'len': k['cryptographic_length'] if k else None,
                'sensitive': bool(r['sensitive']), 'policy': r['operation_policy_name']})
        return out
    finally:
        con.close()


# ---------------------------------------------------------------------------------------------- attribute menu
def _val(name):
    """A library-constructible value for every attribute name the AttributeFactory supports."""
    D = 1600000000
    table = {
        'Unique Identifier': '1', 'Name': kdrv.name_value('n0_0'), 'Object Type': OT.SYMMETRIC_KEY,
        'Cryptographic Algorithm': ALG.AES, 'Cryptographic Length': 128,
        'Cryptographic Parameters': {'block_cipher_mode': MODE.CBC}, 'Certificate Type': enums.CertificateType.X_509,
        'Certificate Length': 10, 'Digest': None, 'Operation Policy Name': 'default', 'Cryptographic Usage Mask': [UM.ENCRYPT],
        'Lease Time': 10, 'State': ST.ACTIVE, 'Initial Date': D, 'Activation Date': D, 'Process Start Date': D,
        'Protect Stop Date': D, 'Deactivation Date': D, 'Destroy Date': D, 'Compromise Occurrence Date': D,
        'Compromise Date': D, 'Archive Date': D, 'Object Group': 'g0', 'Fresh': True,
        'Application Specific Information': {'application_namespace': 'ns0', 'application_data': 'd0'},
        'Contact Information': 'c', 'Last Change Date': D, 'Custom Attribute': 'x', 'Sensitive': True,
        'Original Creation Date': D, 'Always Sensitive': True, 'Extractable': True, 'Never Extractable': True,
    }
    return table[name]


CONSTRUCTIBLE = ['Unique Identifier', 'Name', 'Object Type', 'Cryptographic Algorithm', 'Cryptographic Length',
                 'Cryptographic Parameters', 'Certificate Type', 'Certificate Length', 'Digest', 'Operation Policy Name',
                 'Cryptographic Usage Mask', 'Lease Time', 'State', 'Initial Date', 'Activation Date', 'Process Start Date',
                 'Protect Stop Date', 'Deactivation Date', 'Destroy Date', 'Compromise Occurrence Date', 'Compromise Date',
                 'Archive Date', 'Object Group', 'Fresh', 'Application Specific Information', 'Contact Information',
                 'Last Change Date', 'Custom Attribute', 'Sensitive', 'Original Creation Date', 'Always Sensitive',
                 'Extractable', 'Never Extractable']
UNKNOWN_NAMES = ['x-custom', 'y-vendor attr']
# names that exist in the protocol but whose values kmip.core cannot construct/decode: usable wherever only the NAME travels
NAME_ONLY = ['Cryptographic Domain Parameters', 'X.509 Certificate Identifier', 'X.509 Certificate Subject',
             'X.509 Certificate Issuer', 'Certificate Identifier', 'Certificate Subject', 'Certificate Issuer',
             'Digital Signature Algorithm', 'Usage Limits', 'Revocation Reason', 'Link', 'Alternative Name',
             'Key Value Present', 'Key Value Location']
AF = attr_factory.AttributeFactory()
# KMIP 2.0 attribute kinds that exist as tags only (no rule set, no factory entry): usable in New/CurrentAttribute
TAG_ONLY = ['Comment', 'Description', 'Key Format Type', 'NIST Key Type', 'Protection Level', 'Quantum Safe', 'Short Unique Identifier',
            'PKCS#12 Friendly Name', 'Random Number Generator', 'Certificate Subject CN', 'Opaque Data Type']


def mk_attr(a):
    """a = {'name', 'index': None|int, 'val': optional override} -> kmip.core Attribute (1.x form)."""
    name = a['name']
    if name == 'Cryptographic Usage Mask' and isinstance(a.get('val'), int):
        # a raw 32-bit value, possibly with bits no CryptographicUsageMask member names
        return kdrv.raw_attr(name, cattrs.CryptographicUsageMask(a['val']), a.get('index'))
    if name in CONSTRUCTIBLE:
        v = a.get('val', _val(name))
        return AF.create_attribute(enums.AttributeType(name), v, a.get('index'))
    return kdrv.raw_attr(name, primitives.TextString(a.get('val', 'v'), enums.Tags.ATTRIBUTE_VALUE), a.get('index'))


def mk_value2(a):
    """Bare attribute value carrying its own attribute tag (KMIP 2.0 New/CurrentAttribute content)."""
    name = a['name']
    if name in TAG_ONLY:
        tag = [t for n, t in enums.attribute_name_tag_table if n == name][0]
        return primitives.TextString(a.get('val', 'v'), tag=tag)
    if name == 'Cryptographic Usage Mask' and isinstance(a.get('val'), int):
        v = cattrs.CryptographicUsageMask(a['val'])
        v.tag = enums.Tags.CRYPTOGRAPHIC_USAGE_MASK
        return v
    v = AF.create_attribute(enums.AttributeType(name), a.get('val', _val(name))).attribute_value
    v.tag = enums.Tags[enums.AttributeType(name).name]
    return v


def mk_template(t, tag=enums.Tags.TEMPLATE_ATTRIBUTE):
    if t is None:
        return None
    ta = kdrv.template([mk_attr(a) for a in t['attrs']], tag)
    if t.get('tnames'):
        ta.names = [cattrs.Name.create('tmpl', enums.NameType.UNINTERPRETED_TEXT_STRING)]
    return ta


def mk_auth(kind):
    """Request-header Authentication with one credential of each kind the protocol defines (None = no Authentication)."""
    if kind is None:
        return None
    CT = enums.CredentialType
    if kind == 'username':
        cred = cobjects.Credential(CT.USERNAME_AND_PASSWORD, cobjects.UsernamePasswordCredential(username='alice', password='pw'))
    elif kind == 'username-other':
        cred = cobjects.Credential(CT.USERNAME_AND_PASSWORD, cobjects.UsernamePasswordCredential(username='mallory'))
    elif kind == 'device':
        cred = cobjects.Credential(CT.DEVICE, cobjects.DeviceCredential(device_serial_number='serial', password='pw', device_identifier='dev',
                                                                         network_identifier='net', machine_identifier='mach', media_identifier='media'))
    elif kind == 'device-minimal':
        cred = cobjects.Credential(CT.DEVICE, cobjects.DeviceCredential(device_serial_number='serial'))
    elif kind == 'attestation':
        cred = cobjects.Credential(CT.ATTESTATION, cobjects.AttestationCredential(
            nonce=cobjects.Nonce(nonce_id=b'\x01', nonce_value=b'\x02' * 8), attestation_type=enums.AttestationType.TPM_QUOTE,
            attestation_measurement=b'\xff' * 4))
    elif kind == 'two':
        return contents.Authentication(credentials=[
            cobjects.Credential(CT.DEVICE, cobjects.DeviceCredential(device_serial_number='serial')),
            cobjects.Credential(CT.USERNAME_AND_PASSWORD, cobjects.UsernamePasswordCredential(username='alice', password='pw'))])
    else:
        raise KeyError(kind)
    return contents.Authentication(credentials=[cred])


AUTH_KINDS = ['username', 'username-other', 'device', 'device-minimal', 'attestation', 'two']


def mk_params(p):
    if p is None:
        return None
    return cattrs.CryptographicParameters(**{k: v for k, v in p.items()})


# ---------------------------------------------------------------------------------------------- abstract request -> payload
def uid_str(u):
    return None if u is None else str(u)


def mk_item(req):
    op = req['op']
    u = uid_str(req.get('uid'))
    if op == 'Create':
        return (OP.CREATE, payloads.CreateRequestPayload(object_type=OT[req['otype']], template_attribute=mk_template(req['ta'])))
    if op == 'CreateKeyPair':
        return (OP.CREATE_KEY_PAIR, payloads.CreateKeyPairRequestPayload(
            common_template_attribute=mk_template(req['common'], enums.Tags.COMMON_TEMPLATE_ATTRIBUTE),
            private_key_template_attribute=mk_template(req['private'], enums.Tags.PRIVATE_KEY_TEMPLATE_ATTRIBUTE),
            public_key_template_attribute=mk_template(req['public'], enums.Tags.PUBLIC_KEY_TEMPLATE_ATTRIBUTE)))
    if op == 'Register':
        return (OP.REGISTER, payloads.RegisterRequestPayload(object_type=OT[req['otype']], template_attribute=mk_template(req['ta']),
                                                             managed_object=mk_secret(req['secret'])))
    if op == 'DeriveKey':
        d = req['dp']
        dp = cattrs.DerivationParameters(
            cryptographic_parameters=mk_params(d.get('params')), initialization_vector=d.get('iv'),
            derivation_data=d.get('data'), salt=d.get('salt'), iteration_count=d.get('iterations'))
        return (OP.DERIVE_KEY, payloads.DeriveKeyRequestPayload(
            object_type=OT[req['otype']], unique_identifiers=[str(x) for x in req['uids']],
            derivation_method=enums.DerivationMethod[req['method']], derivation_parameters=dp,
            template_attribute=mk_template(req['ta'])))
    if op == 'Locate':
        return kdrv.locate([mk_attr(a) for a in req['attrs']], offset=req.get('offset'), maximum=req.get('maximum'),
                           storage_status_mask=req.get('ssm'))
    if op == 'Get':
        w = req.get('wrap')
        spec = None
        if w is not None:
            eki = None
            if w.get('eki') is not None:
                eki = cobjects.EncryptionKeyInformation(unique_identifier=uid_str(w['eki']['uid']),
                                                        cryptographic_parameters=mk_params(w['eki'].get('params')))
            mski = None
            if w.get('mski') is not None:
                mski = cobjects.MACSignatureKeyInformation(unique_identifier=uid_str(w['mski']['uid']),
                                                           cryptographic_parameters=mk_params(w['mski'].get('params')))
            spec = cobjects.KeyWrappingSpecification(
                wrapping_method=enums.WrappingMethod[w.get('method', 'ENCRYPT')], encryption_key_information=eki,
                mac_signature_key_information=mski, attribute_names=w.get('attr_names'),
                encoding_option=(enums.EncodingOption[w['encoding']] if w.get('encoding') else None))
        return kdrv.get(u, fmt=(KFT[req['kft']] if req.get('kft') else None),
                        compression=(enums.KeyCompressionType.EC_PUBLIC_KEY_TYPE_UNCOMPRESSED if req.get('compression') else None),
                        wrap=spec)
    if op == 'GetAttributes':
        return kdrv.get_attributes(u, req.get('names'))
    if op == 'GetAttributeList':
        return kdrv.get_attribute_list(u)
    if op == 'Activate':
        return kdrv.activate(u)
    if op == 'Revoke':
        return kdrv.revoke(u, code=(enums.RevocationReasonCode[req['code']] if req.get('code') else None),
                           message=req.get('message'), date=req.get('date'))
    if op == 'Destroy':
        return kdrv.destroy(u)
    if op == 'Query':
        return kdrv.query([enums.QueryFunction[f] for f in req['functions']])
    if op == 'DiscoverVersions':
        return kdrv.discover_versions(req.get('versions', ()))
    if op in ('Encrypt', 'Decrypt'):
        f = kdrv.encrypt if op == 'Encrypt' else kdrv.decrypt
        kw = {}
        if op == 'Decrypt' and req.get('tag') is not None:
            kw['tag'] = req['tag']
        return f(u, params=mk_params(req.get('params')), data=req.get('data', b''), iv=req.get('iv'), aad=req.get('aad'), **kw)
    if op == 'Sign':
        return kdrv.sign(u, params=mk_params(req.get('params')), data=req.get('data', b''))
    if op == 'SignatureVerify':
        return kdrv.signature_verify(u, params=mk_params(req.get('params')), data=req.get('data', b''), signature=req.get('signature', b''))
    if op == 'MAC':
        return (OP.MAC, payloads.MACRequestPayload(
            unique_identifier=(cattrs.UniqueIdentifier(u) if u is not None else None),
            cryptographic_parameters=mk_params(req.get('params')),
            data=(cobjects.Data(req['data']) if req.get('data') is not None else None)))
    if op == 'SetAttribute':
        return kdrv.set_attribute(u, mk_value2(req['attr']))
    if op == 'ModifyAttribute1':
        return kdrv.modify_attribute_v1(u, mk_attr(req['attr']))
    if op == 'ModifyAttribute2':
        cur = req.get('current')
        return kdrv.modify_attribute_v2(u, mk_value2(req['attr']), mk_value2(cur) if cur is not None else None)
    if op == 'DeleteAttribute1':
        return kdrv.delete_attribute_v1(u, req['name'], req.get('index'))
    if op == 'DeleteAttribute2':
        cur = req.get('current')
        ref = req.get('ref')
        return kdrv.delete_attribute_v2(u, mk_value2(cur) if cur is not None else None,
                                        kdrv.attr_ref2(ref) if ref is not None else None)
    raise KeyError(op)


def mk_secret(s):
    """s = {'type', 'kft'?, 'cert_type'?, 'length_ok'?, 'wrap'?: {'eki': bool, 'eki_params': bool, 'mski': bool, 'mski_params': bool}}"""
    if s is None:
        return None
    t = s['type']
    rsa = rsa_material()
    wrap = None
    if s.get('wrap') is not None:
        w = s['wrap']
        cpar = cattrs.CryptographicParameters(block_cipher_mode=MODE.NIST_KEY_WRAP)
        if w.get('ints') is not None:       # boundary integers in every numeric field of the parameters (they reach the database)
            n = w['ints']
            cpar = cattrs.CryptographicParameters(block_cipher_mode=MODE.NIST_KEY_WRAP, iv_length=n, tag_length=n, fixed_field_length=n,
                                                  invocation_field_length=n, counter_length=n, initial_counter_value=n, random_iv=False)
        eki = cobjects.EncryptionKeyInformation(unique_identifier='1', cryptographic_parameters=(cpar if w.get('eki_params') else None)) if w.get('eki') else None
        mski = cobjects.MACSignatureKeyInformation(unique_identifier='1', cryptographic_parameters=(cpar if w.get('mski_params') else None)) if w.get('mski') else None
        wrap = cobjects.KeyWrappingData(wrapping_method=enums.WrappingMethod.ENCRYPT, encryption_key_information=eki,
                                        mac_signature_key_information=mski, encoding_option=enums.EncodingOption.NO_ENCODING)
    if t in ('SYMMETRIC_KEY', 'PUBLIC_KEY', 'PRIVATE_KEY', 'SPLIT_KEY'):
        default = {'SYMMETRIC_KEY': 'RAW', 'PUBLIC_KEY': 'PKCS_1', 'PRIVATE_KEY': 'PKCS_1', 'SPLIT_KEY': 'RAW'}[t]
        fmt = KFT[s.get('kft', default)]
        if t in ('SYMMETRIC_KEY', 'SPLIT_KEY'):
            value, alg, length = b'\x0f' * 16, ALG.AES, 128
        else:
            value, alg, length = (rsa['pub'] if t == 'PUBLIC_KEY' else rsa['priv']), ALG.RSA, 1024
        if s.get('length_ok') is False:
            length += 8
        kw = dict(cryptographic_algorithm=alg, cryptographic_length=length, key_format_type=fmt, key_value=value, key_wrapping_data=None)
        if t == 'SPLIT_KEY':
            n = s.get('split_int', 3)
            kw.update(split_key_parts=n, key_part_identifier=(1 if n == 3 else n), split_key_threshold=(2 if n == 3 else n),
                      split_key_method=enums.SplitKeyMethod.XOR, prime_field_size=s.get('pfs'))
        sec = kdrv.core_secret(OT[t], **kw)
        if wrap is not None:
            sec.key_block.key_wrapping_data = wrap
        miss = s.get('missing')
        if miss in ('alg', 'both'):
            sec.key_block.cryptographic_algorithm = None
        if miss in ('len', 'both'):
            sec.key_block.cryptographic_length = None
        if miss == 'value':
            sec.key_block.key_value = None
        return sec
    if t == 'CERTIFICATE':
        return kdrv.core_secret(OT[t], certificate_type=enums.CertificateType[s.get('cert_type', 'X_509')], certificate_value=b'\x30\x82\x01' + b'\x44' * 20)
    return kdrv.secret_for(OT[t])


# ---------------------------------------------------------------------------------------------- parameter menus (the grid)
SYM_PARAMS = [
    None,
    {},
    {'cryptographic_algorithm': ALG.AES, 'block_cipher_mode': MODE.CBC, 'padding_method': PAD.PKCS5},
    {'cryptographic_algorithm': ALG.AES, 'block_cipher_mode': MODE.CBC},
    {'cryptographic_algorithm': ALG.AES, 'block_cipher_mode': MODE.ECB, 'padding_method': PAD.ANSI_X923},
    {'cryptographic_algorithm': ALG.AES, 'block_cipher_mode': MODE.CTR},
    {'cryptographic_algorithm': ALG.AES, 'block_cipher_mode': MODE.GCM, 'tag_length': 16},
    {'cryptographic_algorithm': ALG.AES, 'block_cipher_mode': MODE.GCM},
    {'cryptographic_algorithm': ALG.AES, 'block_cipher_mode': MODE.GCM, 'tag_length': 2},
    {'cryptographic_algorithm': ALG.AES, 'block_cipher_mode': MODE.CCM, 'tag_length': 16},
    {'cryptographic_algorithm': ALG.AES, 'block_cipher_mode': MODE.XTS},
    {'cryptographic_algorithm': ALG.AES},
    {'cryptographic_algorithm': ALG.AES, 'block_cipher_mode': MODE.CBC, 'padding_method': PAD.OAEP},
    {'cryptographic_algorithm': ALG.TRIPLE_DES, 'block_cipher_mode': MODE.CBC, 'padding_method': PAD.PKCS5},
    {'cryptographic_algorithm': ALG.BLOWFISH, 'block_cipher_mode': MODE.GCM, 'tag_length': 16},
    {'cryptographic_algorithm': ALG.RC4},
    {'cryptographic_algorithm': ALG.RSA, 'padding_method': PAD.OAEP, 'hashing_algorithm': HASH.SHA_256},
    {'cryptographic_algorithm': ALG.RSA, 'padding_method': PAD.PKCS1v15},
    {'cryptographic_algorithm': ALG.RSA},
    {'cryptographic_algorithm': ALG.HMAC_SHA256, 'block_cipher_mode': MODE.CBC, 'padding_method': PAD.PKCS5},
    {'cryptographic_algorithm': ALG.CAMELLIA, 'block_cipher_mode': MODE.OFB},
]
IVS = [None, b'\x01' * 16, b'\x01' * 8, b'']
SIGN_PARAMS = [
    None, {},
    {'cryptographic_algorithm': ALG.RSA, 'hashing_algorithm': HASH.SHA_256, 'padding_method': PAD.PSS},
    {'cryptographic_algorithm': ALG.RSA, 'hashing_algorithm': HASH.SHA_256, 'padding_method': PAD.PKCS1v15},
    {'cryptographic_algorithm': ALG.RSA, 'hashing_algorithm': HASH.SHA_256},
    {'cryptographic_algorithm': ALG.RSA, 'hashing_algorithm': HASH.SHA_256, 'padding_method': PAD.OAEP},
    {'cryptographic_algorithm': ALG.RSA, 'hashing_algorithm': HASH.RIPEMD_160, 'padding_method': PAD.PSS},
    {'cryptographic_algorithm': ALG.RSA, 'padding_method': PAD.PSS},
    {'cryptographic_algorithm': ALG.RSA, 'padding_method': PAD.PKCS1v15},
    {'digital_signature_algorithm': enums.DigitalSignatureAlgorithm.SHA256_WITH_RSA_ENCRYPTION, 'padding_method': PAD.PKCS1v15},
    {'digital_signature_algorithm': enums.DigitalSignatureAlgorithm.ECDSA_WITH_SHA256, 'padding_method': PAD.PSS},
    {'digital_signature_algorithm': enums.DigitalSignatureAlgorithm.SHA256_WITH_RSA_ENCRYPTION,
     'hashing_algorithm': HASH.SHA_1, 'padding_method': PAD.PSS},
    {'cryptographic_algorithm': ALG.ECDSA, 'hashing_algorithm': HASH.SHA_256, 'padding_method': PAD.PSS},
    {'cryptographic_algorithm': ALG.AES, 'hashing_algorithm': HASH.SHA_256, 'padding_method': PAD.PKCS1v15},
]
MAC_PARAMS = [None, {}, {'cryptographic_algorithm': ALG.HMAC_SHA256}, {'cryptographic_algorithm': ALG.AES},
              {'cryptographic_algorithm': ALG.RC4}, {'cryptographic_algorithm': ALG.RSA}, {'cryptographic_algorithm': ALG.HMAC_MD5}]


def tmpl(*attrs, **kw):
    return {'attrs': [({'name': a} if isinstance(a, str) else a) for a in attrs], 'tnames': kw.get('tnames', False)}


def attr_ops_menu(uid, ver, quick_names=None):
    """Set/Modify/DeleteAttribute requests for one target under one version."""
    out = []
    all_names = CONSTRUCTIBLE + UNKNOWN_NAMES
    if ver < (2, 0):
        rich = ('Name', 'Object Group', 'Application Specific Information', 'Cryptographic Parameters', 'Custom Attribute', 'Sensitive',
                'Cryptographic Usage Mask', 'x-custom')
        for n in all_names:
            for idx in ((None, 0, 1, 2, 5, -1) if n in rich else (None, 1)):
                out.append({'op': 'ModifyAttribute1', 'uid': uid, 'attr': {'name': n, 'index': idx}})
        for n in all_names + NAME_ONLY:
            for idx in ((None, 0, 1, 2, 5, -1) if n in rich else (None, 1)):
                out.append({'op': 'DeleteAttribute1', 'uid': uid, 'name': n, 'index': idx})
    else:
        for n in CONSTRUCTIBLE:
            out.append({'op': 'SetAttribute', 'uid': uid, 'attr': {'name': n}})
            out.append({'op': 'ModifyAttribute2', 'uid': uid, 'attr': {'name': n}, 'current': None})
            out.append({'op': 'ModifyAttribute2', 'uid': uid, 'attr': {'name': n}, 'current': {'name': n}})
            if n in ('Name', 'Object Group', 'Application Specific Information', 'Sensitive'):
                out.append({'op': 'ModifyAttribute2', 'uid': uid, 'attr': {'name': n}, 'current': {'name': n, 'val': _other(n)}})
            out.append({'op': 'DeleteAttribute2', 'uid': uid, 'current': {'name': n}, 'ref': None})
        for n in all_names + NAME_ONLY:
            out.append({'op': 'DeleteAttribute2', 'uid': uid, 'current': None, 'ref': n})
        out.append({'op': 'DeleteAttribute2', 'uid': uid, 'current': None, 'ref': None})
    return out


def _other(n):
    return {'Name': kdrv.name_value('absent-name'), 'Object Group': 'absent-group',
            'Application Specific Information': {'application_namespace': 'zz', 'application_data': 'zz'}, 'Sensitive': False}[n]


def target_menu(uid, ver, wrap_uids=()):
    """Every operation that addresses one object, with its parameter menu."""
    out = []
    out += [{'op': 'Get', 'uid': uid}, {'op': 'Get', 'uid': uid, 'kft': 'RAW'}, {'op': 'Get', 'uid': uid, 'kft': 'PKCS_1'},
            {'op': 'Get', 'uid': uid, 'compression': True}]
    for wk in wrap_uids:
        for par in (None, {'block_cipher_mode': MODE.NIST_KEY_WRAP}, {'block_cipher_mode': MODE.CBC}, {}):
            out.append({'op': 'Get', 'uid': uid, 'wrap': {'eki': {'uid': wk, 'params': par}, 'encoding': 'NO_ENCODING'}})
        out.append({'op': 'Get', 'uid': uid, 'wrap': {'eki': {'uid': wk, 'params': {'block_cipher_mode': MODE.NIST_KEY_WRAP}}, 'encoding': 'TTLV_ENCODING'}})
        out.append({'op': 'Get', 'uid': uid, 'wrap': {'eki': {'uid': wk, 'params': {'block_cipher_mode': MODE.NIST_KEY_WRAP}}}})
        out.append({'op': 'Get', 'uid': uid, 'wrap': {'eki': {'uid': wk, 'params': None}, 'encoding': 'NO_ENCODING', 'attr_names': ['Name']}})
        out.append({'op': 'Get', 'uid': uid, 'wrap': {'eki': {'uid': wk, 'params': None}, 'method': 'MAC_SIGN', 'encoding': 'NO_ENCODING'}})
        out.append({'op': 'Get', 'uid': uid, 'wrap': {'mski': {'uid': wk, 'params': None}, 'encoding': 'NO_ENCODING'}})
    out.append({'op': 'Get', 'uid': uid, 'wrap': {'encoding': 'NO_ENCODING'}})
    out += [{'op': 'GetAttributes', 'uid': uid, 'names': None}, {'op': 'GetAttributes', 'uid': uid, 'names': ['Name', 'State']},
            {'op': 'GetAttributes', 'uid': uid, 'names': CONSTRUCTIBLE + NAME_ONLY + UNKNOWN_NAMES},
            {'op': 'GetAttributes', 'uid': uid, 'names': ['x-custom']}, {'op': 'GetAttributes', 'uid': uid, 'names': ['Certificate Type', 'Link']},
            {'op': 'GetAttributes', 'uid': uid, 'names': ['Object Group', 'Application Specific Information', 'Contact Information']},
            {'op': 'GetAttributes', 'uid': uid, 'names': ['Sensitive']}, {'op': 'GetAttributes', 'uid': uid, 'names': ['Operation Policy Name']},
            {'op': 'GetAttributeList', 'uid': uid}]
    for k, p in enumerate(SYM_PARAMS):
        for iv in (IVS if k in (2, 5, 6, 13) else [None]):
            for data in (b'', b'\x07' * 16, b'\x07' * 5):
                out.append({'op': 'Encrypt', 'uid': uid, 'params': p, 'iv': iv, 'data': data})
                out.append({'op': 'Decrypt', 'uid': uid, 'params': p, 'iv': iv, 'data': data})
    out.append({'op': 'Encrypt', 'uid': uid, 'params': SYM_PARAMS[2], 'iv': None, 'data': b'abc', 'aad': b'aad'})
    out.append({'op': 'Encrypt', 'uid': uid, 'params': SYM_PARAMS[6], 'iv': b'\x01' * 12, 'data': b'abc', 'aad': b'aad'})
    out.append({'op': 'Decrypt', 'uid': uid, 'params': SYM_PARAMS[6], 'iv': b'\x01' * 12, 'data': b'abc', 'aad': b'aad', 'tag': b'\x00' * 16})
    out.append({'op': 'Decrypt', 'uid': uid, 'params': SYM_PARAMS[6], 'iv': b'\x01' * 12, 'data': b'abc', 'tag': b'\x00' * 2})
    for p in SIGN_PARAMS:
        out.append({'op': 'Sign', 'uid': uid, 'params': p, 'data': b'msg'})
        out.append({'op': 'SignatureVerify', 'uid': uid, 'params': p, 'data': b'msg', 'signature': b'\x01' * 128})
        out.append({'op': 'SignatureVerify', 'uid': uid, 'params': p, 'data': b'msg', 'signature': b''})
    for p in MAC_PARAMS:
        for data in (b'data', b'', None):
            out.append({'op': 'MAC', 'uid': uid, 'params': p, 'data': data})
    out += attr_ops_menu(uid, ver)
    # state-changing operations last (the driver re-creates the target when a cell changed it)
    out += [{'op': 'Activate', 'uid': uid},
            {'op': 'Revoke', 'uid': uid, 'code': 'KEY_COMPROMISE'}, {'op': 'Revoke', 'uid': uid, 'code': 'CESSATION_OF_OPERATION'},
            {'op': 'Revoke', 'uid': uid, 'code': 'KEY_COMPROMISE', 'message': 'm', 'date': 1500000000},
            {'op': 'Revoke', 'uid': uid, 'code': None},
            {'op': 'Destroy', 'uid': uid}]
    return out


DERIVE_TA = tmpl('Cryptographic Algorithm', 'Cryptographic Length', 'Cryptographic Usage Mask')


def derive_menu(uids):
    out = []
    hp = {'hashing_algorithm': HASH.SHA_256}
    for u in uids:
        for method, dp in [('HASH', {'params': hp}), ('HASH', {'params': hp, 'data': b'dd'}), ('HASH', {'params': None}), ('HASH', {'params': {}}),
                           ('HMAC', {'params': hp, 'data': b'dd', 'salt': b'ss'}), ('HMAC', {'params': {'hashing_algorithm': HASH.MD2}}),
                           ('PBKDF2', {'params': hp, 'salt': b'salt', 'iterations': 10}), ('PBKDF2', {'params': hp}),
                           ('PBKDF2', {'params': hp, 'salt': b'salt', 'iterations': 0}),
                           ('NIST800_108_C', {'params': hp, 'data': b'dd'}), ('NIST800_108_C', {'params': hp}),
                           ('ENCRYPT', {'params': {'cryptographic_algorithm': ALG.AES, 'block_cipher_mode': MODE.CBC, 'padding_method': PAD.PKCS5}, 'data': b'\x01' * 16, 'iv': b'\x02' * 16}),
                           ('ENCRYPT', {'params': {'cryptographic_algorithm': ALG.AES, 'block_cipher_mode': MODE.CBC, 'padding_method': PAD.PKCS5}, 'data': b'\x01' * 16}),
                           ('ENCRYPT', {'params': {'cryptographic_algorithm': ALG.AES, 'block_cipher_mode': MODE.CBC, 'padding_method': PAD.PKCS5}}),
                           ('ENCRYPT', {'params': hp, 'data': b'\x01' * 16}),
                           ('ASYMMETRIC_KEY', {'params': hp})]:
            for otype in ('SYMMETRIC_KEY', 'SECRET_DATA'):
                out.append({'op': 'DeriveKey', 'otype': otype, 'uids': [u], 'method': method, 'dp': dp, 'ta': DERIVE_TA})
        out.append({'op': 'DeriveKey', 'otype': 'SYMMETRIC_KEY', 'uids': [u], 'method': 'HASH', 'dp': {'params': hp}, 'ta': None})
        out.append({'op': 'DeriveKey', 'otype': 'SYMMETRIC_KEY', 'uids': [u], 'method': 'HASH', 'dp': {'params': hp},
                    'ta': tmpl('Cryptographic Algorithm', {'name': 'Cryptographic Length', 'val': 100}, 'Cryptographic Usage Mask')})
        out.append({'op': 'DeriveKey', 'otype': 'SYMMETRIC_KEY', 'uids': [u], 'method': 'HMAC', 'dp': {'params': hp},
                    'ta': tmpl('Cryptographic Algorithm', {'name': 'Cryptographic Length', 'val': 80000}, 'Cryptographic Usage Mask')})
        out.append({'op': 'DeriveKey', 'otype': 'SYMMETRIC_KEY', 'uids': [u], 'method': 'HASH', 'dp': {'params': hp},
                    'ta': tmpl('Cryptographic Algorithm', {'name': 'Cryptographic Length', 'val': 1024}, 'Cryptographic Usage Mask')})
        out.append({'op': 'DeriveKey', 'otype': 'SYMMETRIC_KEY', 'uids': [u], 'method': 'HASH', 'dp': {'params': hp},
                    'ta': tmpl('Cryptographic Length', 'Cryptographic Usage Mask')})
        out.append({'op': 'DeriveKey', 'otype': 'SYMMETRIC_KEY', 'uids': [u], 'method': 'HASH', 'dp': {'params': hp},
                    'ta': tmpl('Cryptographic Algorithm', 'Cryptographic Length', 'Cryptographic Usage Mask', 'x-custom')})
        out.append({'op': 'DeriveKey', 'otype': 'SYMMETRIC_KEY', 'uids': [u], 'method': 'HASH', 'dp': {'params': hp},
                    'ta': tmpl('Cryptographic Algorithm', 'Cryptographic Length', 'Cryptographic Usage Mask', 'State')})
        out.append({'op': 'DeriveKey', 'otype': 'PUBLIC_KEY', 'uids': [u], 'method': 'HASH', 'dp': {'params': hp}, 'ta': DERIVE_TA})
        out.append({'op': 'DeriveKey', 'otype': 'SECRET_DATA', 'uids': [u], 'method': 'HASH', 'dp': {'params': hp},
                    'ta': tmpl('Cryptographic Length', 'Cryptographic Usage Mask')})
        out.append({'op': 'DeriveKey', 'otype': 'SECRET_DATA', 'uids': [u], 'method': 'HASH', 'dp': {'params': hp},
                    'ta': tmpl('Cryptographic Usage Mask')})
    for a, b in itertools.islice(itertools.permutations(uids, 2), 12):
        out.append({'op': 'DeriveKey', 'otype': 'SYMMETRIC_KEY', 'uids': [a, b], 'method': 'HMAC', 'dp': {'params': hp}, 'ta': DERIVE_TA})
    return out


def global_menu(ver):
    """Operations that do not address one stored object."""
    out = []
    A, L, M = 'Cryptographic Algorithm', 'Cryptographic Length', 'Cryptographic Usage Mask'
    for otype in ('SYMMETRIC_KEY', 'PUBLIC_KEY', 'SECRET_DATA', 'CERTIFICATE'):
        out.append({'op': 'Create', 'otype': otype, 'ta': tmpl(A, L, M)})
    for ta in [None, tmpl(), tmpl(A, L), tmpl(A, M), tmpl(L, M), tmpl(A, L, M, tnames=True), tmpl(A, L, M, 'x-custom'),
               tmpl(A, L, M, 'Sensitive'), tmpl(A, L, M, 'State'), tmpl(A, L, M, 'Certificate Type'), tmpl(A, L, M, A),
               tmpl(A, L, M, {'name': 'Name', 'index': 0}, {'name': 'Name', 'index': None}),
               tmpl(A, L, M, {'name': 'Name', 'index': 0}, {'name': 'Name', 'index': 1}),
               tmpl(A, L, M, {'name': 'Name', 'index': 0}, {'name': 'Name', 'index': 1, 'val': kdrv.name_value('second')}),
               tmpl(A, {'name': L, 'index': 1}, M), tmpl(A, {'name': L, 'index': 0}, M),
               tmpl({'name': A, 'val': ALG.RSA}, L, M), tmpl({'name': A, 'val': ALG.HMAC_SHA256}, L, M),
               tmpl(A, {'name': L, 'val': 100}, M), tmpl(A, {'name': L, 'val': 0}, M), tmpl({'name': A, 'val': ALG.TRIPLE_DES}, {'name': L, 'val': 192}, M),
               tmpl(A, L, M, 'Object Group', 'Application Specific Information', 'Contact Information'),
               tmpl(A, L, M, 'Cryptographic Parameters'), tmpl(A, L, M, 'Digest'), tmpl(A, L, M, 'Operation Policy Name'),
               tmpl(A, L, M, 'Activation Date'), tmpl(A, L, M, 'Custom Attribute'), tmpl(A, L, M, 'Fresh'), tmpl(A, L, M, 'Always Sensitive')]:
        out.append({'op': 'Create', 'otype': 'SYMMETRIC_KEY', 'ta': ta})
    R = {'name': A, 'val': ALG.RSA}
    L1 = {'name': L, 'val': 1024}
    for common, priv, pub in [(tmpl(R, L1), tmpl(M), tmpl(M)), (None, None, None), (tmpl(R, L1), None, None), (tmpl(R, L1), tmpl(M), None),
                              (tmpl(R), tmpl(M), tmpl(M)), (tmpl(L1), tmpl(M), tmpl(M)), (None, tmpl(R, L1, M), tmpl(R, L1, M)),
                              (None, tmpl(R, L1, M), tmpl(A, L1, M)), (None, tmpl(R, L1, M), tmpl(R, {'name': L, 'val': 2048}, M)),
                              (tmpl(A, L), tmpl(M), tmpl(M)), (tmpl(R, {'name': L, 'val': 100}), tmpl(M), tmpl(M)),
                              (tmpl(R, L1, tnames=True), tmpl(M), tmpl(M)), (tmpl(R, L1, 'x-custom'), tmpl(M), tmpl(M)),
                              (tmpl(R, L1, 'Sensitive'), tmpl(M), tmpl(M)), (tmpl(R, L1, 'Certificate Type'), tmpl(M), tmpl(M)),
                              (tmpl({'name': A, 'val': ALG.ECDSA}, {'name': L, 'val': 256}), tmpl(M), tmpl(M)),
                              (tmpl(R, L1, 'Name'), tmpl(M, 'Name'), tmpl(M))]:
        out.append({'op': 'CreateKeyPair', 'common': common, 'private': priv, 'public': pub})
    for t in TYPE_NAMES:
        out.append({'op': 'Register', 'otype': t, 'secret': {'type': t}, 'ta': tmpl()})
        out.append({'op': 'Register', 'otype': t, 'secret': {'type': t}, 'ta': None})
        out.append({'op': 'Register', 'otype': t, 'secret': None, 'ta': tmpl()})
        for extra in ('Name', 'x-custom', 'Sensitive', 'State', M, A, 'Certificate Type', 'Object Group', 'Cryptographic Parameters'):
            out.append({'op': 'Register', 'otype': t, 'secret': {'type': t}, 'ta': tmpl(extra)})
        out.append({'op': 'Register', 'otype': t, 'secret': {'type': t}, 'ta': tmpl('Name', tnames=True)})
    for t in ('SYMMETRIC_KEY', 'PUBLIC_KEY', 'PRIVATE_KEY', 'SPLIT_KEY'):
        for kft in ('RAW', 'OPAQUE', 'PKCS_1', 'PKCS_8', 'X_509', 'TRANSPARENT_SYMMETRIC_KEY', 'EC_PRIVATE_KEY'):
            out.append({'op': 'Register', 'otype': t, 'secret': {'type': t, 'kft': kft}, 'ta': tmpl()})
        out.append({'op': 'Register', 'otype': t, 'secret': {'type': t, 'length_ok': False}, 'ta': tmpl()})
        for w in ({'eki': True, 'eki_params': True}, {'eki': True, 'eki_params': False}, {'mski': True, 'mski_params': True},
                  {'mski': True, 'mski_params': False}, {'eki': True, 'eki_params': True, 'mski': True, 'mski_params': False}, {}):
            out.append({'op': 'Register', 'otype': t, 'secret': {'type': t, 'wrap': w}, 'ta': tmpl()})
            out.append({'op': 'Register', 'otype': t, 'secret': {'type': t, 'wrap': w, 'length_ok': False}, 'ta': tmpl()})
    # optional parts of the nested structures left out; boundary integers in the numeric fields that reach the database
    for t in ('SYMMETRIC_KEY', 'PUBLIC_KEY', 'PRIVATE_KEY', 'SPLIT_KEY'):
        for miss in ('alg', 'len', 'both', 'value'):
            out.append({'op': 'Register', 'otype': t, 'secret': {'type': t, 'missing': miss}, 'ta': tmpl()})
            out.append({'op': 'Register', 'otype': t, 'secret': {'type': t, 'missing': miss}, 'ta': tmpl('Name', 'Cryptographic Usage Mask')})
        for n in (0, 1, -1, 2 ** 31 - 1, -2 ** 31):
            out.append({'op': 'Register', 'otype': t, 'secret': {'type': t, 'wrap': {'eki': True, 'eki_params': True, 'ints': n}}, 'ta': tmpl()})
    for pfs in (0, 1, -1, 104729, 2 ** 31, 2 ** 63 - 1, 2 ** 63, 2 ** 64, -2 ** 63, -2 ** 63 - 1, 2 ** 200, -2 ** 200):
        out.append({'op': 'Register', 'otype': 'SPLIT_KEY', 'secret': {'type': 'SPLIT_KEY', 'pfs': pfs}, 'ta': tmpl()})
    for pfs in (2 ** 63, -2 ** 63 - 1):
        out.append({'op': 'Register', 'otype': 'SPLIT_KEY', 'secret': {'type': 'SPLIT_KEY', 'pfs': pfs}, 'ta': tmpl('Name', 'x-custom')})
        out.append({'op': 'Register', 'otype': 'SPLIT_KEY', 'secret': {'type': 'SPLIT_KEY', 'pfs': pfs}, 'ta': tmpl('Name', 'State')})
        out.append({'op': 'Register', 'otype': 'SPLIT_KEY', 'secret': {'type': 'SPLIT_KEY', 'pfs': pfs, 'kft': 'OPAQUE'}, 'ta': tmpl('Name')})
    for n in (0, 1, -1, 2 ** 31 - 1, -2 ** 31):
        out.append({'op': 'Register', 'otype': 'SPLIT_KEY', 'secret': {'type': 'SPLIT_KEY', 'split_int': n}, 'ta': tmpl()})
    out.append({'op': 'Register', 'otype': 'CERTIFICATE', 'secret': {'type': 'CERTIFICATE', 'cert_type': 'PGP'}, 'ta': tmpl()})
    out.append({'op': 'Register', 'otype': 'SYMMETRIC_KEY', 'secret': {'type': 'SECRET_DATA'}, 'ta': tmpl()})
    out.append({'op': 'Register', 'otype': 'TEMPLATE', 'secret': {'type': 'SECRET_DATA'}, 'ta': tmpl()})
    out.append({'op': 'Register', 'otype': 'PGP_KEY', 'secret': {'type': 'SECRET_DATA'}, 'ta': tmpl()})
    for fs in (['QUERY_OPERATIONS', 'QUERY_OBJECTS'], ['QUERY_OBJECTS'], ['QUERY_SERVER_INFORMATION', 'QUERY_EXTENSION_LIST', 'QUERY_EXTENSION_MAP',
                                                            'QUERY_APPLICATION_NAMESPACES']):
        out.append({'op': 'Query', 'functions': fs})
    for vs in ((), ((1, 0), (2, 0)), ((9, 9),)):
        out.append({'op': 'DiscoverVersions', 'versions': vs})
    return out


def locate_menu():
    out = [{'op': 'Locate', 'attrs': []}]
    for n in CONSTRUCTIBLE + UNKNOWN_NAMES:
        out.append({'op': 'Locate', 'attrs': [{'name': n}]})
    for n in ('Name', 'State', 'Object Type', 'Cryptographic Usage Mask', 'Sensitive', 'Object Group'):
        out.append({'op': 'Locate', 'attrs': [{'name': n, 'val': _other_loc(n)}]})
    D = 1600000000
    out += [{'op': 'Locate', 'attrs': [{'name': 'Initial Date', 'val': D - 10}, {'name': 'Initial Date', 'val': D + 10}]},
            {'op': 'Locate', 'attrs': [{'name': 'Initial Date'}] * 3},
            {'op': 'Locate', 'attrs': [{'name': 'Object Type', 'val': OT.CERTIFICATE}, {'name': 'Cryptographic Algorithm'}]},
            {'op': 'Locate', 'attrs': [{'name': 'Object Type', 'val': OT.SYMMETRIC_KEY}, {'name': 'Cryptographic Algorithm'}]},
            {'op': 'Locate', 'attrs': [{'name': 'Certificate Type'}, {'name': 'Cryptographic Length'}]},
            {'op': 'Locate', 'attrs': [{'name': 'State'}, {'name': 'x-custom'}]},
            {'op': 'Locate', 'attrs': [{'name': 'x-custom'}, {'name': 'State'}]},
            {'op': 'Locate', 'attrs': [], 'offset': 1, 'maximum': 2}, {'op': 'Locate', 'attrs': [], 'offset': 100},
            {'op': 'Locate', 'attrs': [], 'maximum': 0}]
    return out


def enum_sweep_menu(sym, priv, pub):
    """Every member of every enumeration-typed cryptographic parameter, one parameter at a time around a valid base, on the
    targets whose guards let the request through to the crypto engine (active symmetric / private / public key, all mask
    bits); plus the full product RC4 x block cipher mode x padding method."""
    out = []
    pads = [None] + list(PAD)
    aes = {'cryptographic_algorithm': ALG.AES, 'block_cipher_mode': MODE.CBC, 'padding_method': PAD.PKCS5}
    for op in ('Encrypt', 'Decrypt'):
        for a in ALG:
            out.append({'op': op, 'uid': sym, 'params': dict(aes, cryptographic_algorithm=a), 'iv': None, 'data': b'\x07' * 16})
        for m in MODE:
            for iv in (None, b'\x01' * 16, b'\x01' * 12):
                out.append({'op': op, 'uid': sym, 'params': dict(aes, block_cipher_mode=m, tag_length=16), 'iv': iv, 'data': b'\x07' * 16,
                            'tag': (b'\x00' * 16 if op == 'Decrypt' else None)})
        for pd in pads:
            out.append({'op': op, 'uid': sym, 'params': dict(aes, padding_method=pd), 'iv': b'\x01' * 16, 'data': b'\x07' * 16})
            out.append({'op': op, 'uid': sym, 'params': dict(aes, block_cipher_mode=MODE.ECB, padding_method=pd), 'iv': None, 'data': b'\x07' * 5})
        for m in [None] + list(MODE):
            for pd in pads:
                out.append({'op': op, 'uid': sym, 'params': {'cryptographic_algorithm': ALG.RC4, 'block_cipher_mode': m, 'padding_method': pd,
                                                             'tag_length': (16 if m == MODE.GCM else None)},
                            'iv': None, 'data': b'abc', 'tag': (b'\x00' * 16 if op == 'Decrypt' and m == MODE.GCM else None)})
        for h in HASH:
            out.append({'op': op, 'uid': sym, 'params': {'cryptographic_algorithm': ALG.RSA, 'padding_method': PAD.OAEP, 'hashing_algorithm': h},
                        'iv': None, 'data': b'abc'})
    for a in ALG:
        out.append({'op': 'MAC', 'uid': sym, 'params': {'cryptographic_algorithm': a}, 'data': b'data'})
    rsa = {'cryptographic_algorithm': ALG.RSA, 'hashing_algorithm': HASH.SHA_256, 'padding_method': PAD.PSS}
    for op, u, extra in (('Sign', priv, {}), ('SignatureVerify', pub, {'signature': b'\x01' * 128})):
        for d in enums.DigitalSignatureAlgorithm:
            for pd in (PAD.PSS, PAD.PKCS1v15, None):
                out.append(dict({'op': op, 'uid': u, 'params': {'digital_signature_algorithm': d, 'padding_method': pd}, 'data': b'msg'}, **extra))
            out.append(dict({'op': op, 'uid': u, 'params': dict(rsa, digital_signature_algorithm=d), 'data': b'msg'}, **extra))
        for h in HASH:
            for pd in (PAD.PSS, PAD.PKCS1v15):
                out.append(dict({'op': op, 'uid': u, 'params': dict(rsa, hashing_algorithm=h, padding_method=pd), 'data': b'msg'}, **extra))
        for pd in pads:
            out.append(dict({'op': op, 'uid': u, 'params': dict(rsa, padding_method=pd), 'data': b'msg'}, **extra))
        for a in ALG:
            out.append(dict({'op': op, 'uid': u, 'params': dict(rsa, cryptographic_algorithm=a), 'data': b'msg'}, **extra))
    hp = {'hashing_algorithm': HASH.SHA_256}
    for meth in enums.DerivationMethod:
        for dp in ({'params': hp}, {'params': hp, 'data': b'dd', 'salt': b'ss', 'iterations': 3},
                   {'params': dict(aes), 'data': b'\x01' * 16, 'iv': b'\x02' * 16}):
            out.append({'op': 'DeriveKey', 'otype': 'SYMMETRIC_KEY', 'uids': [sym], 'method': meth.name, 'dp': dp, 'ta': DERIVE_TA})
    for h in HASH:
        for meth, dp in (('HASH', {}), ('HMAC', {'data': b'dd', 'salt': b'ss'}), ('PBKDF2', {'salt': b'ss', 'iterations': 3}),
                         ('NIST800_108_C', {'data': b'dd'})):
            out.append({'op': 'DeriveKey', 'otype': 'SYMMETRIC_KEY', 'uids': [sym], 'method': meth,
                        'dp': dict(dp, params={'hashing_algorithm': h}), 'ta': DERIVE_TA})
    for a in ALG:
        for m in (MODE.CBC, MODE.ECB, MODE.CTR, None):
            out.append({'op': 'DeriveKey', 'otype': 'SYMMETRIC_KEY', 'uids': [sym], 'method': 'ENCRYPT',
                        'dp': {'params': {'cryptographic_algorithm': a, 'block_cipher_mode': m, 'padding_method': PAD.PKCS5}, 'data': b'\x01' * 16,
                               'iv': (b'\x02' * 16 if m == MODE.CBC else None)}, 'ta': DERIVE_TA})
    A, L, M = 'Cryptographic Algorithm', 'Cryptographic Length', 'Cryptographic Usage Mask'
    for a in ALG:
        for n in (128, 192, 0, -8, 2 ** 31 - 1):
            out.append({'op': 'Create', 'otype': 'SYMMETRIC_KEY', 'ta': tmpl({'name': A, 'val': a}, {'name': L, 'val': n}, M)})
        for n in (512, 0, 1, -1, 2 ** 31 - 1):
            out.append({'op': 'CreateKeyPair', 'common': tmpl({'name': A, 'val': a}, {'name': L, 'val': n}), 'private': tmpl(M), 'public': tmpl(M)})
    return out


# values of a bit-mask field outside the named members: each unnamed bit alone, every bit, none, the sign bit, named + unnamed
NAMED_MASK = 0
for _m in UM:
    NAMED_MASK |= _m.value
MASK_VALUES = [0, NAMED_MASK, 0x7fffffff, -2 ** 31, -1, UM.ENCRYPT.value | 0x01000000, UM.SIGN.value | 0x40000000, NAMED_MASK | 0x02000000] + \
              [1 << b for b in range(31) if not (NAMED_MASK >> b) & 1] + [UM.ENCRYPT.value, UM.EXPORT.value | UM.ENCRYPT.value]


def mask_menu(uid, ver):
    """Bit-mask and integer valued request fields with values outside the named members / usual range."""
    out = []
    M = 'Cryptographic Usage Mask'
    A, L = 'Cryptographic Algorithm', 'Cryptographic Length'
    for v in MASK_VALUES:
        out.append({'op': 'Locate', 'attrs': [{'name': M, 'val': v}]})
        out.append({'op': 'Locate', 'attrs': [{'name': 'Object Type', 'val': OT.SYMMETRIC_KEY}, {'name': M, 'val': v}, {'name': 'State'}]})
        out.append({'op': 'Create', 'otype': 'SYMMETRIC_KEY', 'ta': tmpl(A, L, {'name': M, 'val': v})})
        out.append({'op': 'Register', 'otype': 'SECRET_DATA', 'secret': {'type': 'SECRET_DATA'}, 'ta': tmpl({'name': M, 'val': v})})
        out.append({'op': 'Register', 'otype': 'OPAQUE_DATA', 'secret': {'type': 'OPAQUE_DATA'}, 'ta': tmpl({'name': M, 'val': v})})
        if uid is not None:
            out.append({'op': 'DeriveKey', 'otype': 'SYMMETRIC_KEY', 'uids': [uid], 'method': 'HASH', 'dp': {'params': {'hashing_algorithm': HASH.SHA_256}},
                        'ta': tmpl(A, L, {'name': M, 'val': v})})
            if ver < (2, 0):
                out.append({'op': 'ModifyAttribute1', 'uid': uid, 'attr': {'name': M, 'index': None, 'val': v}})
            else:
                out.append({'op': 'SetAttribute', 'uid': uid, 'attr': {'name': M, 'val': v}})
                out.append({'op': 'ModifyAttribute2', 'uid': uid, 'attr': {'name': M, 'val': v}, 'current': {'name': M, 'val': v}})
                out.append({'op': 'DeleteAttribute2', 'uid': uid, 'current': {'name': M, 'val': v}, 'ref': None})
    for v in MASK_VALUES[:8]:
        out.append({'op': 'CreateKeyPair', 'common': tmpl({'name': A, 'val': ALG.RSA}, {'name': L, 'val': 512}), 'private': tmpl({'name': M, 'val': v}),
                    'public': tmpl({'name': M, 'val': v})})
    for off, mx in [(-1, None), (0, 0), (2 ** 31 - 1, None), (None, -1), (None, 2 ** 31 - 1), (-2 ** 31, -2 ** 31), (1, 2 ** 31 - 1), (5, -3)]:
        out.append({'op': 'Locate', 'attrs': [], 'offset': off, 'maximum': mx})
        out.append({'op': 'Locate', 'attrs': [{'name': 'Object Type', 'val': OT.SYMMETRIC_KEY}], 'offset': off, 'maximum': mx})
    for ssm in (0, 1, 2, 3, 4, 7, 8, 0x7fffffff, -1, -2 ** 31):
        try:        # the request payload itself refuses values that are not StorageStatusMask combinations: those cannot arrive
            payloads.LocateRequestPayload(storage_status_mask=ssm)
        except (TypeError, ValueError):
            continue
        out.append({'op': 'Locate', 'attrs': [], 'ssm': ssm})
        out.append({'op': 'Locate', 'attrs': [{'name': 'State'}], 'ssm': ssm})
    return out


def asym_menu(sym_pub, sym_priv, small_priv, priv, pub, rng):
    """Data / cipher text / signature lengths around every capacity limit of the asymmetric paths (k = 128 bytes for the
    1024-bit key; k-11 PKCS1v15, k-2h-2 OAEP for each hash), random and valid content."""
    out = []
    k = 128
    lens = sorted({0, 1, k - 12, k - 11, k - 10, k - 1, k, k + 1, 2 * k, 500} | {k - 2 * h - 2 + d for h in (16, 20, 28, 32, 48, 64) for d in (-1, 0, 1) if k - 2 * h - 2 + d >= 0})
    pars = [{'cryptographic_algorithm': ALG.RSA, 'padding_method': PAD.PKCS1v15}, {'cryptographic_algorithm': ALG.RSA, 'padding_method': PAD.OAEP},
            {'cryptographic_algorithm': ALG.RSA, 'padding_method': PAD.OAEP, 'hashing_algorithm': HASH.SHA_512},
            {'cryptographic_algorithm': ALG.RSA, 'padding_method': PAD.OAEP, 'hashing_algorithm': HASH.SHA_1},
            {'cryptographic_algorithm': ALG.RSA, 'padding_method': PAD.PSS}, {'cryptographic_algorithm': ALG.RSA}]
    valid = None
    try:
        from cryptography.hazmat.primitives.asymmetric import padding as apad
        from cryptography.hazmat.primitives import serialization as ser, hashes
        from cryptography.hazmat.backends import default_backend
        pk = ser.load_der_private_key(rsa_material()['priv'], None, default_backend())
        valid = pk.public_key().encrypt(b'plain', apad.PKCS1v15())
        valid_sig = pk.sign(b'msg', apad.PKCS1v15(), hashes.SHA256())
    except Exception:
        valid_sig = None
    for u in (sym_pub, sym_priv):
        for par in pars:
            for n in lens:
                out.append({'op': 'Encrypt', 'uid': u, 'params': par, 'iv': None, 'data': b'\x07' * n})
            for n in (0, 1, k - 1, k, k + 1, 2 * k):
                out.append({'op': 'Decrypt', 'uid': u, 'params': par, 'iv': None, 'data': bytes(rng.getrandbits(8) for _ in range(n))})
                out.append({'op': 'Decrypt', 'uid': u, 'params': par, 'iv': None, 'data': b'\x00' * n})
            if valid:
                out.append({'op': 'Decrypt', 'uid': u, 'params': par, 'iv': None, 'data': valid})
                out.append({'op': 'Decrypt', 'uid': u, 'params': par, 'iv': None, 'data': valid[:-1] + bytes([valid[-1] ^ 1])})
    for u in (small_priv, priv):
        for h in HASH:
            for pd in (PAD.PSS, PAD.PKCS1v15):
                for n in (0, 3, 10000):
                    out.append({'op': 'Sign', 'uid': u, 'params': {'cryptographic_algorithm': ALG.RSA, 'hashing_algorithm': h, 'padding_method': pd},
                                'data': b'm' * n})
        for d in enums.DigitalSignatureAlgorithm:
            out.append({'op': 'Sign', 'uid': u, 'params': {'digital_signature_algorithm': d, 'padding_method': PAD.PKCS1v15}, 'data': b'msg'})
    for n in (0, 1, k - 1, k, k + 1, 2 * k):
        for par in ({'cryptographic_algorithm': ALG.RSA, 'hashing_algorithm': HASH.SHA_256, 'padding_method': PAD.PKCS1v15},
                    {'cryptographic_algorithm': ALG.RSA, 'hashing_algorithm': HASH.SHA_512, 'padding_method': PAD.PSS}):
            out.append({'op': 'SignatureVerify', 'uid': pub, 'params': par, 'data': b'msg', 'signature': bytes(rng.getrandbits(8) for _ in range(n))})
    if valid_sig:
        for sig in (valid_sig, valid_sig[:-1] + bytes([valid_sig[-1] ^ 1])):
            out.append({'op': 'SignatureVerify', 'uid': pub, 'params': {'cryptographic_algorithm': ALG.RSA, 'hashing_algorithm': HASH.SHA_256,
                                                                         'padding_method': PAD.PKCS1v15}, 'data': b'msg', 'signature': sig})
    return out


DATE_NAMES = ['Initial Date', 'Activation Date', 'Process Start Date', 'Protect Stop Date', 'Deactivation Date', 'Destroy Date',
              'Compromise Occurrence Date', 'Compromise Date', 'Archive Date', 'Last Change Date', 'Original Creation Date']
DATE_EXTREMES = [0, 1, -1, 2 ** 31 - 1, 2 ** 31, -2 ** 31, 2 ** 32, 2 ** 62, -2 ** 62, 2 ** 63 - 1, -2 ** 63, 253402300800, -62135596801]
INT_EXTREMES = [0, 1, -1, 2 ** 31 - 1, -2 ** 31]


def extreme_menu(uid, ver):
    """Every integer / date-time / interval valued request field at the extremes of its wire type."""
    out = []
    A, L, M = 'Cryptographic Algorithm', 'Cryptographic Length', 'Cryptographic Usage Mask'
    for d in DATE_EXTREMES:
        for n in DATE_NAMES:
            out.append({'op': 'Locate', 'attrs': [{'name': n, 'val': d}]})
        out.append({'op': 'Locate', 'attrs': [{'name': 'Initial Date', 'val': d}, {'name': 'Initial Date', 'val': 1600000000}]})
        out.append({'op': 'Locate', 'attrs': [{'name': 'Initial Date', 'val': 1600000000}, {'name': 'Initial Date', 'val': d}]})
        out.append({'op': 'Locate', 'attrs': [{'name': 'Initial Date', 'val': d}, {'name': 'Initial Date', 'val': max(-2 ** 63, min(2 ** 63 - 1, -d))}]})
        out.append({'op': 'Locate', 'attrs': [{'name': 'State'}, {'name': 'Initial Date', 'val': d}]})
        out.append({'op': 'Create', 'otype': 'SYMMETRIC_KEY', 'ta': tmpl(A, L, M, {'name': 'Activation Date', 'val': d})})
        out.append({'op': 'Register', 'otype': 'SECRET_DATA', 'secret': {'type': 'SECRET_DATA'}, 'ta': tmpl({'name': 'Deactivation Date', 'val': d})})
        if uid is not None:
            out.append({'op': 'Revoke', 'uid': uid, 'code': 'CESSATION_OF_OPERATION', 'date': d})
            if ver < (2, 0):
                out.append({'op': 'ModifyAttribute1', 'uid': uid, 'attr': {'name': 'Activation Date', 'index': None, 'val': d}})
            else:
                out.append({'op': 'SetAttribute', 'uid': uid, 'attr': {'name': 'Activation Date', 'val': d}})
                out.append({'op': 'ModifyAttribute2', 'uid': uid, 'attr': {'name': 'Deactivation Date', 'val': d}, 'current': {'name': 'Deactivation Date', 'val': d}})
    for n in INT_EXTREMES:
        for name in ('Cryptographic Length', 'Certificate Length'):
            out.append({'op': 'Locate', 'attrs': [{'name': name, 'val': n}]})
        out.append({'op': 'Locate', 'attrs': [], 'offset': n, 'maximum': n})
        if uid is not None and ver < (2, 0):
            out.append({'op': 'ModifyAttribute1', 'uid': uid, 'attr': {'name': 'Name', 'index': n}})
            out.append({'op': 'DeleteAttribute1', 'uid': uid, 'name': 'Name', 'index': n})
    for n in (0, 1, 2 ** 31, 2 ** 32 - 1):
        out.append({'op': 'Locate', 'attrs': [{'name': 'Lease Time', 'val': n}]})
        out.append({'op': 'Create', 'otype': 'SYMMETRIC_KEY', 'ta': tmpl(A, L, M, {'name': 'Lease Time', 'val': n})})
    return out


LENGTHS = [-2 ** 31, -8, -1, 0, 1, 7, 8, 9, 127, 128, 129, 255, 256, 257, 512, 1024, 2 ** 31 - 8, 2 ** 31 - 1]


def length_menu(sym):
    """Negative / zero / non-multiple-of-8 / huge Cryptographic Length in every template that carries one."""
    out = []
    A, L, M = 'Cryptographic Algorithm', 'Cryptographic Length', 'Cryptographic Usage Mask'
    hp = {'hashing_algorithm': HASH.SHA_256}
    aes = {'cryptographic_algorithm': ALG.AES, 'block_cipher_mode': MODE.CBC, 'padding_method': PAD.PKCS5}
    for n in LENGTHS:
        for meth, dp in (('HASH', {'params': hp}), ('HMAC', {'params': hp, 'data': b'dd', 'salt': b'ss'}), ('PBKDF2', {'params': hp, 'salt': b'ss', 'iterations': 2}),
                         ('NIST800_108_C', {'params': hp, 'data': b'dd'}), ('ENCRYPT', {'params': aes, 'data': b'\x01' * 40, 'iv': b'\x02' * 16})):
            if n > 8192 and meth in ('PBKDF2', 'NIST800_108_C'):
                continue        # these really derive n/8 bytes (hundreds of megabytes): a resource question, not this property
            out.append({'op': 'DeriveKey', 'otype': 'SYMMETRIC_KEY', 'uids': [sym], 'method': meth, 'dp': dp, 'ta': tmpl(A, {'name': L, 'val': n}, M)})
            out.append({'op': 'DeriveKey', 'otype': 'SECRET_DATA', 'uids': [sym], 'method': meth, 'dp': dp, 'ta': tmpl({'name': L, 'val': n}, M)})
        for a in (ALG.AES, ALG.TRIPLE_DES, ALG.HMAC_SHA256, ALG.RC4):
            out.append({'op': 'Create', 'otype': 'SYMMETRIC_KEY', 'ta': tmpl({'name': A, 'val': a}, {'name': L, 'val': n}, M)})
        if n <= 1024:
            out.append({'op': 'CreateKeyPair', 'common': tmpl({'name': A, 'val': ALG.RSA}, {'name': L, 'val': n}), 'private': tmpl(M), 'public': tmpl(M)})
        out.append({'op': 'CreateKeyPair', 'common': tmpl({'name': A, 'val': ALG.RSA}), 'private': tmpl(M, {'name': L, 'val': n}), 'public': tmpl(M, {'name': L, 'val': 1024})})
        for t in ('SYMMETRIC_KEY', 'PRIVATE_KEY', 'SPLIT_KEY', 'SECRET_DATA', 'CERTIFICATE'):
            out.append({'op': 'Register', 'otype': t, 'secret': {'type': t}, 'ta': tmpl({'name': L, 'val': n})})
    return out


def pair_menu(uid, rng, sample):
    """KMIP 2.0 current/new attribute forms with every PAIR of attribute kinds (same kind, different kind, multivalued against
    single-valued, kinds that exist as tags only)."""
    kinds = CONSTRUCTIBLE + TAG_ONLY
    pairs = [(a, b) for a in kinds for b in kinds]
    fixed = [('Name', 'Object Group'), ('Object Group', 'Name'), ('Name', 'Application Specific Information'), ('Sensitive', 'Name'),
             ('Name', 'Sensitive'), ('Sensitive', 'Comment'), ('Comment', 'Sensitive'), ('Comment', 'Description'), ('Name', 'Cryptographic Usage Mask'),
             ('Application Specific Information', 'Object Group'), ('Cryptographic Parameters', 'Name'), ('Sensitive', 'State'), ('State', 'Sensitive')]
    if sample is not None:
        pairs = fixed + rng.sample(pairs, sample)
    out = []
    for new, cur in pairs:
        out.append({'op': 'ModifyAttribute2', 'uid': uid, 'attr': {'name': new}, 'current': {'name': cur}})
    for k in kinds:
        out.append({'op': 'ModifyAttribute2', 'uid': uid, 'attr': {'name': k}, 'current': None})
        out.append({'op': 'SetAttribute', 'uid': uid, 'attr': {'name': k}})
        out.append({'op': 'DeleteAttribute2', 'uid': uid, 'current': {'name': k}, 'ref': None})
        out.append({'op': 'DeleteAttribute2', 'uid': uid, 'current': {'name': k}, 'ref': k})
        out.append({'op': 'DeleteAttribute2', 'uid': uid, 'current': None, 'ref': k})
    return out


def _other_loc(n):
    return {'Name': kdrv.name_value('absent-name'), 'State': ST.DESTROYED, 'Object Type': OT.CERTIFICATE,
            'Cryptographic Usage Mask': [UM.EXPORT], 'Sensitive': False, 'Object Group': 'absent-group'}[n]


# ---------------------------------------------------------------------------------------------- Python -> Coq terms
HEADER = ('From Coq Require Import ZArith List String Bool.\nFrom PK Require Import NoCrash.Model NoCrash.Cases.\n'
          'Import ListNotations.\nOpen Scope string_scope.\nOpen Scope list_scope.\nOpen Scope Z_scope.\n'
          'Definition length {A} := @List.length A.\n')


def cstr(x):
    """Coq literal of an arbitrary text (the model only compares such strings for equality): non printable-ASCII escaped."""
    t = str(x)
    if all(32 <= ord(ch) < 127 for ch in t) and '\\' not in t:
        return cp.string(t)
    return cp.string('esc:' + t.encode('unicode_escape').decode('ascii'))


def c_optz(x):
    return cp.option(x, cp.z)


def c_uid(u):
    """Identifiers the model understands: canonical decimal strings; anything else cannot match a row."""
    if u is None:
        return 'None'
    s = str(u)
    if s.isdigit() and str(int(s)) == s:
        return '(Some %s)' % cp.z(int(s))
    return 'None'


def _mask_val(flags):
    m = 0
    for f in flags:
        m |= f.value
    return m


def attr_abs(a):
    """(a_val, a_str) of an attribute: the part of its value the handlers' control flow can depend on."""
    name = a['name']
    v = a.get('val', _val(name) if name in CONSTRUCTIBLE else 'v')
    if name in ('Name',):
        return 0, v.name_value.value
    if name == 'Application Specific Information':
        return 0, '%s|%s' % (v['application_namespace'], v['application_data'])
    if name in ('Object Group', 'Operation Policy Name'):
        return 0, v
    if name == 'Cryptographic Usage Mask':
        return (v if isinstance(v, int) else _mask_val(v)), ''
    if name == 'Unique Identifier':
        return (int(v) if str(v).isdigit() else -1), ''
    if name in ('Sensitive', 'Fresh', 'Always Sensitive', 'Extractable', 'Never Extractable'):
        return (1 if v else 0), ''
    if hasattr(v, 'value') and isinstance(getattr(v, 'value'), int):
        return v.value, ''
    if isinstance(v, int):
        return v, ''
    return 0, ''


def c_attr(a):
    val, st = attr_abs(a)
    return '(at_ %s %s %s %s)' % (cp.string(a['name']), c_optz(a.get('index')), cp.z(val), cstr(st))


def c_tattr(t):
    if t is None:
        return 'None'
    return '(Some (ta_ %s %s))' % (cp.boolean(t.get('tnames', False)), cp.lst(t['attrs'], c_attr))


def c_secret(sx):
    if sx is None:
        return 'None'
    t = sx['type']
    if t in ('SYMMETRIC_KEY', 'PUBLIC_KEY', 'PRIVATE_KEY', 'SPLIT_KEY'):
        default = {'SYMMETRIC_KEY': 'RAW', 'PUBLIC_KEY': 'PKCS_1', 'PRIVATE_KEY': 'PKCS_1', 'SPLIT_KEY': 'RAW'}[t]
        w = sx.get('wrap')
        if w is None:
            shape = 0
        elif w.get('eki') and w.get('mski'):
            shape = None
        elif w.get('eki'):
            shape = 2 if w.get('eki_params') else 3
        elif w.get('mski'):
            shape = 4 if w.get('mski_params') else 5
        else:
            shape = 1
        if shape is None:
            return None
        sym = t in ('SYMMETRIC_KEY', 'SPLIT_KEY')
        length = (128 if sym else 1024) + (8 if sx.get('length_ok') is False else 0)
        missing = {None: 0, 'alg': 1, 'len': 2, 'both': 3, 'value': 4}[sx.get('missing')]
        if missing and (shape != 0 or sx.get('length_ok') is False or sx.get('kft', default) != default):
            return None        # the conversion table covers left-out parts for the canonical secret only
        pfs = sx.get('pfs')
        big = pfs is not None and not (-2 ** 63 <= pfs < 2 ** 63)
        return '(Some (SecKey %d %d %s %d %d %d %d %s))' % (OT[t].value, KFT[sx.get('kft', default)].value,
                                                             cp.boolean(sx.get('length_ok') is not False), shape,
                                                             (ALG.AES if sym else ALG.RSA).value, length, missing, cp.boolean(big))
    if t == 'CERTIFICATE':
        return '(Some (SecCert %d))' % enums.CertificateType[sx.get('cert_type', 'X_509')].value
    return '(Some (SecOther %d))' % OT[t].value


def coq_item(req):
    """Abstract request -> Coq `item` (None when the request is outside the modelled menu)."""
    op = req['op']
    u = c_uid(req.get('uid'))
    b = cp.boolean
    if op == 'Create':
        return '(ICreate %d %s)' % (OT[req['otype']].value, c_tattr(req['ta']))
    if op == 'CreateKeyPair':
        return '(ICreateKeyPair %s %s %s)' % (c_tattr(req['common']), c_tattr(req['private']), c_tattr(req['public']))
    if op == 'Register':
        sec = c_secret(req['secret'])
        if sec is None:
            return None
        return '(IRegister %d %s %s)' % (OT[req['otype']].value, sec, c_tattr(req['ta']))
    if op == 'DeriveKey':
        d = req['dp']
        return '(IDeriveKey %d %s %s %s %s)' % (OT[req['otype']].value, cp.lst(req['uids'], lambda x: cp.z(int(x))),
                                                b(d.get('data') is not None), b(d.get('params') is not None), c_tattr(req['ta']))
    if op == 'Locate':
        return '(ILocate %s)' % cp.lst(req['attrs'], c_attr)
    if op == 'Get':
        w = req.get('wrap')
        if w is None:
            ws = 'None'
        else:
            eki = 'None'
            if w.get('eki') is not None:
                eki = '(Some (%s, %s))' % (c_uid(w['eki']['uid']), b(w['eki'].get('params') is not None))
            ws = '(Some (ws_ %s %s %s %s %s))' % (b(w.get('method', 'ENCRYPT') == 'ENCRYPT'), eki, b(w.get('mski') is not None),
                                                  b(bool(w.get('attr_names'))), b(w.get('encoding') == 'NO_ENCODING'))
        return '(IGet %s %s %s %s)' % (u, c_optz(KFT[req['kft']].value if req.get('kft') else None), b(bool(req.get('compression'))), ws)
    if op == 'GetAttributes':
        return '(IGetAttributes %s %s)' % (u, cp.lst(req.get('names') or [], cp.string))
    if op == 'GetAttributeList':
        return '(IGetAttributeList %s)' % u
    if op == 'Activate':
        return '(IActivate %s)' % u
    if op == 'Revoke':
        return '(IRevoke %s %s)' % (u, c_optz(enums.RevocationReasonCode[req['code']].value if req.get('code') else None))
    if op == 'Destroy':
        return '(IDestroy %s)' % u
    if op == 'Query':
        return 'IQuery'
    if op == 'DiscoverVersions':
        return 'IDiscoverVersions'
    if op in ('Encrypt', 'Decrypt', 'Sign', 'SignatureVerify'):
        return '(I%s %s %s)' % (op, u, b(req.get('params') is not None))
    if op == 'MAC':
        p = req.get('params')
        return '(IMAC %s %s %s)' % (u, b(bool(p) and p.get('cryptographic_algorithm') is not None), b(req.get('data') is not None))
    if op == 'SetAttribute':
        return '(ISetAttribute %s %s)' % (u, c_attr(req['attr']))
    if op == 'ModifyAttribute1':
        return '(IModifyAttribute1 %s %s)' % (u, c_attr(req['attr']))
    if op == 'ModifyAttribute2':
        cur = req.get('current')
        return '(IModifyAttribute2 %s %s %s)' % (u, c_attr(req['attr']), '(Some %s)' % c_attr(cur) if cur is not None else 'None')
    if op == 'DeleteAttribute1':
        return '(IDeleteAttribute1 %s %s %s)' % (u, cp.string(req['name']), c_optz(req.get('index')))
    if op == 'DeleteAttribute2':
        cur = req.get('current')
        ref = req.get('ref')
        return '(IDeleteAttribute2 %s %s %s)' % (u, '(Some %s)' % c_attr(cur) if cur is not None else 'None',
                                                 cp.option(ref, cp.string))
    raise KeyError(op)


def coq_sobj(o):
    # the operation policy name is not part of the summary: `allowed` already says what the engine's is_allowed made of it
    sl = lambda xs: cp.lst(xs, cstr)
    return '(so %s %s %s %s %s %s %s %s %s %s %s %s %s %s)' % (
        cp.z(o['uid']), cp.string(o['cls']), cp.z(o['otype']), cp.boolean(o['allowed']), c_optz(o['state']), cp.z(o['mask']),
        sl(o['names']), sl(o['asi']), sl(o['groups']), cp.boolean(o['value_empty']), c_optz(o['kft']), c_optz(o['alg']),
        c_optz(o['len']), cp.boolean(o['sensitive']))


def coq_cres(obs):
    calls = obs['crypto']
    if not calls:
        return 'CNotCalled', False
    fn, res = calls[-1]
    if res == 'ok':
        return 'COk', True
    if res == 'kmip':
        return 'CKmip', True
    return '(CExc %s)' % cp.string(site_string(obs['crash']) or ('unobserved:' + res)), True


POLICY_OP = {'Get': OP.GET, 'GetAttributes': OP.GET_ATTRIBUTES, 'GetAttributeList': OP.GET_ATTRIBUTE_LIST, 'Activate': OP.ACTIVATE,
             'Revoke': OP.REVOKE, 'Destroy': OP.DESTROY, 'Locate': OP.LOCATE, 'Encrypt': OP.GET, 'Decrypt': OP.GET, 'Sign': OP.GET,
             'SignatureVerify': OP.GET, 'MAC': OP.GET, 'DeriveKey': OP.GET, 'SetAttribute': OP.SET_ATTRIBUTE,
             'ModifyAttribute1': OP.MODIFY_ATTRIBUTE, 'ModifyAttribute2': OP.MODIFY_ATTRIBUTE,
             'DeleteAttribute1': OP.DELETE_ATTRIBUTE, 'DeleteAttribute2': OP.DELETE_ATTRIBUTE}


def with_access(drv, store_obs, user, req_op):
    """The store summary with `allowed` decided by the engine's own is_allowed for the operation whose policy entry the
    handler consults (access control itself is C03's subject; here it is an observed input of the model)."""
    pop = POLICY_OP.get(req_op)
    out = []
    for o in store_obs:
        o = dict(o)
        if pop is None:
            o['allowed'] = False
        else:
            try:
                o['allowed'] = bool(drv.eng.engine.is_allowed(o['policy'], user, None, o['owner'], enums.ObjectType(o['otype']), pop))
            except Exception:       # the request itself will show the failure to the direct oracle
                o['allowed'] = False
        out.append(o)
    return out


OP_NAMES = {'Create': 'CREATE', 'CreateKeyPair': 'CREATE_KEY_PAIR', 'Register': 'REGISTER', 'DeriveKey': 'DERIVE_KEY', 'Locate': 'LOCATE',
            'Get': 'GET', 'GetAttributes': 'GET_ATTRIBUTES', 'GetAttributeList': 'GET_ATTRIBUTE_LIST', 'Activate': 'ACTIVATE',
            'Revoke': 'REVOKE', 'Destroy': 'DESTROY', 'Query': 'QUERY', 'DiscoverVersions': 'DISCOVER_VERSIONS', 'Encrypt': 'ENCRYPT',
            'Decrypt': 'DECRYPT', 'Sign': 'SIGN', 'SignatureVerify': 'SIGNATURE_VERIFY', 'MAC': 'MAC', 'SetAttribute': 'SET_ATTRIBUTE',
            'ModifyAttribute1': 'MODIFY_ATTRIBUTE', 'ModifyAttribute2': 'MODIFY_ATTRIBUTE', 'DeleteAttribute1': 'DELETE_ATTRIBUTE',
            'DeleteAttribute2': 'DELETE_ATTRIBUTE'}
MUTATING = {'Create', 'CreateKeyPair', 'Register', 'DeriveKey', 'Activate', 'Revoke', 'Destroy', 'SetAttribute', 'ModifyAttribute1',
            'ModifyAttribute2', 'DeleteAttribute1', 'DeleteAttribute2'}


def jsonable(x):
    if isinstance(x, dict):
        return {str(k): jsonable(v) for k, v in x.items()}
    if isinstance(x, (list, tuple)):
        return [jsonable(v) for v in x]
    if isinstance(x, (bytes, bytearray)):
        return 'hex:' + bytes(x).hex()
    if isinstance(x, (str, int, float, bool)) or x is None:
        return x
    import enum
    if isinstance(x, enum.Enum):
        return '%s.%s' % (type(x).__name__, x.name)
    if isinstance(x, cattrs.Name):
        return 'Name:' + x.name_value.value
    return repr(x)


class Grid:
    """Runs cells against the engine, applies the direct oracle, accumulates deduplicated Coq cases."""
    def __init__(self, ctx):
        self.ctx = ctx
        self.cases = []
        self.meta = []
        self.seen = {}
        self.stores = {}
        self.cells = 0
        self.crashes = 0

    def store_name(self, obs_store):
        term = cp.lst(obs_store, coq_sobj)
        if term not in self.stores:
            self.stores[term] = 'st%d' % len(self.stores)
        return self.stores[term]

    def header(self):
        return HEADER + ''.join('Definition %s : store := %s.\n' % (n, t) for t, n in self.stores.items())

    def cell(self, drv, req, ver, store_obs, user='alice', desc=None, history=None, auth=None):
        store_obs = with_access(drv, store_obs, user, req['op'])
        try:
            item = mk_item(req)
        except (ValueError, TypeError) as e:     # kmip.core itself refuses to build the request: it cannot arrive
            self.ctx.count('unconstructible.%s' % req['op'])
            return {'status': 'UNCONSTRUCTIBLE', 'reason': None, 'crash': None, 'crypto': [], 'warned': 0, 'message': str(e), 'encode': None}
        obs = drv.run(item, ver, user, auth=mk_auth(auth))
        if auth is not None:
            history = (history or []) + [{'request_header_authentication': auth}]
        return self.record(req, ver, store_obs, obs, user, desc, history)

    def record(self, req, ver, store_obs, obs, user='alice', desc=None, history=None, coq_req=None, batch=None):
        """Direct oracle + correspondence case for one executed item.  `coq_req` is the request as the model sees it when it
        differs from what was sent (a batch item without identifier: the placeholder it resolves to is filled in)."""
        ctx = self.ctx
        self.cells += 1
        op = OP_NAMES[req['op']]
        crashed = obs['reason'] == 'GENERAL_FAILURE'
        ctx.count('op.%s.%s' % (op, 'GENERAL_FAILURE' if crashed else ('SUCCESS' if obs['status'] == 'SUCCESS' else 'kmip_error')))
        ctx.count('version.%d.%d' % ver)
        if desc:
            ctx.count('target.%s' % desc)
        witness = {'version': list(ver), 'user': user, 'request': jsonable(req), 'store': store_obs, 'history': history, 'batch': batch,
                   'observed': {'status': obs['status'], 'reason': obs['reason'], 'crash': obs['crash'], 'crypto': obs['crypto'],
                                'encode': obs.get('encode')}}
        # ---- direct oracle: the property itself, no model involved
        if crashed != (obs['warned'] > 0):
            ctx.violation({'op': op, 'site': 'log-vs-reason'}, witness, 'GENERAL_FAILURE and the WARNING record disagree')
        if crashed:
            self.crashes += 1
            c = obs['crash']
            sig = {'op': op, 'site': c.get('site'), 'exc': c.get('exc'), 'detail': c.get('detail', ''),
                   'version': '%d.%d' % ver}
            tgt = [o for o in store_obs if req.get('uid') is not None and str(o['uid']) == str(req.get('uid'))]
            if tgt:
                sig['stored_type'] = tgt[0]['cls']
            ctx.violation(sig, witness, '%s answered GENERAL_FAILURE (%s)' % (op, site_string(c)))
        if obs.get('encode'):
            e = obs['encode']
            self.encode_failures = getattr(self, 'encode_failures', 0) + 1
            ctx.count('op.%s.response-not-encodable' % op)
            ctx.violation({'op': op, 'site': e['site'], 'exc': e['exc'], 'detail': e.get('detail', ''), 'version': '%d.%d' % ver,
                           'stage': 'encode-response'}, witness,
                          '%s: the response cannot be encoded (%s:%s %s); the session answers GENERAL_FAILURE' % (op, e['site'], e['exc'], e['msg']))
        # ---- correspondence case
        it = coq_item(coq_req if coq_req is not None else req)
        if it is None:
            ctx.count('unmodelled')
            return obs
        cr, called = coq_cres(obs)
        term = '(kc (%d,%d) %s %s %s %s %s)' % (ver[0], ver[1], self.store_name(store_obs), cr, it,
                                                cp.option(observed_site(obs), cp.string), cp.boolean(called))
        new = ctx.case_seen(term, nontrivial=True)
        if term not in self.seen:
            self.seen[term] = len(self.cases)
            self.cases.append(term)
            self.meta.append(witness)
        return obs

    def compare(self, name='grid', shard=300):
        """Coq as comparator.  Like Ctx.run_cases, but every shard file defines only the stores its cases mention
        (cases are sorted by store first), and at most 4 coqc processes run at a time."""
        import re
        import time
        from concurrent.futures import ThreadPoolExecutor
        ctx = self.ctx
        by_name = {n: t for t, n in self.stores.items()}
        order = sorted(range(len(self.cases)), key=lambda i: (int(re.search(r'st(\d+)', self.cases[i]).group(1)), i))
        shards = [order[i:i + shard] for i in range(0, len(order), shard)]

        def header_for(idx):
            used = sorted({re.search(r'st\d+', self.cases[i]).group(0) for i in idx}, key=lambda x: int(x[2:]))
            return HEADER + ''.join('Definition %s : store := %s.\n' % (n, by_name[n]) for n in used)

        def one(arg):
            k, idx = arg
            text = (header_for(idx) + 'Definition cases_ := [\n  ' + ';\n  '.join(self.cases[i] for i in idx) + '\n].\n'
                    'Definition bad_ := map fst (filter (fun p => negb (snd p)) (combine (seq 0 (length cases_)) (map check_case cases_))).\n'
                    'Eval vm_compute in (length cases_, bad_).\n')
            ok, out, err = ctx.coq_eval('%s_%03d' % (name, k), text, 900)
            if not ok:
                return idx, None, (err or out)[-3000:]
            flat = ' '.join(out.split())
            m = re.search(r'=\s*\((\d+)%?\w*,\s*(\[[^\]]*\]|nil)\s*\)', flat)
            if not m or int(m.group(1)) != len(idx):
                return idx, None, 'unparsable coqc output: ' + flat[-500:]
            bad = [int(x) for x in re.findall(r'\d+', m.group(2))] if m.group(2) != 'nil' else []
            return idx, [idx[j] for j in bad], ''

        t0 = time.time()
        bad_all, failed = [], []
        with ThreadPoolExecutor(max_workers=4) as ex:
            for idx, bad, err in ex.map(one, enumerate(shards)):
                if bad is None:
                    failed.append(err)
                else:
                    bad_all += bad
        bad_all.sort()
        c = ctx.cov['correspondences'].setdefault(name, {'cases': 0, 'disagreements': 0})
        c['cases'] += len(self.cases)
        c['disagreements'] += len(bad_all)
        c['what'] = 'NoCrash.Model.step / reaches_crypto vs KmipEngine._process_operation (crash site, crypto call reached)'
        ctx.log('correspondence %s: %d cases, %d disagree, %d shard failures, %.1fs' % (name, len(self.cases), len(bad_all), len(failed), time.time() - t0))
        if failed:
            ctx.broken.append({'kind': 'correspondence', 'name': name, 'detail': 'coqc failed on case file: ' + failed[0], 'candidates': []})
        for i in bad_all[:20]:
            says = ctx.model_output(header_for([i]), 'model_says %s' % self.cases[i]) if bad_all.index(i) < 30 else None
            ctx.disagreement(name, {'input': self.meta[i], 'coq_case': self.cases[i][:1500]}, model_says=says,
                             impl_says=self.meta[i]['observed'])
            self.meta[i]['model_says'] = says
        self.bad = bad_all
        return bad_all


# ---------------------------------------------------------------------------------------------- the check
TARGETS = [(t, st) for t in TYPE_NAMES for st in (STATES if t != 'OPAQUE_DATA' else ['PreActive', 'Destroyed'])]


def stratified(menu, rng, per_op, extra):
    """At least `per_op` requests of every operation kind of the menu, plus `extra` more at random."""
    by_op = {}
    for r in menu:
        by_op.setdefault(r['op'], []).append(r)
    out = []
    for op in sorted(by_op):
        rs = by_op[op]
        out += rs if len(rs) <= per_op else rng.sample(rs, per_op)
    rest = [r for r in menu if r not in out]
    if extra and rest:
        out += rng.sample(rest, min(extra, len(rest)))
    order = {'Activate': 1, 'Revoke': 1, 'Destroy': 2}
    out.sort(key=lambda r: order.get(r['op'], 0))
    return out


def run_target(grid, drv, ver, t, st, rng, sample):
    drv.reset()
    if True:
        wk = add_object(drv, obj_spec('SYMMETRIC_KEY', 'Active', 'all'), 90)
        wk2 = add_object(drv, obj_spec('SYMMETRIC_KEY', 'PreActive', 'all'), 91)
        spec = obj_spec(t, st, 'all', names=2, asi=1, groups=1, how=('create' if rng.random() < 0.3 else 'register'))
        uid = add_object(drv, spec, 1)
        menu = target_menu(uid, ver, wrap_uids=[wk, wk2, uid])
        if sample is not None:
            menu = stratified(menu, rng, sample[0], sample[1])
        store = observe_store(drv)
        for req in menu:
            if req['op'] in ('Activate', 'Revoke', 'Destroy'):
                req = dict(req)
                req['uid'] = add_object(drv, spec, 2)
                store = observe_store(drv)
            obs = grid.cell(drv, req, ver, store, desc='%s.%s' % (t, st))
            if req['op'] in MUTATING and obs['status'] == 'SUCCESS':
                store = observe_store(drv)


def run_aux(grid, ctx, ver, rng, sample):
    """Targets without mask, foreign owner, empty value, absent / unknown / non-numeric identifiers; DeriveKey; Locate over a full store."""
    drv = Driver(ctx)
    try:
        us = [add_object(drv, obj_spec(t, 'Active', 'none', names=0), 3) for t in TYPE_NAMES]
        ub = [add_object(drv, obj_spec(t, 'Active', 'all', owner='bob'), 4) for t in TYPE_NAMES]
        ue = [add_object(drv, obj_spec(t, 'Active', 'all', empty=True), 5) for t in ('SECRET_DATA', 'OPAQUE_DATA', 'CERTIFICATE')]
        ua = [add_object(drv, obj_spec(t, 'Active', 'all', groups=1), 6) for t in ('SYMMETRIC_KEY', 'SECRET_DATA', 'PRIVATE_KEY')]
        store = observe_store(drv)
        tg = [(x, 'nomask') for x in us] + [(x, 'foreign') for x in ub] + [(x, 'emptyvalue') for x in ue] + \
             [(None, 'noid'), (9999, 'unknownid'), ('abc', 'nonnumeric'), ('01', 'noncanonical'),
              (2 ** 63 - 1, 'hugeid'), (2 ** 63, 'hugeid'), (2 ** 64, 'hugeid'), (10 ** 30, 'hugeid'), (-1, 'negativeid')]
        for u, d in tg:
            menu = [r for r in target_menu(u, ver, wrap_uids=[us[0], ub[0], ua[0]]) if not (r['op'] in ('Activate', 'Revoke', 'Destroy') and d not in ('noid', 'foreign', 'unknownid'))]
            if sample is not None:
                menu = stratified(menu, rng, sample[0], sample[1])
            for req in menu:
                if d == 'noncanonical':
                    continue       # SQLite integer affinity: outside the modelled identifier domain (DESIGN 5.5)
                obs = grid.cell(drv, req, ver, store, desc=d)
                if req['op'] in MUTATING and obs['status'] == 'SUCCESS':
                    store = observe_store(drv)
        allu = [o['uid'] for o in store]
        menu = derive_menu(allu)
        if sample is not None:
            menu = rng.sample(menu, min(len(menu), 12 * sample[0] + sample[1]))
        for req in menu:
            obs = grid.cell(drv, req, ver, store, desc='derive')
            if obs['status'] == 'SUCCESS':
                store = observe_store(drv)
        store = observe_store(drv)
        for req in mask_menu(ua[0], ver) + extreme_menu(ua[1], ver):
            obs = grid.cell(drv, req, ver, store, desc='masks')
            if req['op'] in MUTATING and obs['status'] == 'SUCCESS':
                # objects a cell created are destroyed again, so that the (large) store stays the same term
                p = obs.get('payload') or {}
                for key in ('unique_identifier', 'private_key_unique_identifier', 'public_key_unique_identifier'):
                    if req['op'] in ('Create', 'Register', 'CreateKeyPair', 'DeriveKey') and p.get(key) is not None:
                        drv.eng.request([kdrv.destroy(str(p[key]))], user='alice')
                store = observe_store(drv)
        for user in ('alice', 'bob', 'carol'):
            store = observe_store(drv, user)
            menu = locate_menu()
            if sample is not None and user != 'alice':
                menu = rng.sample(menu, 8)
            for req in menu:
                grid.cell(drv, req, ver, store, user=user, desc='locate.' + user)
    finally:
        drv.close()


def run_global(grid, ctx, ver, rng, sample):
    drv = Driver(ctx)
    try:
        store = observe_store(drv)
        for req in locate_menu()[:6]:
            grid.cell(drv, req, ver, store, desc='locate.empty')
        menu = global_menu(ver)
        if sample is not None:
            menu = stratified(menu, rng, 12 * sample[0], 4 * sample[1])
        for req in menu:
            obs = grid.cell(drv, req, ver, store, desc='global')
            if req['op'] in MUTATING and obs['status'] == 'SUCCESS':
                store = observe_store(drv)
    finally:
        drv.close()


def run_sweep(grid, ctx, ver):
    drv = Driver(ctx)
    try:
        sym = add_object(drv, obj_spec('SYMMETRIC_KEY', 'Active', 'all'), 1)
        priv = add_object(drv, obj_spec('PRIVATE_KEY', 'Active', 'all'), 2)
        pub = add_object(drv, obj_spec('PUBLIC_KEY', 'Active', 'all'), 3)
        sym_pub = add_object(drv, obj_spec('SYMMETRIC_KEY', 'Active', 'all', value='rsa_pub'), 4)
        sym_priv = add_object(drv, obj_spec('SYMMETRIC_KEY', 'Active', 'all', value='rsa_priv'), 5)
        small = add_object(drv, obj_spec('PRIVATE_KEY', 'Active', 'all', value='small_priv'), 6)
        store = observe_store(drv)
        for req in length_menu(sym) + asym_menu(sym_pub, sym_priv, small, priv, pub, ctx.subrng('asym')) + enum_sweep_menu(sym, priv, pub):
            obs = grid.cell(drv, req, ver, store, desc='sweep')
            if req['op'] in MUTATING and obs['status'] == 'SUCCESS':
                store = observe_store(drv)
    finally:
        drv.close()


def run_pairs(grid, ctx, rng, sample):
    """KMIP 2.0 attribute-kind pairs on one object of every class."""
    drv = Driver(ctx)
    try:
        for t in (TYPE_NAMES if sample is None else rng.sample(TYPE_NAMES, 2)):
            drv.reset()
            uid = add_object(drv, obj_spec(t, 'PreActive', 'all', names=2, asi=1, groups=1), 1)
            store = observe_store(drv)
            for req in pair_menu(uid, rng, sample):
                obs = grid.cell(drv, req, (2, 0), store, desc='pairs')
                if obs['status'] == 'SUCCESS':
                    store = observe_store(drv)
    finally:
        drv.close()


def run_credentials(grid, ctx, rng):
    """Every kind of request-header credential with a few operations under every version: header processing must not fail."""
    drv = Driver(ctx)
    try:
        uid = add_object(drv, obj_spec('SYMMETRIC_KEY', 'Active', 'all'), 1)
        store = observe_store(drv)
        for ver in kdrv.VERSIONS:
            for kind in AUTH_KINDS:
                for req in ({'op': 'Get', 'uid': uid}, {'op': 'Query', 'functions': ['QUERY_OPERATIONS']}, {'op': 'Locate', 'attrs': []},
                            {'op': 'GetAttributes', 'uid': uid, 'names': ['Name']}):
                    for user in ('alice', 'bob'):
                        grid.cell(drv, req, ver, observe_store(drv, user) if user != 'alice' else store, user=user, desc='credentials', auth=kind)
    finally:
        drv.close()


FREE_TEXTS = ['{}', 'team{a}', 'a{', '}x{1}', '{0}{1}', '%s', '%(x)s %d', '100%', "it's \"quoted\"", 'line\nbreak', 'tab\there', 'nul\x00byte',
              '\\back\\slash', ' ', 'x' * 300, '{0.__class__}', '${jndi}', ';--']


def run_freetext(grid, ctx, rng, sample):
    """Free-text attributes the server stores (operation policy name, name, object group, application specific information)
    holding format / percent / brace / quote / control characters; then every operation on that object by its owner and a
    Locate by somebody else (who merely has the object's policy evaluated)."""
    drv = Driver(ctx)
    try:
        texts = FREE_TEXTS if sample is None else (FREE_TEXTS[:4] + rng.sample(FREE_TEXTS[4:], sample))
        for k, t in enumerate(texts):
            ver = kdrv.VERSIONS[k % len(kdrv.VERSIONS)]
            for what in ('policy', 'names'):
                drv.reset()
                add_object(drv, obj_spec('SECRET_DATA', 'Active', 'all'), 1)
                if what == 'policy':
                    ta = {'attrs': [{'name': 'Operation Policy Name', 'val': t}, {'name': 'Cryptographic Usage Mask'}], 'tnames': False}
                else:
                    ta = {'attrs': [{'name': 'Name', 'val': kdrv.name_value(t), 'index': 0}, {'name': 'Object Group', 'val': t, 'index': 0},
                                    {'name': 'Application Specific Information', 'val': {'application_namespace': t or 'n', 'application_data': t or 'd'}, 'index': 0},
                                    {'name': 'Cryptographic Usage Mask'}], 'tnames': False}
                reg = {'op': 'Register', 'otype': 'SYMMETRIC_KEY', 'secret': {'type': 'SYMMETRIC_KEY'}, 'ta': ta}
                obs = grid.cell(drv, reg, ver, observe_store(drv), desc='freetext.' + what)
                if obs['status'] != 'SUCCESS':
                    continue
                uid = int(str(obs['payload']['unique_identifier']))
                hist = [jsonable(reg)]
                follow = [({'op': 'Get', 'uid': uid}, 'alice'), ({'op': 'GetAttributes', 'uid': uid, 'names': None}, 'alice'),
                          ({'op': 'GetAttributeList', 'uid': uid}, 'alice'), ({'op': 'Locate', 'attrs': []}, 'alice'), ({'op': 'Locate', 'attrs': []}, 'bob'),
                          ({'op': 'Locate', 'attrs': [{'name': 'Name', 'val': kdrv.name_value(t)}]}, 'alice'),
                          ({'op': 'Locate', 'attrs': [{'name': 'Object Group', 'val': t}]}, 'bob'),
                          ({'op': 'Locate', 'attrs': [{'name': 'Operation Policy Name', 'val': t}]}, 'alice'), ({'op': 'Get', 'uid': uid}, 'bob'),
                          ({'op': 'Activate', 'uid': uid}, 'alice'), ({'op': 'Revoke', 'uid': uid, 'code': 'KEY_COMPROMISE'}, 'alice'), ({'op': 'Destroy', 'uid': uid}, 'alice')]
                if ver >= (1, 2):
                    follow.insert(3, ({'op': 'Encrypt', 'uid': uid, 'params': SYM_PARAMS[2], 'iv': None, 'data': b'abc'}, 'alice'))
                if ver < (2, 0):
                    follow.insert(3, ({'op': 'ModifyAttribute1', 'uid': uid, 'attr': {'name': 'Name', 'index': 0, 'val': kdrv.name_value(t + t[:3])}}, 'alice'))
                    follow.insert(4, ({'op': 'DeleteAttribute1', 'uid': uid, 'name': 'Object Group', 'index': 0}, 'alice'))
                for req, user in follow:
                    grid.cell(drv, req, ver, observe_store(drv, user), user=user, desc='freetext.' + what, history=list(hist))
    finally:
        drv.close()


def run_foreign_material(grid, ctx, rng, sample):
    """Stored key material of another kind than the request's cryptographic parameters say (EC / DSA / Ed25519 / Ed448 / X25519 /
    X448, DER and PEM, as public, private and symmetric-key objects) under every cryptographic operation."""
    kinds = sorted(other_material())
    if sample is not None:
        kinds = [k for k in ('ed25519', 'x25519') if k in kinds] + rng.sample([k for k in kinds if k not in ('ed25519', 'x25519')], min(sample, max(0, len(kinds) - 2)))
    rsa = {'cryptographic_algorithm': ALG.RSA, 'hashing_algorithm': HASH.SHA_256}
    sig_params = [dict(rsa, padding_method=PAD.PKCS1v15), dict(rsa, padding_method=PAD.PSS),
                  {'digital_signature_algorithm': enums.DigitalSignatureAlgorithm.SHA256_WITH_RSA_ENCRYPTION, 'padding_method': PAD.PKCS1v15},
                  {'cryptographic_algorithm': ALG.ECDSA, 'hashing_algorithm': HASH.SHA_256, 'padding_method': PAD.PSS}]
    enc_params = [{'cryptographic_algorithm': ALG.RSA, 'padding_method': PAD.PKCS1v15}, {'cryptographic_algorithm': ALG.RSA, 'padding_method': PAD.OAEP},
                  SYM_PARAMS[2], {'cryptographic_algorithm': ALG.RC4}]
    drv = Driver(ctx)
    try:
        for kind in kinds:
            drv.reset()
            objs = []
            for k, (otype, form) in enumerate([('PUBLIC_KEY', 'pub_der'), ('PUBLIC_KEY', 'pub_pem'), ('PRIVATE_KEY', 'priv_der'), ('PRIVATE_KEY', 'priv_pem'),
                                               ('SYMMETRIC_KEY', 'pub_der'), ('SYMMETRIC_KEY', 'priv_der'), ('SYMMETRIC_KEY', 'pub_pem')]):
                objs.append((otype, add_object(drv, obj_spec(otype, 'Active', 'all', value='other:%s:%s' % (kind, form)), k + 1)))
            store = observe_store(drv)
            ver = rng.choice([(1, 2), (1, 3), (1, 4), (2, 0)])
            hist = [{'store_setup': [[sp, kk] for sp, kk in drv.setup_log]}]
            for otype, u in objs:
                for p in sig_params:
                    for sig in (b'\x01' * 64, b'\x01' * 128, b''):
                        grid.cell(drv, {'op': 'SignatureVerify', 'uid': u, 'params': p, 'data': b'msg', 'signature': sig}, ver, store, desc='foreign.' + kind, history=hist)
                    grid.cell(drv, {'op': 'Sign', 'uid': u, 'params': p, 'data': b'msg'}, ver, store, desc='foreign.' + kind, history=hist)
                for p in enc_params:
                    grid.cell(drv, {'op': 'Encrypt', 'uid': u, 'params': p, 'iv': None, 'data': b'abc'}, ver, store, desc='foreign.' + kind, history=hist)
                    grid.cell(drv, {'op': 'Decrypt', 'uid': u, 'params': p, 'iv': b'\x01' * 16, 'data': b'\x07' * 128}, ver, store, desc='foreign.' + kind, history=hist)
                for a in (ALG.HMAC_SHA256, ALG.AES, ALG.RSA):
                    grid.cell(drv, {'op': 'MAC', 'uid': u, 'params': {'cryptographic_algorithm': a}, 'data': b'data'}, ver, store, desc='foreign.' + kind, history=hist)
                grid.cell(drv, {'op': 'Get', 'uid': u}, ver, store, desc='foreign.' + kind, history=hist)
                obs = grid.cell(drv, {'op': 'DeriveKey', 'otype': 'SYMMETRIC_KEY', 'uids': [u], 'method': 'HASH', 'dp': {'params': {'hashing_algorithm': HASH.SHA_256}},
                                      'ta': DERIVE_TA}, ver, store, desc='foreign.' + kind, history=hist)
                if obs['status'] == 'SUCCESS':
                    store = observe_store(drv)
    finally:
        drv.close()


FIXTURE = 'c13_store_v1.sql'


def run_old_store(grid, ctx):
    """A store file written by an earlier build of the tree (literal SQL dump harness/c13_store_v1.sql, written by the tree at
    repo commit 02e2981): every operation on the objects it holds must still be answered without an internal error."""
    import sqlite3
    from pathlib import Path
    src = Path(__file__).resolve().parent / FIXTURE
    drv = Driver(ctx)
    try:
        drv.eng.engine._data_store.dispose()
        for suffix in ('', '-journal'):
            try:
                os.unlink(drv.eng.path + suffix)
            except OSError:
                pass
        con = sqlite3.connect(drv.eng.path)
        con.executescript(src.read_text())
        con.commit()
        con.close()
        drv.eng.restart()
        drv.attach()
        store = observe_store(drv)
        for ver in ((1, 2), (2, 0)):
            for o in store:
                u = o['uid']
                reqs = [{'op': 'Get', 'uid': u}, {'op': 'GetAttributes', 'uid': u, 'names': None}, {'op': 'GetAttributeList', 'uid': u},
                        {'op': 'Encrypt', 'uid': u, 'params': SYM_PARAMS[2], 'iv': None, 'data': b'abc'},
                        {'op': 'MAC', 'uid': u, 'params': {'cryptographic_algorithm': ALG.HMAC_SHA256}, 'data': b'd'},
                        {'op': 'Sign', 'uid': u, 'params': SIGN_PARAMS[2], 'data': b'msg'}]
                reqs += [{'op': 'ModifyAttribute1', 'uid': u, 'attr': {'name': 'Name', 'index': 0, 'val': kdrv.name_value('renamed%d' % u)}}] if ver < (2, 0) \
                    else [{'op': 'SetAttribute', 'uid': u, 'attr': {'name': 'Sensitive'}}]
                for req in reqs:
                    obs = grid.cell(drv, req, ver, store, desc='oldstore', history=[{'store_fixture': FIXTURE}])
                    if req['op'] in MUTATING and obs['status'] == 'SUCCESS':
                        store = observe_store(drv)
            for req in ({'op': 'Locate', 'attrs': []}, {'op': 'Locate', 'attrs': [{'name': 'State'}]}, {'op': 'Locate', 'attrs': [{'name': 'Cryptographic Algorithm'}]}):
                grid.cell(drv, req, ver, store, desc='oldstore', history=[{'store_fixture': FIXTURE}])
        for o in list(store):
            for req in ({'op': 'Activate', 'uid': o['uid']}, {'op': 'Revoke', 'uid': o['uid'], 'code': 'KEY_COMPROMISE'}, {'op': 'Destroy', 'uid': o['uid']}):
                obs = grid.cell(drv, req, (1, 4), store, desc='oldstore', history=[{'store_fixture': FIXTURE}])
                if obs['status'] == 'SUCCESS':
                    store = observe_store(drv)
        grid.cell(drv, {'op': 'Create', 'otype': 'SYMMETRIC_KEY', 'ta': tmpl('Cryptographic Algorithm', 'Cryptographic Length', 'Cryptographic Usage Mask')},
                  (1, 2), store, desc='oldstore', history=[{'store_fixture': FIXTURE}])
    finally:
        drv.close()


HISTORIES = [
    # (what it is after, steps).  A step is (abstract request, target) where target None | 'newest' | 'oldest' | index into created
    ('identifier reuse after destroying the newest object', [
        ({'op': 'Register', 'otype': 'SYMMETRIC_KEY', 'secret': {'type': 'SYMMETRIC_KEY'}, 'ta': {'attrs': [{'name': 'Name'}], 'tnames': False}}, None),
        ({'op': 'Register', 'otype': 'SYMMETRIC_KEY', 'secret': {'type': 'SYMMETRIC_KEY'}, 'ta': {'attrs': [], 'tnames': False}}, None),
        ({'op': 'Destroy'}, 'newest'),
        ({'op': 'Create', 'otype': 'SYMMETRIC_KEY', 'ta': 'KEY'}, None),
        ({'op': 'Get'}, 'newest'), ({'op': 'GetAttributes', 'names': None}, 'newest'), ({'op': 'Locate', 'attrs': []}, None)]),
    ('destroy newest then create a pair, across object classes', [
        ({'op': 'Register', 'otype': 'CERTIFICATE', 'secret': {'type': 'CERTIFICATE'}, 'ta': {'attrs': [], 'tnames': False}}, None),
        ({'op': 'Register', 'otype': 'OPAQUE_DATA', 'secret': {'type': 'OPAQUE_DATA'}, 'ta': {'attrs': [], 'tnames': False}}, None),
        ({'op': 'Destroy'}, 'newest'),
        ({'op': 'CreateKeyPair', 'common': 'PAIR', 'private': 'MASK', 'public': 'MASK'}, None),
        ({'op': 'Destroy'}, 'newest'),
        ({'op': 'Register', 'otype': 'SECRET_DATA', 'secret': {'type': 'SECRET_DATA'}, 'ta': {'attrs': [{'name': 'Name'}], 'tnames': False}}, None),
        ({'op': 'GetAttributeList'}, 'newest'), ({'op': 'Locate', 'attrs': [{'name': 'Object Type'}]}, None)]),
    ('destroy everything then create', [
        ({'op': 'Create', 'otype': 'SYMMETRIC_KEY', 'ta': 'KEY'}, None),
        ({'op': 'Destroy'}, 'newest'),
        ({'op': 'Create', 'otype': 'SYMMETRIC_KEY', 'ta': 'KEY'}, None),
        ({'op': 'Activate'}, 'newest'), ({'op': 'Revoke', 'code': 'KEY_COMPROMISE'}, 'newest'),
        ({'op': 'Revoke', 'code': 'KEY_COMPROMISE'}, 'newest'), ({'op': 'Destroy'}, 'newest'),
        ({'op': 'Register', 'otype': 'SPLIT_KEY', 'secret': {'type': 'SPLIT_KEY'}, 'ta': {'attrs': [], 'tnames': False}}, None)]),
]


def _history_request(req, created):
    r = dict(req)
    A, L, M = 'Cryptographic Algorithm', 'Cryptographic Length', 'Cryptographic Usage Mask'
    for k, v in list(r.items()):
        if v == 'KEY':
            r[k] = tmpl(A, L, M)
        elif v == 'PAIR':
            r[k] = tmpl({'name': A, 'val': ALG.RSA}, {'name': L, 'val': 1024})
        elif v == 'MASK':
            r[k] = tmpl(M)
    return r


def run_histories(grid, ctx, rng, n_random):
    """Request histories on one engine (identifiers issued, destroyed and issued again; an engine restart in between):
    every step is a grid cell of its own, with the steps before it recorded in the witness so that a replay can redo them."""
    scripts = list(HISTORIES)
    makers = [s for s in HISTORIES[0][1][:2]] + [HISTORIES[1][1][0], HISTORIES[1][1][1], HISTORIES[1][1][3], HISTORIES[2][1][0], HISTORIES[2][1][7]]
    others = [({'op': 'Destroy'}, 'newest'), ({'op': 'Destroy'}, 'newest'), ({'op': 'Destroy'}, 'oldest'), ({'op': 'Activate'}, 'newest'),
              ({'op': 'Revoke', 'code': 'KEY_COMPROMISE'}, 'newest'), ({'op': 'Get'}, 'newest'), ({'op': 'GetAttributes', 'names': None}, 'oldest'),
              ({'op': 'Locate', 'attrs': []}, None), ('RESTART', None)]
    for k in range(n_random):
        steps = []
        for j in range(rng.randint(6, 14)):
            steps.append(rng.choice(makers) if rng.random() < 0.5 else rng.choice(others))
        scripts.append(('seeded random history %d' % k, steps))
    for what, steps in scripts:
        drv = Driver(ctx)
        try:
            ver = rng.choice(kdrv.VERSIONS)
            created, history = [], []
            for req, target in steps:
                if req == 'RESTART':
                    drv.eng.restart()
                    drv.attach()
                    history.append('RESTART')
                    continue
                r = _history_request(req, created)
                if target is not None:
                    live = [o['uid'] for o in observe_store(drv)]
                    if target == 'newest':
                        r['uid'] = max(live) if live else (created[-1] if created else 1)
                    elif target == 'oldest':
                        r['uid'] = min(live) if live else 1
                obs = grid.cell(drv, r, ver, observe_store(drv), desc='history', history=list(history))
                history.append(jsonable(r))
                if obs['status'] == 'SUCCESS' and obs.get('payload'):
                    p = obs['payload']
                    for key in ('unique_identifier', 'private_key_unique_identifier'):
                        if r['op'] in ('Create', 'Register', 'CreateKeyPair', 'DeriveKey') and p.get(key) is not None:
                            created.append(int(str(p[key])))
        finally:
            drv.close()


def batch_creators(base_uid):
    """(name, creating request, expected to succeed?) - shapes of the four creating operations that actually succeed, one per
    stored class, plus one that fails (the placeholder then stays unset)."""
    A, L, M = 'Cryptographic Algorithm', 'Cryptographic Length', 'Cryptographic Usage Mask'
    hp = {'hashing_algorithm': HASH.SHA_256}
    out = [('Create', {'op': 'Create', 'otype': 'SYMMETRIC_KEY', 'ta': tmpl(A, L, {'name': M, 'val': ALL_MASK}, 'Name')}),
           ('CreateKeyPair', {'op': 'CreateKeyPair', 'common': tmpl({'name': A, 'val': ALG.RSA}, {'name': L, 'val': 1024}),
                              'private': tmpl({'name': M, 'val': ALL_MASK}), 'public': tmpl({'name': M, 'val': ALL_MASK})}),
           ('DeriveKey.key', {'op': 'DeriveKey', 'otype': 'SYMMETRIC_KEY', 'uids': [base_uid], 'method': 'HASH', 'dp': {'params': hp}, 'ta': DERIVE_TA}),
           ('DeriveKey.secret', {'op': 'DeriveKey', 'otype': 'SECRET_DATA', 'uids': [base_uid], 'method': 'PBKDF2',
                                 'dp': {'params': hp, 'salt': b'salt', 'iterations': 2}, 'ta': tmpl(L, M)}),
           ('Create.fails', {'op': 'Create', 'otype': 'SYMMETRIC_KEY', 'ta': tmpl(A, L)})]
    for t in TYPE_NAMES:
        ta = tmpl('Name') if t == 'OPAQUE_DATA' else tmpl({'name': M, 'val': ALL_MASK}, 'Name')
        out.append(('Register.' + t, {'op': 'Register', 'otype': t, 'secret': {'type': t}, 'ta': ta}))
    return out


def batch_followers(ver):
    """Operations that take their target from the ID placeholder when the Unique Identifier is left out."""
    out = [{'op': 'Get'}, {'op': 'Activate'}, {'op': 'Get', 'kft': 'RAW'}, {'op': 'GetAttributes', 'names': None},
           {'op': 'GetAttributes', 'names': ['Name', 'State']}, {'op': 'GetAttributeList'},
           {'op': 'Revoke', 'code': 'KEY_COMPROMISE'}, {'op': 'Revoke', 'code': 'CESSATION_OF_OPERATION'}, {'op': 'Destroy'}]
    if ver >= (1, 2):
        out += [{'op': 'Encrypt', 'params': SYM_PARAMS[2], 'iv': None, 'data': b'abc'}, {'op': 'Decrypt', 'params': SYM_PARAMS[2], 'iv': b'\x01' * 16, 'data': b'\x07' * 16},
                {'op': 'Sign', 'params': SIGN_PARAMS[2], 'data': b'msg'}, {'op': 'SignatureVerify', 'params': SIGN_PARAMS[2], 'data': b'msg', 'signature': b'\x01' * 128},
                {'op': 'MAC', 'params': {'cryptographic_algorithm': ALG.HMAC_SHA256}, 'data': b'data'}]
    if ver < (2, 0):
        out += [{'op': 'ModifyAttribute1', 'attr': {'name': 'Name', 'index': 0, 'val': kdrv.name_value('renamed')}},
                {'op': 'ModifyAttribute1', 'attr': {'name': 'x-custom', 'index': None}},
                {'op': 'DeleteAttribute1', 'name': 'Name', 'index': 0}, {'op': 'DeleteAttribute1', 'name': 'State', 'index': None}]
    else:
        out += [{'op': 'SetAttribute', 'attr': {'name': 'Sensitive'}}, {'op': 'ModifyAttribute2', 'attr': {'name': 'Sensitive', 'val': False}, 'current': None},
                {'op': 'DeleteAttribute2', 'current': None, 'ref': 'Name'}, {'op': 'DeleteAttribute2', 'current': {'name': 'Name'}, 'ref': None}]
    return out


def run_batches(grid, ctx, ver, rng, sample):
    """The batch dimension: one request = [creating operation, operation without Unique Identifier (, a third one)].  The
    creating request is first sent alone (objects N1), then inside the batch (objects N2, same summaries, new identifiers);
    the model sees item 2 with the placeholder filled in over the store 'before the batch + N2'."""
    drv = Driver(ctx)
    try:
        followers = batch_followers(ver)
        for cname, creq in batch_creators(0):
            fs = followers if sample is None else ([followers[0], followers[1]] + rng.sample(followers[2:], min(sample, len(followers) - 2)))
            for k, f in enumerate(fs):
                option = [None, enums.BatchErrorContinuationOption.CONTINUE, enums.BatchErrorContinuationOption.STOP][(k + len(cname)) % 3]
                drv.reset()
                base = add_object(drv, obj_spec('SYMMETRIC_KEY', 'Active', 'all'), 1)
                creq = dict(dict(batch_creators(int(base)))[cname])
                s0 = observe_store(drv)
                solo = grid.cell(drv, creq, ver, s0, desc='batch.solo')
                s1 = observe_store(drv)
                n1 = sorted(o['uid'] for o in s1 if o['uid'] not in {x['uid'] for x in s0})
                third = {'op': 'Encrypt', 'params': SYM_PARAMS[2], 'iv': None, 'data': b'abc'} if (f['op'] == 'Activate' and ver >= (1, 2)) else None
                reqs = [creq, dict(f)] + ([third] if third else [])
                obs = drv.run_batch([mk_item(r) for r in reqs], ver, 'alice', option)
                ctx.count('batch.%s.%s.%s' % (cname, f['op'], option.name if option else 'default'))
                wb = {'items': [jsonable(r) for r in reqs], 'option': option.name if option else None}
                if obs[0]['status'] == 'REQUEST_ERROR':
                    ctx.disagreement('grid', {'batch': wb, 'error': obs[0]}, impl_says='request-level error for a well-formed batch')
                    continue
                # item 1
                grid.record(creq, ver, with_access(drv, s1, 'alice', creq['op']), obs[0], desc='batch.item1', batch=wb)
                placeholder, s2 = None, s1
                if obs[0]['status'] == 'SUCCESS':
                    p = obs[0]['payload'] or {}
                    new = sorted(int(str(p[key])) for key in ('unique_identifier', 'public_key_unique_identifier', 'private_key_unique_identifier')
                                 if p.get(key) is not None)
                    placeholder = int(str(p.get('private_key_unique_identifier') or p.get('unique_identifier')))
                    if len(new) != len(n1):
                        ctx.disagreement('grid', {'batch': wb}, impl_says='the creating item made %d objects, alone it made %d' % (len(new), len(n1)))
                        continue
                    by_uid = {o['uid']: o for o in s1}
                    s2 = s1 + [dict(by_uid[a], uid=b) for a, b in zip(n1, new)]
                # item 2 (not answered when item 1 failed under Stop)
                if len(obs) > 1:
                    creq2 = dict(f, uid=placeholder)
                    grid.record(dict(f), ver, with_access(drv, s2, 'alice', f['op']), obs[1], desc='batch.item2', coq_req=creq2, batch=wb)
                    if third and len(obs) > 2 and obs[1]['status'] == 'SUCCESS':
                        s3 = [dict(o, state=2) if o['uid'] == placeholder else o for o in s2]
                        grid.record(dict(third), ver, with_access(drv, s3, 'alice', 'Encrypt'), obs[2], desc='batch.item3',
                                    coq_req=dict(third, uid=placeholder), batch=wb)
                    elif f['op'] not in MUTATING or obs[1]['status'] != 'SUCCESS':
                        after = observe_store(drv)
                        if [(o['uid'], o['cls'], o['state']) for o in after] != [(o['uid'], o['cls'], o['state']) for o in s2]:
                            ctx.disagreement('grid', {'batch': wb, 'expected_store': s2, 'observed_store': after},
                                             impl_says='the store after the batch is not the one the batch model assumed')
                elif not (obs[0]['status'] != 'SUCCESS' and option != enums.BatchErrorContinuationOption.CONTINUE):
                    ctx.disagreement('grid', {'batch': wb}, impl_says='item 2 was not answered although item 1 succeeded or the option is Continue')
    finally:
        drv.close()


def run_random(grid, ctx, rng, rounds, per_round):
    """Seeded random well-typed requests over random stores (two identities)."""
    for k in range(rounds):
        drv = Driver(ctx)
        try:
            ver = rng.choice(kdrv.VERSIONS)
            n = rng.randint(3, 8)
            uids = []
            for i in range(n):
                t = rng.choice(TYPE_NAMES)
                spec = obj_spec(t, rng.choice(STATES if t != 'OPAQUE_DATA' else ['PreActive', 'Destroyed']), rng.choice(['all', 'all', 'none']),
                                names=rng.randint(0, 2), asi=rng.randint(0, 1), groups=rng.randint(0, 1), owner=rng.choice(['alice', 'alice', 'bob']),
                                how=rng.choice(['register', 'create']))
                uids.append(add_object(drv, spec, 10 + i))
            for j in range(per_round):
                user = rng.choice(['alice', 'alice', 'bob'])
                store = observe_store(drv, user)
                live = [o['uid'] for o in store]
                kind = rng.random()
                if kind < 0.70:
                    u = rng.choice(uids + [None, 777])
                    menu = target_menu(u, ver, wrap_uids=rng.sample(live, min(2, len(live))))
                elif kind < 0.80 and live:
                    menu = derive_menu(rng.sample(live, min(3, len(live))))
                elif kind < 0.90:
                    menu = locate_menu()
                else:
                    menu = global_menu(ver)
                grid.cell(drv, rng.choice(menu), ver, store, user=user, desc='random')
        finally:
            drv.close()


# minimised past disagreements / regression cells, run first in every tier: (version, target type, state, request without uid)
CORPUS = [
    ((1, 2), 'OPAQUE_DATA', 'PreActive', {'op': 'MAC', 'params': {'cryptographic_algorithm': ALG.HMAC_SHA256}, 'data': b'd'}),
    ((1, 2), 'CERTIFICATE', 'Active', {'op': 'MAC', 'params': {'cryptographic_algorithm': ALG.HMAC_SHA256}, 'data': b'd'}),
    ((1, 0), 'SYMMETRIC_KEY', 'PreActive', {'op': 'ModifyAttribute1', 'attr': {'name': 'Cryptographic Parameters', 'index': None}}),
    ((1, 4), 'SYMMETRIC_KEY', 'PreActive', {'op': 'ModifyAttribute1', 'attr': {'name': 'x-custom', 'index': None}}),
    ((2, 0), 'SECRET_DATA', 'Active', {'op': 'DeleteAttribute2', 'current': {'name': 'Name'}, 'ref': None}),
    ((2, 0), 'SECRET_DATA', 'Active', {'op': 'DeleteAttribute2', 'current': None, 'ref': 'x-custom'}),
    ((2, 0), 'PUBLIC_KEY', 'Active', {'op': 'SetAttribute', 'attr': {'name': 'Always Sensitive'}}),
    ((1, 3), 'CERTIFICATE', 'PreActive', {'op': 'Get', 'kft': 'RAW'}),
    ((2, 0), 'SYMMETRIC_KEY', 'Active', {'op': 'GetAttributes', 'names': ['Bogus Name']}),
    ((1, 4), 'SYMMETRIC_KEY', 'Active', {'op': 'GetAttributes', 'names': ['Bogus Name']}),
    ((2, 0), 'OPAQUE_DATA', 'PreActive', {'op': 'GetAttributes', 'names': ['State', 'Cryptographic Usage Mask']}),
    ((1, 1), 'SYMMETRIC_KEY', 'Active', {'op': 'ModifyAttribute1', 'attr': {'name': 'Cryptographic Parameters', 'index': -1}}),
    ((1, 1), 'SYMMETRIC_KEY', 'Active', {'op': 'ModifyAttribute1', 'attr': {'name': 'Name', 'index': -1}}),
    # witnesses of the findings still known (replayed on every run, DESIGN section 4)
    ((1, 2), 'SYMMETRIC_KEY', 'Active', {'op': 'Encrypt', 'params': SYM_PARAMS[2], 'iv': b'\x01' * 8, 'data': b'abc'}),
    ((1, 2), 'SYMMETRIC_KEY', 'Active', {'op': 'Decrypt', 'params': SYM_PARAMS[2], 'iv': b'\x01' * 16, 'data': b'\x07' * 5}),
    ((1, 2), 'SYMMETRIC_KEY', 'Active', {'op': 'Decrypt', 'params': SYM_PARAMS[2], 'iv': b'\x01' * 16, 'data': b'\x07' * 16}),
    ((1, 4), 'SYMMETRIC_KEY', 'Active', {'op': 'Decrypt', 'params': SYM_PARAMS[6], 'iv': b'\x01' * 12, 'data': b'abc', 'aad': b'aad', 'tag': b'\x00' * 16}),
    ((1, 2), 'PRIVATE_KEY', 'Active', {'op': 'Sign', 'params': SIGN_PARAMS[6], 'data': b'msg'}),
    ((1, 2), 'SYMMETRIC_KEY', 'Active', {'op': 'DeriveKey', 'otype': 'SYMMETRIC_KEY', 'uids': 'TARGET', 'method': 'PBKDF2',
                                         'dp': {'params': {'hashing_algorithm': HASH.SHA_256}, 'salt': b'salt', 'iterations': 0}, 'ta': DERIVE_TA}),
    ((1, 2), 'SYMMETRIC_KEY', 'Active', {'op': 'DeriveKey', 'otype': 'SYMMETRIC_KEY', 'uids': 'TARGET', 'method': 'ENCRYPT',
                                         'dp': {'params': SYM_PARAMS[2], 'data': b'\x01' * 16, 'iv': b'\x02' * 8}, 'ta': DERIVE_TA}),
    ((1, 2), 'SYMMETRIC_KEY', 'Active', {'op': 'DeriveKey', 'otype': 'SYMMETRIC_KEY', 'uids': 'TARGET', 'method': 'ENCRYPT',
                                         'dp': {'params': SYM_PARAMS[2]}, 'ta': DERIVE_TA}),
    ((1, 2), 'SYMMETRIC_KEY', 'Active', {'op': 'Encrypt', 'params': {'cryptographic_algorithm': ALG.RC4, 'block_cipher_mode': MODE.CBC,
                                                                      'padding_method': PAD.PKCS5}, 'iv': None, 'data': b'abc'}),
    ((1, 2), 'SYMMETRIC_KEY', 'Active', {'op': 'Decrypt', 'params': {'cryptographic_algorithm': ALG.RC4, 'block_cipher_mode': MODE.GCM,
                                                                      'tag_length': 16}, 'iv': None, 'data': b'abc', 'tag': b'\x00' * 16}),
    ((1, 2), 'PRIVATE_KEY', 'Active', {'op': 'Sign', 'params': {'digital_signature_algorithm': enums.DigitalSignatureAlgorithm.ECDSA_WITH_SHA256,
                                                                  'padding_method': PAD.PSS}, 'data': b'msg'}),
    ((1, 2), 'SYMMETRIC_KEY', 'Active', {'op': 'Encrypt', 'params': SYM_PARAMS[5], 'iv': b'\x01' * 16, 'data': b''}),
    ((1, 4), 'SYMMETRIC_KEY', 'Active', {'op': 'Encrypt', 'params': {'cryptographic_algorithm': ALG.RC4}, 'iv': None, 'data': b''}),
    ((1, 2), 'SYMMETRIC_KEY', 'Active', {'op': 'Decrypt', 'params': SYM_PARAMS[5], 'iv': b'\x01' * 16, 'data': b''}),
    ((1, 2), 'SYMMETRIC_KEY', 'Active', {'op': 'Locate', 'attrs': [{'name': 'Initial Date', 'val': 2 ** 62}]}),
    ((1, 2), 'SYMMETRIC_KEY', 'Active', {'op': 'Locate', 'attrs': [{'name': 'Initial Date', 'val': -2 ** 62}, {'name': 'Initial Date', 'val': 5}]}),
    # Register family (no stored target)
    ((1, 2), None, None, {'op': 'Register', 'otype': 'SYMMETRIC_KEY', 'secret': {'type': 'SYMMETRIC_KEY', 'missing': 'alg'}, 'ta': {'attrs': [], 'tnames': False}}),
    ((1, 4), None, None, {'op': 'Register', 'otype': 'PRIVATE_KEY', 'secret': {'type': 'PRIVATE_KEY', 'missing': 'value'}, 'ta': {'attrs': [], 'tnames': False}}),
    ((2, 0), None, None, {'op': 'Register', 'otype': 'SPLIT_KEY', 'secret': {'type': 'SPLIT_KEY', 'missing': 'len'}, 'ta': {'attrs': [], 'tnames': False}}),
    ((1, 0), None, None, {'op': 'Register', 'otype': 'SPLIT_KEY', 'secret': {'type': 'SPLIT_KEY', 'missing': 'value'}, 'ta': {'attrs': [], 'tnames': False}}),
    ((1, 2), None, None, {'op': 'Register', 'otype': 'SPLIT_KEY', 'secret': {'type': 'SPLIT_KEY', 'pfs': 2 ** 63}, 'ta': {'attrs': [], 'tnames': False}}),
    ((1, 2), None, None, {'op': 'Register', 'otype': 'SPLIT_KEY', 'secret': {'type': 'SPLIT_KEY', 'pfs': 2 ** 63 - 1}, 'ta': {'attrs': [], 'tnames': False}}),
    ((1, 2), None, None, {'op': 'Get', 'uid': 2 ** 63}),
    ((2, 0), None, None, {'op': 'Destroy', 'uid': 10 ** 30}),
]


def run_corpus(grid, ctx):
    for ver, t, st, req in CORPUS:
        drv = Driver(ctx)
        try:
            r = dict(req)
            if t is None:
                grid.cell(drv, r, ver, observe_store(drv), desc='corpus')
                continue
            uid = add_object(drv, obj_spec(t, st, 'all', names=1), 1)
            if r.get('uids') == 'TARGET':
                r['uids'] = [uid]
            else:
                r['uid'] = uid
            grid.cell(drv, r, ver, observe_store(drv), desc='corpus')
        finally:
            drv.close()


def run(ctx):
    quick = ctx.tier == 'quick'
    ctx.cov['rule'] = (
        'grid: operation (21 + both wire forms of Modify/DeleteAttribute) x stored class (7, made with Register / Create / CreateKeyPair) '
        'x lifecycle state (PreActive, Active, Deactivated, Compromised, Destroyed id) x KMIP version (6) x parameter menu (valid; optional '
        'absent; inapplicable to the type; every attribute name the library can construct, names without a rule set, custom names; '
        'unsupported algorithm / mode / padding / hash; IV absent, right and wrong length; index absent, 0, in range, out of range; '
        'wrapping specification variants; template variants) + targets without mask / foreign owner / empty value / absent, unknown and '
        'non-numeric ids + DeriveKey over every stored class + Locate over a full store under three identities + seeded random requests '
        'over random stores.  quick = stratified sample (every operation kind on every target in every version), thorough = full grid.  '
        'A case is distinct after abstraction to (version, observed store summary, abstract request, crypto-engine outcome, observed site); '
        'all cases are non-trivial in that they execute a real handler on a real SQLite store.')
    ctx.cov['trusted_extra'] = [
        'harness/c13.py: abstraction of concrete requests to NoCrash.Model.item (coq_item), observation of the store through the engine\'s own ORM classes',
        'the CryptographyEngine outcome (ok / KmipError / other exception) is an oracle input of the model, observed by wrapping its methods',
        'translate/gen_pieclasses.py reflection (hasattr on mapped classes, ObjectFactory.convert on canonical secrets, AttributePolicy probes)']
    # findings.d/C13.json is merged into known_findings.json by the integrator (bin/mkmanifest); until then read it directly
    import vlib.core as _core
    have = {f.get('id') for f in ctx.findings}
    fpath = _core.VERIF / 'findings.d' / 'C13.json'
    if fpath.exists():
        ctx.findings += [f for f in json.loads(fpath.read_text()) if f.get('property') == 'C13' and f.get('id') not in have]
    ctx.regen(only=['attrrules', 'pieclasses', 'enums'])
    ctx.prove('props/C13.v', extra_targets=['theories/NoCrash/Cases.v'])    # the comparator must build even when a proof breaks
    grid = Grid(ctx)
    rng = ctx.subrng('grid')
    run_corpus(grid, ctx)
    sample = (1, 6) if quick else None
    for ver in kdrv.VERSIONS:
        drv = Driver(ctx)
        try:
            for t, st in TARGETS:
                run_target(grid, drv, ver, t, st, rng, sample)
        finally:
            drv.close()
        run_aux(grid, ctx, ver, rng, (1, 4) if quick else None)
        run_global(grid, ctx, ver, rng, (1, 10) if quick else None)
        ctx.log('version %d.%d done: %d cells, %d distinct cases, %d GENERAL_FAILURE' % (ver[0], ver[1], grid.cells, len(grid.cases), grid.crashes))
    brng = ctx.subrng('batches')
    for ver in (sorted(brng.sample(kdrv.VERSIONS, 3)) if quick else kdrv.VERSIONS):
        run_batches(grid, ctx, ver, brng, 2 if quick else None)
    ctx.log('batches done: %d cells' % grid.cells)
    sweep_versions = [ctx.subrng('sweep').choice([(1, 2), (1, 3), (1, 4), (2, 0)])] if quick else [(1, 0), (1, 2), (1, 3), (1, 4), (2, 0)]
    for ver in sweep_versions:
        run_sweep(grid, ctx, ver)
    run_pairs(grid, ctx, ctx.subrng('pairs'), 120 if quick else None)
    run_credentials(grid, ctx, ctx.subrng('credentials'))
    run_old_store(grid, ctx)
    run_freetext(grid, ctx, ctx.subrng('freetext'), 2 if quick else None)
    run_foreign_material(grid, ctx, ctx.subrng('foreign'), 0 if quick else None)
    run_histories(grid, ctx, ctx.subrng('histories'), 6 if quick else 60)
    run_random(grid, ctx, ctx.subrng('random'), 12 if quick else 60, 40 if quick else 120)
    ctx.log('cells %d, distinct cases %d, stores %d, GENERAL_FAILURE cells %d' % (grid.cells, len(grid.cases), len(grid.stores), grid.crashes))
    ctx.cov['cells'] = grid.cells
    ctx.cov['general_failure_cells'] = grid.crashes
    bad = grid.compare('grid')
    if bad:
        for i in bad[:40]:
            m = grid.meta[i]
            ctx.log('DISAGREE', m['version'], json.dumps(m['request'])[:300], '| impl:', m['observed']['reason'],
                    site_string(m['observed']['crash']), m['observed']['crypto'], '| model:', m.get('model_says'), '| target:',
                    [o for o in m['store'] if str(o['uid']) == str(m['request'].get('uid'))][:1])
    for i in (0, len(grid.cases) // 3, 2 * len(grid.cases) // 3):
        if i < len(grid.cases):
            ctx.sample({'request': grid.meta[i]['request'], 'version': grid.meta[i]['version'], 'observed': grid.meta[i]['observed'],
                        'coq_case': grid.cases[i][:600]})


# ---------------------------------------------------------------------------------------------- replay
def _unjson(x):
    """Inverse of `jsonable` for the request part of a witness."""
    if isinstance(x, dict):
        return {k: _unjson(v) for k, v in x.items()}
    if isinstance(x, list):
        return [_unjson(v) for v in x]
    if isinstance(x, str):
        if x.startswith('hex:'):
            return bytes.fromhex(x[4:])
        if x.startswith('Name:'):
            return kdrv.name_value(x[5:])
        if '.' in x:
            cls, _, member = x.partition('.')
            e = getattr(enums, cls, None)
            if e is not None and hasattr(e, member):
                return e[member]
    return x


def replay(ctx, data):
    """bin/check C13 --replay <file>: rebuilds a store like the recorded one, sends the recorded request, applies the oracle."""
    w = data.get('input')
    if w is None and data.get('first_disagreeing_cases'):
        w = data['first_disagreeing_cases'][0]['case']['input']
    if w is None:
        print('replay file holds no concrete input (broken obligation without failing input): re-run bin/check C13')
        return 2
    if w.get('setup') is not None:
        class Sink:
            work = ctx.work

            def violation(self, sig, witness, what):
                print('VIOLATION property=C13 replay reproduces: %s' % what)
        drv = Driver(Sink())
        try:
            for spec, k in w['setup']:
                add_object(drv, spec, k)
            print('replay does not reproduce: the store set-up succeeded')
            return 0
        except SetupFailed as e:
            print(str(e)[:300])
            return 1
        finally:
            drv.close()
    req = _unjson(w['request'])
    for k in ('versions',):
        if k in req:
            req[k] = tuple(tuple(v) for v in req[k])
    ver = tuple(w['version'])
    user = w.get('user', 'alice')
    drv = Driver(ctx)
    try:
        states = {1: 'PreActive', 2: 'Active', 3: 'Deactivated', 4: 'Compromised', None: 'PreActive'}
        uidmap = {}
        history = w.get('history')
        auth = None
        if history and isinstance(history[-1], dict) and 'request_header_authentication' in history[-1]:
            auth = history[-1]['request_header_authentication']
            history = history[:-1] or None
        if history and isinstance(history[0], dict) and 'store_fixture' in history[0]:
            # the store is the SQL dump kept next to the harness (written by an earlier build of the tree)
            import sqlite3
            from pathlib import Path
            drv.eng.engine._data_store.dispose()
            try:
                os.unlink(drv.eng.path)
            except OSError:
                pass
            con = sqlite3.connect(drv.eng.path)
            con.executescript((Path(__file__).resolve().parent / history[0]['store_fixture']).read_text())
            con.commit()
            con.close()
            drv.eng.restart()
            drv.attach()
            history = []
            print('  store loaded from harness/%s' % w['history'][0]['store_fixture'])
        if history and isinstance(history[0], dict) and 'store_setup' in history[0]:
            # the store is rebuilt from the recorded set-up specs (they say which key material each object holds)
            old = sorted(o['uid'] for o in w.get('store', []))
            new = [add_object(drv, spec, k) for spec, k in history[0]['store_setup']]
            uidmap.update({str(a): b for a, b in zip(old, new)})
            history = []
        if history is not None:
            # a history cell: redo the recorded steps on a fresh engine (identifiers are issued deterministically)
            for h in history:
                if h == 'RESTART':
                    drv.eng.restart()
                    drv.attach()
                else:
                    o = drv.run(mk_item(_unjson(h)), ver, user)
                    print('  history step %s -> %s %s' % (h.get('op'), o['status'], o['reason']))
        for k, o in enumerate(w.get('store', []) if history is None else []):
            tname = enums.ObjectType(o['otype']).name
            spec = obj_spec(tname, states.get(o['state'], 'Active'), 'all' if o['mask'] else 'none', names=len(o['names']),
                            asi=len(o['asi']), groups=len(o['groups']), owner=o.get('owner') or 'alice', empty=o.get('value_empty', False))
            uidmap[str(o['uid'])] = add_object(drv, spec, 300 + k)

        def remap(u):
            if str(u) in uidmap:
                return uidmap[str(u)]
            live = [o['uid'] for o in observe_store(drv)]
            if w.get('history') and u is not None and str(u).isdigit() and int(u) not in live and live:
                print('  identifier %s of the recording does not exist after redoing the history: using the newest object %s' % (u, max(live)))
                return max(live)
            return u
        if 'uid' in req:
            req['uid'] = remap(req['uid'])
        if 'uids' in req:
            req['uids'] = [remap(u) for u in req['uids']]
        if req.get('wrap'):
            for part in ('eki', 'mski'):
                if req['wrap'].get(part):
                    req['wrap'][part]['uid'] = remap(req['wrap'][part]['uid'])
        if w.get('batch'):
            b = w['batch']
            reqs = [_unjson(x) for x in b['items']]
            for r in reqs:
                if 'uids' in r:
                    r['uids'] = [remap(u) for u in r['uids']]
            opt = enums.BatchErrorContinuationOption[b['option']] if b.get('option') else None
            outs = drv.run_batch([mk_item(r) for r in reqs], ver, user, opt)
            bad = 0
            for r, o in zip(reqs, outs):
                st = observed_site(o)
                print('  batch item %s: status=%s reason=%s site=%s' % (r['op'], o['status'], o['reason'], st))
                bad += st is not None
            if bad:
                print('VIOLATION property=C13 replay reproduces: a batch item reached the internal-error path')
                return 1
            print('replay does not reproduce: no internal error')
            return 0
        obs = drv.run(mk_item(req), ver, user, auth=mk_auth(auth))
        site = observed_site(obs)
        print('replayed %s under KMIP %d.%d as %s: status=%s reason=%s site=%s crypto=%s' % (
            req['op'], ver[0], ver[1], user, obs['status'], obs['reason'], site, obs['crypto']))
        if site is not None:
            print('VIOLATION property=C13 replay reproduces: the internal-error path is reached at %s' % site)
            return 1
        print('replay does not reproduce: no internal error')
        return 0
    finally:
        drv.close()
