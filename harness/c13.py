"""C13 - well-formed requests never hit the server's internal-error path (never answer GENERAL_FAILURE).

Tie T : translate/gen_pieclasses.py  -> coq/gen/PieClasses.v   (class/attribute table, object map, policy-query probes)
        translate/gen_attrrules.py   -> coq/gen/AttrRuleTable.v
Tie K : the grid operation x stored type x state x version x parameter menu (+ seeded random requests over random
        stores) is run against the real KmipEngine; Coq (NoCrash/Cases.v, `check_case`) compares the crash site the
        model predicts with the site observed (innermost /repo frame + exception class of the traceback logged with
        'Error occurred while processing operation.').
Oracle: result_reason == GENERAL_FAILURE on any cell is a violation unless it matches a findings.d/C13.json signature.
"""
import itertools
import json
import logging
import traceback

import kdrv
from kdrv import OT, OP, AT, enums
from kmip.core import objects as cobjects, attributes as cattrs, primitives, secrets
from kmip.core.messages import payloads, contents
from kmip.core.factories import attributes as attr_factory
from kmip.pie import objects as pobjects
from vlib import coqprint as cp

E = enums
ALG = enums.CryptographicAlgorithm
MODE = enums.BlockCipherMode
PAD = enums.PaddingMethod
HASH = enums.HashingAlgorithm
KFT = enums.KeyFormatType
UM = enums.CryptographicUsageMask
ST = enums.State

ALL_MASK = [UM.ENCRYPT, UM.DECRYPT, UM.SIGN, UM.VERIFY, UM.MAC_GENERATE, UM.MAC_VERIFY, UM.DERIVE_KEY, UM.WRAP_KEY, UM.UNWRAP_KEY]
TYPE_NAMES = ['SYMMETRIC_KEY', 'PUBLIC_KEY', 'PRIVATE_KEY', 'SPLIT_KEY', 'CERTIFICATE', 'SECRET_DATA', 'OPAQUE_DATA']
STATES = ['PreActive', 'Active', 'Deactivated', 'Compromised', 'Destroyed']

_RSA = {}


def rsa_material():
    """One real RSA-1024 key pair (DER PKCS#1 private, DER PKCS#1 public) generated once per process, deterministic file cache not needed."""
    if not _RSA:
        from cryptography.hazmat.primitives.asymmetric import rsa
        from cryptography.hazmat.primitives import serialization as ser
        from cryptography.hazmat.backends import default_backend
        k = rsa.generate_private_key(public_exponent=65537, key_size=1024, backend=default_backend())
        _RSA['priv'] = k.private_bytes(ser.Encoding.DER, ser.PrivateFormat.TraditionalOpenSSL, ser.NoEncryption())
        _RSA['pub'] = k.public_key().public_bytes(ser.Encoding.DER, ser.PublicFormat.PKCS1)
    return _RSA


# ---------------------------------------------------------------------------------------------- capture of the internal-error path
class Capture(logging.Handler):
    """Collects the WARNING 'Error occurred while processing operation.' and the traceback record that follows it."""
    def __init__(self):
        logging.Handler.__init__(self, level=logging.WARNING)
        self.warnings = 0
        self.sites = []

    def emit(self, record):
        if record.levelno == logging.WARNING and record.getMessage() == 'Error occurred while processing operation.':
            self.warnings += 1
        if record.exc_info and record.exc_info[1] is not None and record.name == 'kmip.server.engine':
            et, ev, tb = record.exc_info
            frames = traceback.extract_tb(tb)
            site = None
            for fr in frames:
                fn = fr.filename.replace('\\', '/')
                if '/kmip/' in fn and '/site-packages/' not in fn:
                    site = '%s:%s' % (fn.split('/kmip/', 1)[1], fr.name)
            self.sites.append({'site': site, 'exc': et.__name__, 'msg': str(ev)[:160], 'line': frames[-1].lineno if frames else None})

    def reset(self):
        self.warnings = 0
        self.sites = []


class Driver:
    """A kdrv.Engine with the C13 instrumentation attached from outside: WARNING capture and crypto-engine call tracing."""
    def __init__(self, ctx):
        self.eng = kdrv.Engine(workdir=ctx.work)
        self.cap = Capture()
        self.attach()

    def attach(self):
        lg = self.eng.engine._logger
        lg.setLevel(logging.WARNING)
        lg.propagate = False
        for h in list(lg.handlers):
            if isinstance(h, Capture):
                lg.removeHandler(h)
        lg.addHandler(self.cap)
        logging.getLogger('kmip.server.engine.cryptography').setLevel(logging.CRITICAL + 1)
        self.crypto_calls = []
        ce = self.eng.engine._cryptography_engine
        ce.logger.setLevel(logging.CRITICAL + 1)
        for name in ('create_symmetric_key', 'create_asymmetric_key_pair', 'mac', 'encrypt', 'decrypt', 'derive_key',
                     'wrap_key', 'sign', 'verify_signature'):
            orig = getattr(type(ce), name)

            def wrapper(*a, _orig=orig, _name=name, **kw):
                depth = getattr(self, '_depth', 0)
                self._depth = depth + 1
                try:
                    r = _orig(ce, *a, **kw)
                    if depth == 0:
                        self.crypto_calls.append((_name, 'ok'))
                    return r
                except kdrv.kexc.KmipError:
                    if depth == 0:
                        self.crypto_calls.append((_name, 'kmip'))
                    raise
                except Exception as e:
                    if depth == 0:
                        self.crypto_calls.append((_name, 'exc:' + type(e).__name__))
                    raise
                finally:
                    self._depth = depth
            setattr(ce, name, wrapper)

    def close(self):
        self.eng.engine._logger.removeHandler(self.cap)
        self.eng.close()

    def run(self, item, version=(1, 2), user='alice'):
        """-> observation dict {status, reason, crash: None | {site, exc}, crypto: [(fn, outcome)], warned}"""
        self.cap.reset()
        self.crypto_calls = []
        r = self.eng.request([item], version=version, user=user)
        if r['error'] is not None:
            return {'status': 'REQUEST_ERROR', 'reason': r['error']['reason'], 'crash': None, 'crypto': list(self.crypto_calls),
                    'warned': self.cap.warnings, 'message': r['error']['message']}
        it = r['items'][0]
        crash = None
        if it['reason'] == 'GENERAL_FAILURE':
            crash = dict(self.cap.sites[-1]) if self.cap.sites else {'site': None, 'exc': None}
        return {'status': it['status'], 'reason': it['reason'], 'crash': crash, 'crypto': list(self.crypto_calls),
                'warned': self.cap.warnings, 'message': it['message'], 'payload': it['payload']}


# ---------------------------------------------------------------------------------------------- stores
def obj_spec(otype, state='PreActive', mask='all', names=1, asi=0, groups=0, owner='alice', how='register', empty=False):
    return {'type': otype, 'state': state, 'mask': mask, 'names': names, 'asi': asi, 'groups': groups, 'owner': owner,
            'how': how, 'empty': empty}


def _common_attrs(spec, k):
    a = []
    for i in range(spec['names']):
        a.append(kdrv.attr(AT.NAME, kdrv.name_value('n%d_%d' % (k, i)), i))
    for i in range(spec['asi']):
        a.append(kdrv.attr(AT.APPLICATION_SPECIFIC_INFORMATION, {'application_namespace': 'ns%d' % i, 'application_data': 'd%d' % k}, i))
    for i in range(spec['groups']):
        a.append(kdrv.attr(AT.OBJECT_GROUP, 'g%d' % i, i))
    return a


def _secret(otype, empty=False):
    t = OT[otype]
    rsa = rsa_material()
    if empty:
        if otype == 'SECRET_DATA':
            return kdrv.core_secret(t, key_format_type=KFT.OPAQUE, key_value=b'', secret_data_type=enums.SecretDataType.PASSWORD)
        if otype == 'OPAQUE_DATA':
            return kdrv.core_secret(t, opaque_data_type=enums.OpaqueDataType.NONE, opaque_data_value=b'')
        if otype == 'CERTIFICATE':
            return kdrv.core_secret(t, certificate_type=enums.CertificateType.X_509, certificate_value=b'')
    if otype == 'PUBLIC_KEY':
        return kdrv.core_secret(t, cryptographic_algorithm=ALG.RSA, cryptographic_length=1024, key_format_type=KFT.PKCS_1,
                                key_value=rsa['pub'], key_wrapping_data=None)
    if otype == 'PRIVATE_KEY':
        return kdrv.core_secret(t, cryptographic_algorithm=ALG.RSA, cryptographic_length=1024, key_format_type=KFT.PKCS_1,
                                key_value=rsa['priv'], key_wrapping_data=None)
    return kdrv.secret_for(t)


def add_object(drv, spec, k):
    """Creates one stored object per the spec through the engine's own operations; returns its uid (string) or None."""
    eng = drv.eng
    user = spec['owner']
    mask = ALL_MASK if spec['mask'] == 'all' else []
    otype = spec['type']
    extra = _common_attrs(spec, k)
    if spec['how'] == 'create' and otype == 'SYMMETRIC_KEY':
        item = kdrv.create(ALG.AES, 128, mask, extra=extra)
    elif spec['how'] == 'create' and otype in ('PUBLIC_KEY', 'PRIVATE_KEY'):
        item = kdrv.create_key_pair(ALG.RSA, 1024, private=[kdrv.attr(AT.CRYPTOGRAPHIC_USAGE_MASK, mask)] + extra,
                                    public=[kdrv.attr(AT.CRYPTOGRAPHIC_USAGE_MASK, mask)] + _common_attrs(spec, k + 500))
    else:
        attrs = list(extra)
        if otype != 'OPAQUE_DATA' and mask:
            attrs.insert(0, kdrv.attr(AT.CRYPTOGRAPHIC_USAGE_MASK, mask))
        item = kdrv.register(OT[otype], secret=_secret(otype, spec.get('empty')), attrs=attrs)
    r = eng.request([item], user=user)
    it = r['items'][0]
    assert kdrv.ok(it), ('store setup failed', spec, it['reason'], it['message'])
    p = it['payload']
    if item[0] == OP.CREATE_KEY_PAIR:
        uid = str(p['public_key_unique_identifier'] if otype == 'PUBLIC_KEY' else p['private_key_unique_identifier'])
    else:
        uid = str(p['unique_identifier'])
    st = spec['state']
    if otype == 'OPAQUE_DATA':
        st = 'PreActive' if st != 'Destroyed' else st
    steps = {'PreActive': [], 'Active': [kdrv.activate(uid)],
             'Deactivated': [kdrv.activate(uid), kdrv.revoke(uid, enums.RevocationReasonCode.CESSATION_OF_OPERATION)],
             'Compromised': [kdrv.revoke(uid, enums.RevocationReasonCode.KEY_COMPROMISE)],
             'Destroyed': [kdrv.destroy(uid)]}[st]
    for s in steps:
        rr = eng.request([s], user=user)
        assert kdrv.ok(rr['items'][0]), ('store setup step failed', spec, rr['items'][0]['message'])
    return uid


def observe_store(drv, user='alice'):
    """Summary of every stored object as the engine's own ORM classes see it (fresh session) + whether `user` passes the
    default operation policy (owner only).  This is the `store` the Coq model receives."""
    eng = drv.eng.engine
    out = []
    session = eng._data_store_session_factory()
    try:
        for o in session.query(pobjects.ManagedObject).order_by(pobjects.ManagedObject.unique_identifier).all():
            masks = getattr(o, 'cryptographic_usage_masks', None)
            mval = 0
            for m in (masks or []):
                mval |= m.value
            st = getattr(o, 'state', None)
            kft = getattr(o, 'key_format_type', None)
            alg = getattr(o, 'cryptographic_algorithm', None)
            pol = o.operation_policy_name
            out.append({
                'uid': int(o.unique_identifier), 'cls': type(o).__name__, 'otype': o._object_type.value,
                'allowed': bool(o._owner == user) if pol == 'default' else None,
                'state': st.value if st is not None else None, 'mask': mval,
                'names': len(o.names), 'asi': len(o.app_specific_info), 'groups': len(o.object_groups),
                'value_empty': not bool(o.value), 'kft': kft.value if kft is not None else None,
                'alg': alg.value if alg is not None else None, 'sensitive': bool(o.sensitive)})
    finally:
        session.close()
    return out


# ---------------------------------------------------------------------------------------------- attribute menu
def _val(name):
    """A library-constructible value for every attribute name the AttributeFactory supports."""
    D = 1600000000
    table = {
        'Unique Identifier': '1', 'Name': kdrv.name_value('n0_0'), 'Object Type': OT.SYMMETRIC_KEY,
        'Cryptographic Algorithm': ALG.AES, 'Cryptographic Length': 128,
        'Cryptographic Parameters': {'block_cipher_mode': MODE.CBC}, 'Certificate Type': enums.CertificateType.X_509,
        'Certificate Length': 10, 'Digest': None, 'Operation Policy Name': 'default', 'Cryptographic Usage Mask': [UM.ENCRYPT],
        'Lease Time': 10, 'State': ST.ACTIVE, 'Initial Date': D, 'Activation Date': D, 'Process Start Date': D,
        'Protect Stop Date': D, 'Deactivation Date': D, 'Destroy Date': D, 'Compromise Occurrence Date': D,
        'Compromise Date': D, 'Archive Date': D, 'Object Group': 'g0', 'Fresh': True,
        'Application Specific Information': {'application_namespace': 'ns0', 'application_data': 'd0'},
        'Contact Information': 'c', 'Last Change Date': D, 'Custom Attribute': 'x', 'Sensitive': True,
        'Original Creation Date': D, 'Always Sensitive': True, 'Extractable': True, 'Never Extractable': True,
    }
    return table[name]


CONSTRUCTIBLE = ['Unique Identifier', 'Name', 'Object Type', 'Cryptographic Algorithm', 'Cryptographic Length',
                 'Cryptographic Parameters', 'Certificate Type', 'Certificate Length', 'Digest', 'Operation Policy Name',
                 'Cryptographic Usage Mask', 'Lease Time', 'State', 'Initial Date', 'Activation Date', 'Process Start Date',
                 'Protect Stop Date', 'Deactivation Date', 'Destroy Date', 'Compromise Occurrence Date', 'Compromise Date',
                 'Archive Date', 'Object Group', 'Fresh', 'Application Specific Information', 'Contact Information',
                 'Last Change Date', 'Custom Attribute', 'Sensitive', 'Original Creation Date', 'Always Sensitive',
                 'Extractable', 'Never Extractable']
UNKNOWN_NAMES = ['x-custom', 'y-vendor attr']
# names that exist in the protocol but whose values kmip.core cannot construct/decode: usable wherever only the NAME travels
NAME_ONLY = ['Cryptographic Domain Parameters', 'X.509 Certificate Identifier', 'X.509 Certificate Subject',
             'X.509 Certificate Issuer', 'Certificate Identifier', 'Certificate Subject', 'Certificate Issuer',
             'Digital Signature Algorithm', 'Usage Limits', 'Revocation Reason', 'Link', 'Alternative Name',
             'Key Value Present', 'Key Value Location']
AF = attr_factory.AttributeFactory()


def mk_attr(a):
    """a = {'name', 'index': None|int, 'val': optional override} -> kmip.core Attribute (1.x form)."""
    name = a['name']
    if name in CONSTRUCTIBLE:
        v = a.get('val', _val(name))
        return AF.create_attribute(enums.AttributeType(name), v, a.get('index'))
    return kdrv.raw_attr(name, primitives.TextString(a.get('val', 'v'), enums.Tags.ATTRIBUTE_VALUE), a.get('index'))


def mk_value2(a):
    """Bare attribute value carrying its own attribute tag (KMIP 2.0 New/CurrentAttribute content)."""
    name = a['name']
    v = AF.create_attribute(enums.AttributeType(name), a.get('val', _val(name))).attribute_value
    v.tag = enums.Tags[enums.AttributeType(name).name]
    return v


def mk_template(t, tag=enums.Tags.TEMPLATE_ATTRIBUTE):
    if t is None:
        return None
    ta = kdrv.template([mk_attr(a) for a in t['attrs']], tag)
    if t.get('tnames'):
        ta.names = [cattrs.Name.create('tmpl', enums.NameType.UNINTERPRETED_TEXT_STRING)]
    return ta


def mk_params(p):
    if p is None:
        return None
    return cattrs.CryptographicParameters(**{k: v for k, v in p.items()})


# ---------------------------------------------------------------------------------------------- abstract request -> payload
def uid_str(u):
    return None if u is None else str(u)


def mk_item(req):
    op = req['op']
    u = uid_str(req.get('uid'))
    if op == 'Create':
        return (OP.CREATE, payloads.CreateRequestPayload(object_type=OT[req['otype']], template_attribute=mk_template(req['ta'])))
    if op == 'CreateKeyPair':
        return (OP.CREATE_KEY_PAIR, payloads.CreateKeyPairRequestPayload(
            common_template_attribute=mk_template(req['common'], enums.Tags.COMMON_TEMPLATE_ATTRIBUTE),
            private_key_template_attribute=mk_template(req['private'], enums.Tags.PRIVATE_KEY_TEMPLATE_ATTRIBUTE),
            public_key_template_attribute=mk_template(req['public'], enums.Tags.PUBLIC_KEY_TEMPLATE_ATTRIBUTE)))
    if op == 'Register':
        return (OP.REGISTER, payloads.RegisterRequestPayload(object_type=OT[req['otype']], template_attribute=mk_template(req['ta']),
                                                             managed_object=mk_secret(req['secret'])))
    if op == 'DeriveKey':
        d = req['dp']
        dp = cattrs.DerivationParameters(
            cryptographic_parameters=mk_params(d.get('params')), initialization_vector=d.get('iv'),
            derivation_data=d.get('data'), salt=d.get('salt'), iteration_count=d.get('iterations'))
        return (OP.DERIVE_KEY, payloads.DeriveKeyRequestPayload(
            object_type=OT[req['otype']], unique_identifiers=[str(x) for x in req['uids']],
            derivation_method=enums.DerivationMethod[req['method']], derivation_parameters=dp,
            template_attribute=mk_template(req['ta'])))
    if op == 'Locate':
        return kdrv.locate([mk_attr(a) for a in req['attrs']], offset=req.get('offset'), maximum=req.get('maximum'))
    if op == 'Get':
        w = req.get('wrap')
        spec = None
        if w is not None:
            eki = None
            if w.get('eki') is not None:
                eki = cobjects.EncryptionKeyInformation(unique_identifier=uid_str(w['eki']['uid']),
                                                        cryptographic_parameters=mk_params(w['eki'].get('params')))
            mski = None
            if w.get('mski') is not None:
                mski = cobjects.MACSignatureKeyInformation(unique_identifier=uid_str(w['mski']['uid']),
                                                           cryptographic_parameters=mk_params(w['mski'].get('params')))
            spec = cobjects.KeyWrappingSpecification(
                wrapping_method=enums.WrappingMethod[w.get('method', 'ENCRYPT')], encryption_key_information=eki,
                mac_signature_key_information=mski, attribute_names=w.get('attr_names'),
                encoding_option=(enums.EncodingOption[w['encoding']] if w.get('encoding') else None))
        return kdrv.get(u, fmt=(KFT[req['kft']] if req.get('kft') else None),
                        compression=(enums.KeyCompressionType.EC_PUBLIC_KEY_TYPE_UNCOMPRESSED if req.get('compression') else None),
                        wrap=spec)
    if op == 'GetAttributes':
        return kdrv.get_attributes(u, req.get('names'))
    if op == 'GetAttributeList':
        return kdrv.get_attribute_list(u)
    if op == 'Activate':
        return kdrv.activate(u)
    if op == 'Revoke':
        return kdrv.revoke(u, code=(enums.RevocationReasonCode[req['code']] if req.get('code') else None),
                           message=req.get('message'), date=req.get('date'))
    if op == 'Destroy':
        return kdrv.destroy(u)
    if op == 'Query':
        return kdrv.query([enums.QueryFunction[f] for f in req['functions']])
    if op == 'DiscoverVersions':
        return kdrv.discover_versions(req.get('versions', ()))
    if op in ('Encrypt', 'Decrypt'):
        f = kdrv.encrypt if op == 'Encrypt' else kdrv.decrypt
        kw = {}
        if op == 'Decrypt' and req.get('tag') is not None:
            kw['tag'] = req['tag']
        return f(u, params=mk_params(req.get('params')), data=req.get('data', b''), iv=req.get('iv'), aad=req.get('aad'), **kw)
    if op == 'Sign':
        return kdrv.sign(u, params=mk_params(req.get('params')), data=req.get('data', b''))
    if op == 'SignatureVerify':
        return kdrv.signature_verify(u, params=mk_params(req.get('params')), data=req.get('data', b''), signature=req.get('signature', b''))
    if op == 'MAC':
        return (OP.MAC, payloads.MACRequestPayload(
            unique_identifier=(cattrs.UniqueIdentifier(u) if u is not None else None),
            cryptographic_parameters=mk_params(req.get('params')),
            data=(cobjects.Data(req['data']) if req.get('data') is not None else None)))
    if op == 'SetAttribute':
        return kdrv.set_attribute(u, mk_value2(req['attr']))
    if op == 'ModifyAttribute1':
        return kdrv.modify_attribute_v1(u, mk_attr(req['attr']))
    if op == 'ModifyAttribute2':
        cur = req.get('current')
        return kdrv.modify_attribute_v2(u, mk_value2(req['attr']), mk_value2(cur) if cur is not None else None)
    if op == 'DeleteAttribute1':
        return kdrv.delete_attribute_v1(u, req['name'], req.get('index'))
    if op == 'DeleteAttribute2':
        cur = req.get('current')
        ref = req.get('ref')
        return kdrv.delete_attribute_v2(u, mk_value2(cur) if cur is not None else None,
                                        kdrv.attr_ref2(ref) if ref is not None else None)
    raise KeyError(op)


def mk_secret(s):
    """s = {'type', 'kft'?, 'cert_type'?, 'length_ok'?, 'wrap'?: {'eki': bool, 'eki_params': bool, 'mski': bool, 'mski_params': bool}}"""
    if s is None:
        return None
    t = s['type']
    rsa = rsa_material()
    wrap = None
    if s.get('wrap') is not None:
        w = s['wrap']
        cpar = cattrs.CryptographicParameters(block_cipher_mode=MODE.NIST_KEY_WRAP)
        eki = cobjects.EncryptionKeyInformation(unique_identifier='1', cryptographic_parameters=(cpar if w.get('eki_params') else None)) if w.get('eki') else None
        mski = cobjects.MACSignatureKeyInformation(unique_identifier='1', cryptographic_parameters=(cpar if w.get('mski_params') else None)) if w.get('mski') else None
        wrap = cobjects.KeyWrappingData(wrapping_method=enums.WrappingMethod.ENCRYPT, encryption_key_information=eki,
                                        mac_signature_key_information=mski, encoding_option=enums.EncodingOption.NO_ENCODING)
    if t in ('SYMMETRIC_KEY', 'PUBLIC_KEY', 'PRIVATE_KEY', 'SPLIT_KEY'):
        default = {'SYMMETRIC_KEY': 'RAW', 'PUBLIC_KEY': 'PKCS_1', 'PRIVATE_KEY': 'PKCS_1', 'SPLIT_KEY': 'RAW'}[t]
        fmt = KFT[s.get('kft', default)]
        if t in ('SYMMETRIC_KEY', 'SPLIT_KEY'):
            value, alg, length = b'\x0f' * 16, ALG.AES, 128
        else:
            value, alg, length = (rsa['pub'] if t == 'PUBLIC_KEY' else rsa['priv']), ALG.RSA, 1024
        if s.get('length_ok') is False:
            length += 8
        kw = dict(cryptographic_algorithm=alg, cryptographic_length=length, key_format_type=fmt, key_value=value, key_wrapping_data=None)
        if t == 'SPLIT_KEY':
            kw.update(split_key_parts=3, key_part_identifier=1, split_key_threshold=2, split_key_method=enums.SplitKeyMethod.XOR,
                      prime_field_size=None)
        sec = kdrv.core_secret(OT[t], **kw)
        if wrap is not None:
            sec.key_block.key_wrapping_data = wrap
        return sec
    if t == 'CERTIFICATE':
        return kdrv.core_secret(OT[t], certificate_type=enums.CertificateType[s.get('cert_type', 'X_509')], certificate_value=b'\x30\x82\x01' + b'\x44' * 20)
    return kdrv.secret_for(OT[t])


# ---------------------------------------------------------------------------------------------- parameter menus (the grid)
SYM_PARAMS = [
    None,
    {},
    {'cryptographic_algorithm': ALG.AES, 'block_cipher_mode': MODE.CBC, 'padding_method': PAD.PKCS5},
    {'cryptographic_algorithm': ALG.AES, 'block_cipher_mode': MODE.CBC},
    {'cryptographic_algorithm': ALG.AES, 'block_cipher_mode': MODE.ECB, 'padding_method': PAD.ANSI_X923},
    {'cryptographic_algorithm': ALG.AES, 'block_cipher_mode': MODE.CTR},
    {'cryptographic_algorithm': ALG.AES, 'block_cipher_mode': MODE.GCM, 'tag_length': 16},
    {'cryptographic_algorithm': ALG.AES, 'block_cipher_mode': MODE.GCM},
    {'cryptographic_algorithm': ALG.AES, 'block_cipher_mode': MODE.GCM, 'tag_length': 2},
    {'cryptographic_algorithm': ALG.AES, 'block_cipher_mode': MODE.CCM, 'tag_length': 16},
    {'cryptographic_algorithm': ALG.AES, 'block_cipher_mode': MODE.XTS},
    {'cryptographic_algorithm': ALG.AES},
    {'cryptographic_algorithm': ALG.AES, 'block_cipher_mode': MODE.CBC, 'padding_method': PAD.OAEP},
    {'cryptographic_algorithm': ALG.TRIPLE_DES, 'block_cipher_mode': MODE.CBC, 'padding_method': PAD.PKCS5},
    {'cryptographic_algorithm': ALG.BLOWFISH, 'block_cipher_mode': MODE.GCM, 'tag_length': 16},
    {'cryptographic_algorithm': ALG.RC4},
    {'cryptographic_algorithm': ALG.RSA, 'padding_method': PAD.OAEP, 'hashing_algorithm': HASH.SHA_256},
    {'cryptographic_algorithm': ALG.RSA, 'padding_method': PAD.PKCS1v15},
    {'cryptographic_algorithm': ALG.RSA},
    {'cryptographic_algorithm': ALG.HMAC_SHA256, 'block_cipher_mode': MODE.CBC, 'padding_method': PAD.PKCS5},
    {'cryptographic_algorithm': ALG.CAMELLIA, 'block_cipher_mode': MODE.OFB},
]
IVS = [None, b'\x01' * 16, b'\x01' * 8, b'']
SIGN_PARAMS = [
    None, {},
    {'cryptographic_algorithm': ALG.RSA, 'hashing_algorithm': HASH.SHA_256, 'padding_method': PAD.PSS},
    {'cryptographic_algorithm': ALG.RSA, 'hashing_algorithm': HASH.SHA_256, 'padding_method': PAD.PKCS1v15},
    {'cryptographic_algorithm': ALG.RSA, 'hashing_algorithm': HASH.SHA_256},
    {'cryptographic_algorithm': ALG.RSA, 'hashing_algorithm': HASH.SHA_256, 'padding_method': PAD.OAEP},
    {'cryptographic_algorithm': ALG.RSA, 'hashing_algorithm': HASH.RIPEMD_160, 'padding_method': PAD.PSS},
    {'cryptographic_algorithm': ALG.RSA, 'padding_method': PAD.PSS},
    {'cryptographic_algorithm': ALG.RSA, 'padding_method': PAD.PKCS1v15},
    {'digital_signature_algorithm': enums.DigitalSignatureAlgorithm.SHA256_WITH_RSA_ENCRYPTION, 'padding_method': PAD.PKCS1v15},
    {'digital_signature_algorithm': enums.DigitalSignatureAlgorithm.ECDSA_WITH_SHA256, 'padding_method': PAD.PSS},
    {'digital_signature_algorithm': enums.DigitalSignatureAlgorithm.SHA256_WITH_RSA_ENCRYPTION,
     'hashing_algorithm': HASH.SHA_1, 'padding_method': PAD.PSS},
    {'cryptographic_algorithm': ALG.ECDSA, 'hashing_algorithm': HASH.SHA_256, 'padding_method': PAD.PSS},
    {'cryptographic_algorithm': ALG.AES, 'hashing_algorithm': HASH.SHA_256, 'padding_method': PAD.PKCS1v15},
]
MAC_PARAMS = [None, {}, {'cryptographic_algorithm': ALG.HMAC_SHA256}, {'cryptographic_algorithm': ALG.AES},
              {'cryptographic_algorithm': ALG.RC4}, {'cryptographic_algorithm': ALG.RSA}, {'cryptographic_algorithm': ALG.HMAC_MD5}]


def tmpl(*attrs, **kw):
    return {'attrs': [({'name': a} if isinstance(a, str) else a) for a in attrs], 'tnames': kw.get('tnames', False)}


def attr_ops_menu(uid, ver, quick_names=None):
    """Set/Modify/DeleteAttribute requests for one target under one version."""
    out = []
    all_names = CONSTRUCTIBLE + UNKNOWN_NAMES
    if ver < (2, 0):
        for n in all_names:
            for idx in (None, 0, 1, 5):
                out.append({'op': 'ModifyAttribute1', 'uid': uid, 'attr': {'name': n, 'index': idx}})
        for n in all_names + NAME_ONLY:
            for idx in (None, 0, 1, 5):
                out.append({'op': 'DeleteAttribute1', 'uid': uid, 'name': n, 'index': idx})
    else:
        for n in CONSTRUCTIBLE:
            out.append({'op': 'SetAttribute', 'uid': uid, 'attr': {'name': n}})
            out.append({'op': 'ModifyAttribute2', 'uid': uid, 'attr': {'name': n}, 'current': None})
            out.append({'op': 'ModifyAttribute2', 'uid': uid, 'attr': {'name': n}, 'current': {'name': n}})
            if n in ('Name', 'Object Group', 'Application Specific Information', 'Sensitive'):
                out.append({'op': 'ModifyAttribute2', 'uid': uid, 'attr': {'name': n}, 'current': {'name': n, 'val': _other(n)}})
            out.append({'op': 'DeleteAttribute2', 'uid': uid, 'current': {'name': n}, 'ref': None})
        for n in all_names + NAME_ONLY:
            out.append({'op': 'DeleteAttribute2', 'uid': uid, 'current': None, 'ref': n})
        out.append({'op': 'DeleteAttribute2', 'uid': uid, 'current': None, 'ref': None})
    return out


def _other(n):
    return {'Name': kdrv.name_value('absent-name'), 'Object Group': 'absent-group',
            'Application Specific Information': {'application_namespace': 'zz', 'application_data': 'zz'}, 'Sensitive': False}[n]


def target_menu(uid, ver, wrap_uids=()):
    """Every operation that addresses one object, with its parameter menu."""
    out = []
    out += [{'op': 'Get', 'uid': uid}, {'op': 'Get', 'uid': uid, 'kft': 'RAW'}, {'op': 'Get', 'uid': uid, 'kft': 'PKCS_1'},
            {'op': 'Get', 'uid': uid, 'compression': True}]
    for wk in wrap_uids:
        for par in (None, {'block_cipher_mode': MODE.NIST_KEY_WRAP}, {'block_cipher_mode': MODE.CBC}, {}):
            out.append({'op': 'Get', 'uid': uid, 'wrap': {'eki': {'uid': wk, 'params': par}, 'encoding': 'NO_ENCODING'}})
        out.append({'op': 'Get', 'uid': uid, 'wrap': {'eki': {'uid': wk, 'params': {'block_cipher_mode': MODE.NIST_KEY_WRAP}}, 'encoding': 'TTLV_ENCODING'}})
        out.append({'op': 'Get', 'uid': uid, 'wrap': {'eki': {'uid': wk, 'params': {'block_cipher_mode': MODE.NIST_KEY_WRAP}}}})
        out.append({'op': 'Get', 'uid': uid, 'wrap': {'eki': {'uid': wk, 'params': None}, 'encoding': 'NO_ENCODING', 'attr_names': ['Name']}})
        out.append({'op': 'Get', 'uid': uid, 'wrap': {'eki': {'uid': wk, 'params': None}, 'method': 'MAC_SIGN', 'encoding': 'NO_ENCODING'}})
        out.append({'op': 'Get', 'uid': uid, 'wrap': {'mski': {'uid': wk, 'params': None}, 'encoding': 'NO_ENCODING'}})
    out.append({'op': 'Get', 'uid': uid, 'wrap': {'encoding': 'NO_ENCODING'}})
    out += [{'op': 'GetAttributes', 'uid': uid, 'names': None}, {'op': 'GetAttributes', 'uid': uid, 'names': ['Name', 'State']},
            {'op': 'GetAttributes', 'uid': uid, 'names': CONSTRUCTIBLE + NAME_ONLY + UNKNOWN_NAMES},
            {'op': 'GetAttributeList', 'uid': uid}]
    for p in SYM_PARAMS:
        for iv in (IVS if p and p.get('block_cipher_mode') in (MODE.CBC, MODE.CTR, MODE.GCM) and p.get('padding_method') != PAD.OAEP else [None]):
            for data in (b'', b'\x07' * 16, b'\x07' * 5):
                out.append({'op': 'Encrypt', 'uid': uid, 'params': p, 'iv': iv, 'data': data})
                out.append({'op': 'Decrypt', 'uid': uid, 'params': p, 'iv': iv, 'data': data})
    out.append({'op': 'Encrypt', 'uid': uid, 'params': SYM_PARAMS[2], 'iv': None, 'data': b'abc', 'aad': b'aad'})
    out.append({'op': 'Encrypt', 'uid': uid, 'params': SYM_PARAMS[6], 'iv': b'\x01' * 12, 'data': b'abc', 'aad': b'aad'})
    out.append({'op': 'Decrypt', 'uid': uid, 'params': SYM_PARAMS[6], 'iv': b'\x01' * 12, 'data': b'abc', 'aad': b'aad', 'tag': b'\x00' * 16})
    out.append({'op': 'Decrypt', 'uid': uid, 'params': SYM_PARAMS[6], 'iv': b'\x01' * 12, 'data': b'abc', 'tag': b'\x00' * 2})
    for p in SIGN_PARAMS:
        out.append({'op': 'Sign', 'uid': uid, 'params': p, 'data': b'msg'})
        out.append({'op': 'SignatureVerify', 'uid': uid, 'params': p, 'data': b'msg', 'signature': b'\x01' * 128})
        out.append({'op': 'SignatureVerify', 'uid': uid, 'params': p, 'data': b'msg', 'signature': b''})
    for p in MAC_PARAMS:
        for data in (b'data', b'', None):
            out.append({'op': 'MAC', 'uid': uid, 'params': p, 'data': data})
    out += attr_ops_menu(uid, ver)
    # state-changing operations last (the driver re-creates the target when a cell changed it)
    out += [{'op': 'Activate', 'uid': uid},
            {'op': 'Revoke', 'uid': uid, 'code': 'KEY_COMPROMISE'}, {'op': 'Revoke', 'uid': uid, 'code': 'CESSATION_OF_OPERATION'},
            {'op': 'Revoke', 'uid': uid, 'code': 'KEY_COMPROMISE', 'message': 'm', 'date': 1500000000},
            {'op': 'Revoke', 'uid': uid, 'code': None},
            {'op': 'Destroy', 'uid': uid}]
    return out


DERIVE_TA = tmpl('Cryptographic Algorithm', 'Cryptographic Length', 'Cryptographic Usage Mask')


def derive_menu(uids):
    out = []
    hp = {'hashing_algorithm': HASH.SHA_256}
    for u in uids:
        for method, dp in [('HASH', {'params': hp}), ('HASH', {'params': hp, 'data': b'dd'}), ('HASH', {'params': None}), ('HASH', {'params': {}}),
                           ('HMAC', {'params': hp, 'data': b'dd', 'salt': b'ss'}), ('HMAC', {'params': {'hashing_algorithm': HASH.MD2}}),
                           ('PBKDF2', {'params': hp, 'salt': b'salt', 'iterations': 10}), ('PBKDF2', {'params': hp}),
                           ('PBKDF2', {'params': hp, 'salt': b'salt', 'iterations': 0}),
                           ('NIST800_108_C', {'params': hp, 'data': b'dd'}), ('NIST800_108_C', {'params': hp}),
                           ('ENCRYPT', {'params': {'cryptographic_algorithm': ALG.AES, 'block_cipher_mode': MODE.CBC, 'padding_method': PAD.PKCS5}, 'data': b'\x01' * 16, 'iv': b'\x02' * 16}),
                           ('ENCRYPT', {'params': {'cryptographic_algorithm': ALG.AES, 'block_cipher_mode': MODE.CBC, 'padding_method': PAD.PKCS5}, 'data': b'\x01' * 16}),
                           ('ENCRYPT', {'params': {'cryptographic_algorithm': ALG.AES, 'block_cipher_mode': MODE.CBC, 'padding_method': PAD.PKCS5}}),
                           ('ENCRYPT', {'params': hp, 'data': b'\x01' * 16}),
                           ('ASYMMETRIC_KEY', {'params': hp})]:
            for otype in ('SYMMETRIC_KEY', 'SECRET_DATA'):
                out.append({'op': 'DeriveKey', 'otype': otype, 'uids': [u], 'method': method, 'dp': dp, 'ta': DERIVE_TA})
        out.append({'op': 'DeriveKey', 'otype': 'SYMMETRIC_KEY', 'uids': [u], 'method': 'HASH', 'dp': {'params': hp}, 'ta': None})
        out.append({'op': 'DeriveKey', 'otype': 'SYMMETRIC_KEY', 'uids': [u], 'method': 'HASH', 'dp': {'params': hp},
                    'ta': tmpl('Cryptographic Algorithm', {'name': 'Cryptographic Length', 'val': 100}, 'Cryptographic Usage Mask')})
        out.append({'op': 'DeriveKey', 'otype': 'SYMMETRIC_KEY', 'uids': [u], 'method': 'HMAC', 'dp': {'params': hp},
                    'ta': tmpl('Cryptographic Algorithm', {'name': 'Cryptographic Length', 'val': 80000}, 'Cryptographic Usage Mask')})
        out.append({'op': 'DeriveKey', 'otype': 'SYMMETRIC_KEY', 'uids': [u], 'method': 'HASH', 'dp': {'params': hp},
                    'ta': tmpl('Cryptographic Algorithm', {'name': 'Cryptographic Length', 'val': 1024}, 'Cryptographic Usage Mask')})
        out.append({'op': 'DeriveKey', 'otype': 'SYMMETRIC_KEY', 'uids': [u], 'method': 'HASH', 'dp': {'params': hp},
                    'ta': tmpl('Cryptographic Length', 'Cryptographic Usage Mask')})
        out.append({'op': 'DeriveKey', 'otype': 'SYMMETRIC_KEY', 'uids': [u], 'method': 'HASH', 'dp': {'params': hp},
                    'ta': tmpl('Cryptographic Algorithm', 'Cryptographic Length', 'Cryptographic Usage Mask', 'x-custom')})
        out.append({'op': 'DeriveKey', 'otype': 'SYMMETRIC_KEY', 'uids': [u], 'method': 'HASH', 'dp': {'params': hp},
                    'ta': tmpl('Cryptographic Algorithm', 'Cryptographic Length', 'Cryptographic Usage Mask', 'State')})
        out.append({'op': 'DeriveKey', 'otype': 'PUBLIC_KEY', 'uids': [u], 'method': 'HASH', 'dp': {'params': hp}, 'ta': DERIVE_TA})
        out.append({'op': 'DeriveKey', 'otype': 'SECRET_DATA', 'uids': [u], 'method': 'HASH', 'dp': {'params': hp},
                    'ta': tmpl('Cryptographic Length', 'Cryptographic Usage Mask')})
        out.append({'op': 'DeriveKey', 'otype': 'SECRET_DATA', 'uids': [u], 'method': 'HASH', 'dp': {'params': hp},
                    'ta': tmpl('Cryptographic Usage Mask')})
    for a, b in itertools.islice(itertools.permutations(uids, 2), 12):
        out.append({'op': 'DeriveKey', 'otype': 'SYMMETRIC_KEY', 'uids': [a, b], 'method': 'HMAC', 'dp': {'params': hp}, 'ta': DERIVE_TA})
    return out


def global_menu(ver):
    """Operations that do not address one stored object."""
    out = []
    A, L, M = 'Cryptographic Algorithm', 'Cryptographic Length', 'Cryptographic Usage Mask'
    for otype in ('SYMMETRIC_KEY', 'PUBLIC_KEY', 'SECRET_DATA', 'CERTIFICATE'):
        out.append({'op': 'Create', 'otype': otype, 'ta': tmpl(A, L, M)})
    for ta in [None, tmpl(), tmpl(A, L), tmpl(A, M), tmpl(L, M), tmpl(A, L, M, tnames=True), tmpl(A, L, M, 'x-custom'),
               tmpl(A, L, M, 'Sensitive'), tmpl(A, L, M, 'State'), tmpl(A, L, M, 'Certificate Type'), tmpl(A, L, M, A),
               tmpl(A, L, M, {'name': 'Name', 'index': 0}, {'name': 'Name', 'index': None}),
               tmpl(A, L, M, {'name': 'Name', 'index': 0}, {'name': 'Name', 'index': 1}),
               tmpl(A, L, M, {'name': 'Name', 'index': 0}, {'name': 'Name', 'index': 1, 'val': kdrv.name_value('second')}),
               tmpl(A, {'name': L, 'index': 1}, M), tmpl(A, {'name': L, 'index': 0}, M),
               tmpl({'name': A, 'val': ALG.RSA}, L, M), tmpl({'name': A, 'val': ALG.HMAC_SHA256}, L, M),
               tmpl(A, {'name': L, 'val': 100}, M), tmpl(A, {'name': L, 'val': 0}, M), tmpl({'name': A, 'val': ALG.TRIPLE_DES}, {'name': L, 'val': 192}, M),
               tmpl(A, L, M, 'Object Group', 'Application Specific Information', 'Contact Information'),
               tmpl(A, L, M, 'Cryptographic Parameters'), tmpl(A, L, M, 'Digest'), tmpl(A, L, M, 'Operation Policy Name'),
               tmpl(A, L, M, 'Activation Date'), tmpl(A, L, M, 'Custom Attribute'), tmpl(A, L, M, 'Fresh'), tmpl(A, L, M, 'Always Sensitive')]:
        out.append({'op': 'Create', 'otype': 'SYMMETRIC_KEY', 'ta': ta})
    R = {'name': A, 'val': ALG.RSA}
    L1 = {'name': L, 'val': 1024}
    for common, priv, pub in [(tmpl(R, L1), tmpl(M), tmpl(M)), (None, None, None), (tmpl(R, L1), None, None), (tmpl(R, L1), tmpl(M), None),
                              (tmpl(R), tmpl(M), tmpl(M)), (tmpl(L1), tmpl(M), tmpl(M)), (None, tmpl(R, L1, M), tmpl(R, L1, M)),
                              (None, tmpl(R, L1, M), tmpl(A, L1, M)), (None, tmpl(R, L1, M), tmpl(R, {'name': L, 'val': 2048}, M)),
                              (tmpl(A, L), tmpl(M), tmpl(M)), (tmpl(R, {'name': L, 'val': 100}), tmpl(M), tmpl(M)),
                              (tmpl(R, L1, tnames=True), tmpl(M), tmpl(M)), (tmpl(R, L1, 'x-custom'), tmpl(M), tmpl(M)),
                              (tmpl(R, L1, 'Sensitive'), tmpl(M), tmpl(M)), (tmpl(R, L1, 'Certificate Type'), tmpl(M), tmpl(M)),
                              (tmpl({'name': A, 'val': ALG.ECDSA}, {'name': L, 'val': 256}), tmpl(M), tmpl(M)),
                              (tmpl(R, L1, 'Name'), tmpl(M, 'Name'), tmpl(M))]:
        out.append({'op': 'CreateKeyPair', 'common': common, 'private': priv, 'public': pub})
    for t in TYPE_NAMES:
        out.append({'op': 'Register', 'otype': t, 'secret': {'type': t}, 'ta': tmpl()})
        out.append({'op': 'Register', 'otype': t, 'secret': {'type': t}, 'ta': None})
        out.append({'op': 'Register', 'otype': t, 'secret': None, 'ta': tmpl()})
        for extra in ('Name', 'x-custom', 'Sensitive', 'State', M, A, 'Certificate Type', 'Object Group', 'Cryptographic Parameters'):
            out.append({'op': 'Register', 'otype': t, 'secret': {'type': t}, 'ta': tmpl(extra)})
        out.append({'op': 'Register', 'otype': t, 'secret': {'type': t}, 'ta': tmpl('Name', tnames=True)})
    for t in ('SYMMETRIC_KEY', 'PUBLIC_KEY', 'PRIVATE_KEY', 'SPLIT_KEY'):
        for kft in ('RAW', 'OPAQUE', 'PKCS_1', 'PKCS_8', 'X_509', 'TRANSPARENT_SYMMETRIC_KEY', 'EC_PRIVATE_KEY'):
            out.append({'op': 'Register', 'otype': t, 'secret': {'type': t, 'kft': kft}, 'ta': tmpl()})
        out.append({'op': 'Register', 'otype': t, 'secret': {'type': t, 'length_ok': False}, 'ta': tmpl()})
        for w in ({'eki': True, 'eki_params': True}, {'eki': True, 'eki_params': False}, {'mski': True, 'mski_params': True},
                  {'mski': True, 'mski_params': False}, {'eki': True, 'eki_params': True, 'mski': True, 'mski_params': False}, {}):
            out.append({'op': 'Register', 'otype': t, 'secret': {'type': t, 'wrap': w}, 'ta': tmpl()})
            out.append({'op': 'Register', 'otype': t, 'secret': {'type': t, 'wrap': w, 'length_ok': False}, 'ta': tmpl()})
    out.append({'op': 'Register', 'otype': 'CERTIFICATE', 'secret': {'type': 'CERTIFICATE', 'cert_type': 'PGP'}, 'ta': tmpl()})
    out.append({'op': 'Register', 'otype': 'SYMMETRIC_KEY', 'secret': {'type': 'SECRET_DATA'}, 'ta': tmpl()})
    out.append({'op': 'Register', 'otype': 'TEMPLATE', 'secret': {'type': 'SECRET_DATA'}, 'ta': tmpl()})
    out.append({'op': 'Register', 'otype': 'PGP_KEY', 'secret': {'type': 'SECRET_DATA'}, 'ta': tmpl()})
    for fs in (['QUERY_OPERATIONS', 'QUERY_OBJECTS'], [], ['QUERY_SERVER_INFORMATION', 'QUERY_EXTENSION_LIST', 'QUERY_EXTENSION_MAP',
                                                            'QUERY_APPLICATION_NAMESPACES']):
        out.append({'op': 'Query', 'functions': fs})
    for vs in ((), ((1, 0), (2, 0)), ((9, 9),)):
        out.append({'op': 'DiscoverVersions', 'versions': vs})
    return out


def locate_menu():
    out = [{'op': 'Locate', 'attrs': []}]
    for n in CONSTRUCTIBLE + UNKNOWN_NAMES:
        out.append({'op': 'Locate', 'attrs': [{'name': n}]})
    for n in ('Name', 'State', 'Object Type', 'Cryptographic Usage Mask', 'Sensitive', 'Object Group'):
        out.append({'op': 'Locate', 'attrs': [{'name': n, 'val': _other_loc(n)}]})
    D = 1600000000
    out += [{'op': 'Locate', 'attrs': [{'name': 'Initial Date', 'val': D - 10}, {'name': 'Initial Date', 'val': D + 10}]},
            {'op': 'Locate', 'attrs': [{'name': 'Initial Date'}] * 3},
            {'op': 'Locate', 'attrs': [{'name': 'Object Type', 'val': OT.CERTIFICATE}, {'name': 'Cryptographic Algorithm'}]},
            {'op': 'Locate', 'attrs': [{'name': 'Object Type', 'val': OT.SYMMETRIC_KEY}, {'name': 'Cryptographic Algorithm'}]},
            {'op': 'Locate', 'attrs': [{'name': 'Certificate Type'}, {'name': 'Cryptographic Length'}]},
            {'op': 'Locate', 'attrs': [{'name': 'State'}, {'name': 'x-custom'}]},
            {'op': 'Locate', 'attrs': [{'name': 'x-custom'}, {'name': 'State'}]},
            {'op': 'Locate', 'attrs': [], 'offset': 1, 'maximum': 2}, {'op': 'Locate', 'attrs': [], 'offset': 100},
            {'op': 'Locate', 'attrs': [], 'maximum': 0}]
    return out


def _other_loc(n):
    return {'Name': kdrv.name_value('absent-name'), 'State': ST.DESTROYED, 'Object Type': OT.CERTIFICATE,
            'Cryptographic Usage Mask': [UM.EXPORT], 'Sensitive': False, 'Object Group': 'absent-group'}[n]
