"""C03 - access control: nothing happens to an object without a policy grant.

  regenerate   translate/gen_policies.py -> gen/DefaultPolicies.v, gen/HandlerAccessOps.v   (tie T)
  prove        props/C03.v (cone: theories/Policy/*)
  K(a)         the whole abstract decision space against the REAL engine methods is_allowed /
               _is_allowed_by_operation_policy, Coq compares (Policy.v)
  K(b)         engine histories with 2-3 identities, custom policies, objects of several types under
               different policy names, every object-addressing operation; Coq replays the history on
               the model (Access.v) and compares outcome class, message, store columns, Locate ids
  oracle       granted_spec evaluated in Python (written from the property text, no model): effect or
               disclosure without a grant; a denial must be PERMISSION_DENIED, carry the not-found
               text and leave the database unchanged; Locate lists only what may be located; the owner
               column never changes.
"""
import copy
import itertools
import json
import os
from pathlib import Path

from vlib import coqprint as cp

from kmip.core import enums
from kmip.core import policy as core_policy

import kdrv
from kdrv import OT, OP

PL = enums.Policy
VERIF = Path(__file__).resolve().parents[1]

HEADER_A = ('From Coq Require Import String ZArith List Bool.\n'
            'From PK Require Import Policy.Policy.\n'
            'From PKGen Require Import DefaultPolicies.\n'
            'Import ListNotations.\nOpen Scope Z_scope.\nOpen Scope string_scope.\n'
            '(* case: policies, policy name, cells; a cell: identity, owner, object type, operation,\n'
            '   observed _is_allowed_by_operation_policy *)\n'
            'Definition cell := (identity * user * Z * Z * bool)%type.\n'
            'Definition cell_ok (P : policies) (pn : string) (c : cell) : bool :=\n'
            '  let \'(id, owner, ot, op, obs) := c in Bool.eqb (allowed_by_policy P pn id owner ot op) obs.\n'
            'Definition chk_dec (c : policies * string * list cell) : bool :=\n'
            '  let \'(P, pn, cells) := c in forallb (cell_ok P pn) cells.\n'
            'Definition bad_cells (c : policies * string * list cell) : list nat :=\n'
            '  let \'(P, pn, cells) := c in\n'
            '  map fst (filter (fun p => negb (cell_ok P pn (snd p))) (combine (seq 0 (length cells)) cells)).\n'
            '(* is_allowed: user, group value, owner, object type, operation, observed *)\n'
            'Definition cell1 := (user * option string * user * Z * Z * bool)%type.\n'
            'Definition cell1_ok (P : policies) (pn : string) (c : cell1) : bool :=\n'
            '  let \'(u, g, owner, ot, op, obs) := c in Bool.eqb (is_allowed P pn u g owner ot op) obs.\n'
            'Definition chk_one (c : policies * string * list cell1) : bool :=\n'
            '  let \'(P, pn, cells) := c in forallb (cell1_ok P pn) cells.\n'
            'Definition bad_cells1 (c : policies * string * list cell1) : list nat :=\n'
            '  let \'(P, pn, cells) := c in\n'
            '  map fst (filter (fun p => negb (cell1_ok P pn (snd p))) (combine (seq 0 (length cells)) cells)).\n')


# ============================================================================ printers
def c_user(u):
    return cp.option(u, cp.string)


def c_groups(gs):
    return cp.option(gs, lambda l: cp.lst(l, cp.string))


def c_identity(user, groups):
    return '{| id_user := %s; id_groups := %s |}' % (c_user(user), c_groups(groups))


def c_perm(p):
    return {PL.ALLOW_ALL: 'AllowAll', PL.ALLOW_OWNER: 'AllowOwner', PL.DISALLOW_ALL: 'DisallowAll'}.get(p, 'POther')


def c_section(sec):
    return cp.lst(list(sec.items()), lambda kv: '(%s, %s)' % (
        cp.z(kv[0].value), cp.lst(list(kv[1].items()), lambda e: '(%s, %s)' % (cp.z(e[0].value), c_perm(e[1])))))


def c_bundle(b):
    pre = 'None' if 'preset' not in b else '(Some %s)' % c_section(b['preset'])
    grp = 'None' if 'groups' not in b else '(Some %s)' % cp.lst(
        list(b['groups'].items()), lambda kv: '(%s, %s)' % (cp.string(kv[0]), c_section(kv[1])))
    return '{| preset := %s; groups := %s |}' % (pre, grp)


def c_document(doc):
    """policy document (JSON names) -> Coq `document` term; names are resolved with the enumerations only"""
    def sec(x):
        return c_section({OT[t]: {OP[op]: PL[p] for op, p in ops.items()} for t, ops in x.items()})

    def body(b):
        if set(b) <= {'preset', 'groups'}:
            pre = '(Some %s)' % sec(b['preset']) if 'preset' in b else 'None'
            grp = '(Some %s)' % cp.lst(list(b['groups'].items()), lambda kv: '(%s, %s)' % (cp.string(kv[0]), sec(kv[1]))) if 'groups' in b else 'None'
            return '(DSections %s %s)' % (pre, grp)
        return '(DLegacy %s)' % sec(b)
    return cp.lst(list(doc.items()), lambda kv: '(%s, %s)' % (cp.string(kv[0]), body(kv[1])))


def c_policies(P):
    return cp.lst(list(P.items()), lambda kv: '(%s, %s)' % (cp.string(kv[0]), c_bundle(kv[1])))


# ============================================================================ the specification, in Python
# Written from the property text (and docs/source/server.rst), NOT from engine.py.
def perm_grants(p, user, owner):
    if p is PL.ALLOW_ALL:
        return True
    if p is PL.ALLOW_OWNER:
        return user == owner
    return False                      # 'disallow all', and anything else, to nobody


def section_grants(sec, user, owner, ot, op):
    if not isinstance(sec, dict):
        return False
    ops = sec.get(ot)
    if not isinstance(ops, dict) or op not in ops:
        return False                  # missing object-type / operation entry
    return perm_grants(ops[op], user, owner)


class MultiP(dict):
    """Several candidate definitions per policy name (the files currently on disk that define it; which of them is in
    force is C18's business): something is granted when SOME candidate grants it."""
    def __init__(self, alts):
        dict.__init__(self)
        self.alts = alts


def granted_spec(P, pn, user, groups, owner, ot, op):
    if isinstance(P, MultiP):
        return any(granted_spec({pn: b}, pn, user, groups, owner, ot, op) for b in P.alts.get(pn, []))
    b = P.get(pn)
    if not isinstance(b, dict):
        return False                  # missing policy
    if groups is None:                # no group information: only the preset section
        return 'preset' in b and section_grants(b['preset'], user, owner, ot, op)
    gm = b.get('groups')
    if not gm:                        # the policy defines no groups: the preset section
        return 'preset' in b and section_grants(b['preset'], user, owner, ot, op)
    # the most permissive applicable group section decides
    return any(g in gm and section_grants(gm[g], user, owner, ot, op) for g in groups)


# ============================================================================ K(a): the decision space
T0, T1 = OT.SYMMETRIC_KEY, OT.CERTIFICATE
O0, O1 = OP.GET, OP.DESTROY


def section_menu():
    """name -> section dict (None = the section key is absent)."""
    m = {
        'absent': None,
        'empty': {},
        'type-missing': {T1: {O0: PL.ALLOW_ALL}},
        'opmap-empty': {T0: {}},
        'op-missing': {T0: {O1: PL.ALLOW_ALL}},
        'ALLOW_ALL': {T0: {O0: PL.ALLOW_ALL, O1: PL.DISALLOW_ALL}},
        'ALLOW_OWNER': {T1: {O0: PL.ALLOW_ALL}, T0: {O0: PL.ALLOW_OWNER}},
        'DISALLOW_ALL': {T0: {O1: PL.ALLOW_ALL, O0: PL.DISALLOW_ALL}},
        'other-value': {T0: {O0: 'ALLOW_ALL'}},          # not an enums.Policy member
    }
    return m


def decision_space():
    """-> list of (label, policies dict, policy name)."""
    S = section_menu()
    core = ['ALLOW_ALL', 'ALLOW_OWNER', 'DISALLOW_ALL', 'op-missing']
    group_cfgs = [('nogroups', None), ('groups-empty', {})]
    for x in S:
        if x != 'absent':
            group_cfgs.append(('A=' + x, {'A': S[x]}))
    for x, y in itertools.product(core, core):
        group_cfgs.append(('A=%s,B=%s' % (x, y), {'A': S[x], 'B': S[y]}))
    for x in ('ALLOW_ALL', 'ALLOW_OWNER', 'DISALLOW_ALL'):
        group_cfgs.append(('""=%s' % x, {'': S[x]}))
        group_cfgs.append(('""=%s,A=DISALLOW_ALL' % x, {'': S[x], 'A': S['DISALLOW_ALL']}))
    out = []
    for pname, pre in S.items():
        for gname, grp in group_cfgs:
            b = {}
            if pre is not None:
                b['preset'] = copy.deepcopy(pre)
            if grp is not None:
                b['groups'] = copy.deepcopy(grp)
            out.append(('preset=%s;%s' % (pname, gname), {'p': b, 'other': {'preset': S['ALLOW_ALL']}}, 'p'))
    out.append(('policy-missing', {'other': {'preset': S['ALLOW_ALL']}}, 'p'))
    out.append(('policy-store-empty', {}, 'p'))
    return out


REQUESTERS = [('owner', 'alice', 'alice'), ('other', 'bob', 'alice'), ('anonymous', None, None), ('other-vs-none', 'bob', None)]
GROUPS = [None, [], ['A'], ['A', 'B'], ['B', 'A'], ['Z'], ['Z', 'A'], ['A', 'Z'], [''], ['', 'A'], ['', 'Z']]


def f11_signature(P, pn, user, groups, owner, ot, op):
    """class 'empty-group-name' only when the grant is explained by treating "" as "no group information"."""
    if groups is not None and '' in groups and granted_spec(P, pn, user, None, owner, ot, op):
        return {'class': 'empty-group-name'}
    return {'class': 'decision'}


def decision_cases(ctx, eng):
    """Every cell of the abstract decision space on the real engine -> Coq cases (one per policy) + direct oracle."""
    import re
    real = eng.engine
    cases, meta, cases1, meta1 = [], [], [], []
    space = decision_space()
    for k, (label, P, pn) in enumerate(space):
        real._operation_policies = P
        cells, cmeta = [], []
        for (rl, user, owner), groups in itertools.product(REQUESTERS, GROUPS):
            if rl in ('anonymous', 'other-vs-none') and groups not in (None, ['A'], ['']):
                continue
            obs = real._is_allowed_by_operation_policy(pn, (user, groups), owner, T0, O0)
            if obs is not True and obs is not False:
                ctx.disagreement('decision', {'cell': label, 'returned': repr(obs)})
                obs = bool(obs)
            cells.append('(%s, %s, %s, %s, %s)' % (c_identity(user, groups), c_user(owner), cp.z(T0.value), cp.z(O0.value), cp.boolean(obs)))
            cmeta.append({'cell': label, 'requester': rl, 'user': user, 'owner': owner, 'groups': groups, 'impl': obs})
            ctx.case_seen(('dec', label, rl, groups), nontrivial=True)
            ctx.count('decision.%s' % ('allowed' if obs else 'denied'))
            # direct oracle: allowed only if granted
            g = granted_spec(P, pn, user, groups, owner, T0, O0)
            if obs and not g:
                ctx.violation(dict(f11_signature(P, pn, user, groups, owner, T0, O0), site='_is_allowed_by_operation_policy'),
                              {'policies': plain_policies(P), 'policy_name': pn, 'identity': [user, groups], 'owner': owner,
                               'object_type': T0.name, 'operation': O0.name, 'allowed': True, 'granted_by_property': False,
                               'how': 'KmipEngine._is_allowed_by_operation_policy(policy_name, identity, owner, object_type, operation)'},
                              'the engine allows %s on a %s for identity %r although the policy grants it to nobody (cell %s)' % (
                                  O0.name, T0.name, (user, groups), label))
            if g and not obs:
                ctx.count('decision.restrictive(granted by the property text, denied by the engine)')
        cases.append('(%s, %s, [%s])' % (c_policies(P), cp.string(pn), '; '.join(cells)))
        meta.append(cmeta)
        # is_allowed itself, per group value
        cells, cmeta = [], []
        for (rl, user, owner), g in itertools.product(REQUESTERS[:2], [None, '', 'A', 'B', 'Z']):
            obs = real.is_allowed(pn, user, g, owner, T0, O0)
            if obs is not True and obs is not False:
                ctx.disagreement('is_allowed', {'cell': label, 'returned': repr(obs)})
                obs = bool(obs)
            cells.append('(%s, %s, %s, %s, %s, %s)' % (c_user(user), cp.option(g, cp.string), c_user(owner),
                                                       cp.z(T0.value), cp.z(O0.value), cp.boolean(obs)))
            cmeta.append({'cell': label, 'user': user, 'group': g, 'owner': owner, 'impl': obs})
            ctx.case_seen(('one', label, rl, g), nontrivial=True)
        cases1.append('(%s, %s, [%s])' % (c_policies(P), cp.string(pn), '; '.join(cells)))
        meta1.append(cmeta)
    # the built-in policies, through the generated table
    builtin = copy.deepcopy(core_policy.policies)
    real._operation_policies = builtin
    for pn in list(builtin) + ['nosuch']:
        for ot in enums.ObjectType:
            cells, cmeta = [], []
            for op in enums.Operation:
                for user, groups in (('alice', None), ('bob', None), ('alice', ['A'])):
                    obs = bool(real._is_allowed_by_operation_policy(pn, (user, groups), 'alice', ot, op))
                    cells.append('(%s, %s, %s, %s, %s)' % (c_identity(user, groups), c_user('alice'), cp.z(ot.value), cp.z(op.value), cp.boolean(obs)))
                    cmeta.append({'cell': 'builtin:' + pn, 'user': user, 'owner': 'alice', 'groups': groups, 'ot': ot.name, 'op': op.name, 'impl': obs})
                    ctx.case_seen(('builtin', pn, ot.name, op.name, user, groups), nontrivial=True)
                    ctx.count('decision.builtin.%s' % ('allowed' if obs else 'denied'))
                    if obs and not granted_spec(builtin, pn, user, groups, 'alice', ot, op):
                        ctx.violation({'class': 'decision', 'site': 'builtin'}, {'policy_name': pn, 'identity': [user, groups], 'owner': 'alice',
                                                                                 'object_type': ot.name, 'operation': op.name},
                                      'built-in policy %s: engine allows %s on %s without a grant' % (pn, op.name, ot.name))
            cases.append('(default_policies, %s, [%s])' % (cp.string(pn), '; '.join(cells)))
            meta.append(cmeta)
    real._operation_policies = eng.policies

    def explain(name, fn, case, cmeta):
        out = ctx.model_output(HEADER_A, '%s (%s)' % (fn, case))
        m = re.search(r'=\s*(\[[^\]]*\]|nil)', out)
        idx = [int(x) for x in re.findall(r'\d+', m.group(1))] if m and m.group(1) != 'nil' else []
        for j in idx[:6]:
            ctx.disagreement(name, cmeta[j], model_says=not cmeta[j]['impl'], impl_says=cmeta[j]['impl'])
        if not idx:
            ctx.disagreement(name, {'case': cmeta[0]['cell'], 'note': 'could not identify the cell: ' + out[:300]})
    bad = ctx.run_cases('decision', HEADER_A, cases, 'chk_dec', shard=40,
                        what='allowed_by_policy vs KmipEngine._is_allowed_by_operation_policy over the whole abstract decision space '
                             '(one Coq case per policy shape, %d cells in all) + built-in policies' % sum(len(m) for m in meta))
    for i in bad[:4]:
        explain('decision', 'bad_cells', cases[i], meta[i])
    bad1 = ctx.run_cases('is_allowed', HEADER_A, cases1, 'chk_one', shard=60,
                         what='is_allowed vs KmipEngine.is_allowed, per group value (%d cells)' % sum(len(m) for m in meta1))
    for i in bad1[:4]:
        explain('is_allowed', 'bad_cells1', cases1[i], meta1[i])
    ctx.sample({'decision_case': cases[0][:600], 'meta': meta[0][0]})
    ctx.count('decision.cells', sum(len(m) for m in meta) + sum(len(m) for m in meta1))
    return len(space)


def plain_policies(P):
    def sec(s):
        return {ot.name: {op.name: (p.name if isinstance(p, PL) else repr(p)) for op, p in ops.items()} for ot, ops in s.items()}
    out = {}
    for n, b in P.items():
        o = {}
        if 'preset' in b:
            o['preset'] = sec(b['preset'])
        if 'groups' in b:
            o['groups'] = {g: sec(s) for g, s in b['groups'].items()}
        out[n] = o
    return out


# ============================================================================ K(b): engine histories
from kmip.core import objects as cobjects, attributes as cattrs
from kmip.core.messages import payloads

E = enums
CUM = E.CryptographicUsageMask
MASK = (CUM.ENCRYPT, CUM.DECRYPT, CUM.DERIVE_KEY, CUM.WRAP_KEY, CUM.MAC_GENERATE, CUM.SIGN, CUM.VERIFY)
NEVER = '987654321'                       # an identifier that never exists

# batch item operation of each step kind
KIND_OP = {'create': OP.CREATE, 'register': OP.REGISTER, 'create_key_pair': OP.CREATE_KEY_PAIR, 'derive': OP.DERIVE_KEY,
           'locate': OP.LOCATE, 'get': OP.GET, 'get_attributes': OP.GET_ATTRIBUTES, 'get_attribute_list': OP.GET_ATTRIBUTE_LIST,
           'activate': OP.ACTIVATE, 'revoke': OP.REVOKE, 'destroy': OP.DESTROY, 'encrypt': OP.ENCRYPT, 'decrypt': OP.DECRYPT,
           'sign': OP.SIGN, 'signature_verify': OP.SIGNATURE_VERIFY, 'mac': OP.MAC, 'modify_attribute': OP.MODIFY_ATTRIBUTE,
           'delete_attribute': OP.DELETE_ATTRIBUTE, 'set_attribute': OP.SET_ATTRIBUTE}
MUTATING_KINDS = ('activate', 'revoke', 'destroy', 'modify_attribute', 'delete_attribute', 'set_attribute')
ADDR_KINDS = ['get', 'get_attributes', 'get_attribute_list', 'activate', 'revoke', 'destroy', 'encrypt', 'decrypt', 'sign',
              'signature_verify', 'mac', 'modify_attribute', 'delete_attribute', 'set_attribute']
V2_SAFE = ['get', 'get_attributes', 'get_attribute_list', 'activate', 'destroy', 'locate', 'set_attribute', 'modify_attribute', 'revoke']

# The policy operation that must be granted for each way of reaching an object.  Written by hand from the
# property text (see coq/theories/Policy/HandlerSpec.v for the reading); NOT taken from engine.py.
REQUIRED_OP = {'get': OP.GET, 'get_attributes': OP.GET_ATTRIBUTES, 'get_attribute_list': OP.GET_ATTRIBUTE_LIST,
               'activate': OP.ACTIVATE, 'revoke': OP.REVOKE, 'destroy': OP.DESTROY,
               'modify_attribute': OP.MODIFY_ATTRIBUTE, 'delete_attribute': OP.DELETE_ATTRIBUTE, 'set_attribute': OP.SET_ATTRIBUTE,
               'encrypt': OP.GET, 'decrypt': OP.GET, 'sign': OP.GET, 'signature_verify': OP.GET, 'mac': OP.GET,
               'wrap-key': OP.GET, 'derive-base': OP.GET, 'locate': OP.LOCATE}

TYPES = [OT.SYMMETRIC_KEY, OT.PUBLIC_KEY, OT.PRIVATE_KEY, OT.CERTIFICATE, OT.SECRET_DATA, OT.OPAQUE_DATA, OT.SPLIT_KEY]
POLICY_OPS = [OP.GET, OP.GET_ATTRIBUTES, OP.GET_ATTRIBUTE_LIST, OP.ACTIVATE, OP.REVOKE, OP.DESTROY, OP.LOCATE, OP.MODIFY_ATTRIBUTE,
              OP.SET_ATTRIBUTE, OP.DELETE_ATTRIBUTE, OP.DERIVE_KEY, OP.ENCRYPT, OP.DECRYPT, OP.SIGN, OP.SIGNATURE_VERIFY, OP.MAC]
POLICY_NAMES = [None, None, None, 'default', 'public', 'pa', 'pa', 'pa', 'pb', 'pb', 'pc', 'pc', 'pc', 'pd', 'pd', 'ghost']
USERS = ['alice', 'bob', 'carol']
GROUP_MENU = [None, None, None, None, None, None, [], ['G1'], ['G1'], ['G2'], ['G2'], ['G1', 'G2'], ['G2', 'G1'], ['GX'], ['GX', 'G2'], ['']]


def random_policy_document(rng):
    """A policy FILE (JSON document: names of object types, operations, permissions) with preset and/or groups
    sections, object types with DIFFERENT operation sets, missing entries, one policy in the legacy layout."""
    def sec(weights, p_type_missing=0.12, p_op_missing=0.12):
        s = {}
        types = list(TYPES)
        rng.shuffle(types)                       # document order is not enum order
        for t in types:
            if rng.random() < p_type_missing:
                continue
            ops = list(POLICY_OPS)
            rng.shuffle(ops)
            p_miss = rng.choice([p_op_missing, p_op_missing, 0.5])   # some object types list few operations
            om = {}
            for op in ops:
                if rng.random() < p_miss:
                    continue
                om[op.name] = rng.choices(['ALLOW_ALL', 'ALLOW_OWNER', 'DISALLOW_ALL'], weights=weights)[0]
            s[t.name] = om
        return s
    doc = {}
    doc['pa'] = {'preset': sec((4, 5, 1)), 'groups': {'G1': sec((6, 3, 1)), 'G2': sec((3, 5, 2))}}
    doc['pb'] = {'groups': {'G1': sec((5, 4, 1)), 'G2': sec((3, 4, 3))}}
    doc['pc'] = sec((5, 4, 1)) if rng.random() < 0.5 else {'preset': sec((5, 4, 1))}      # legacy layout: the body is the preset
    doc['pd'] = {'preset': sec((6, 3, 1)), 'groups': {'G2': sec((1, 4, 5), 0.3, 0.3)}}
    if rng.random() < 0.3:
        doc['pd']['groups'][''] = sec((1, 1, 8))
    return doc


def doc_to_policies(doc):
    """What a policy document MEANS (docs/source/server.rst), written independently of kmip.core.policy.parse_policy:
    name -> {'preset': section, 'groups': {group: section}}; a body whose keys are object types is the preset."""
    def sec(s):
        return {OT[t]: {OP[op]: PL[p] for op, p in ops.items()} for t, ops in s.items()}
    out = {}
    for name, body in doc.items():
        if not body:
            continue
        if set(body) <= {'preset', 'groups'}:
            b = {}
            if 'preset' in body:
                b['preset'] = sec(body['preset'])
            if 'groups' in body:
                b['groups'] = {g: sec(x) for g, x in body['groups'].items()}
            out[name] = b
        else:
            out[name] = {'preset': sec(body)}
    return out


_doc_counter = [0]


def load_document(ctx, doc):
    """-> (policies for the specification / the model, policies the ENGINE gets = built-ins + the file as loaded by
    kmip.core.policy.read_policy_from_file)"""
    _doc_counter[0] += 1
    path = Path(ctx.work) / ('policy_%d.json' % _doc_counter[0])
    path.write_text(json.dumps(doc, indent=1))
    try:
        loaded = core_policy.read_policy_from_file(str(path))
    finally:
        path.unlink()
    P_engine = copy.deepcopy(core_policy.policies)
    P_engine.update(loaded)
    P_spec = copy.deepcopy(core_policy.policies)
    P_spec.update(doc_to_policies(doc))
    _loaded_cases.append('(%s, %s, %s)' % (c_document(doc), c_policies(loaded), c_policies(doc_to_policies(doc))))
    return P_spec, P_engine


_loaded_cases = []          # every document loaded in this run: (document, loader's result, harness reading of the document)
HEADER_C = ('From Coq Require Import String ZArith List Bool.\n'
            'From PK Require Import Policy.Policy Policy.PolicyFile.\n'
            'Import ListNotations.\nOpen Scope Z_scope.\nOpen Scope string_scope.\n'
            'Definition chk_loaded (c : document * policies * policies) : bool :=\n'
            '  let \'(d, loaded, meaning) := c in policies_eqb (load_document d) loaded && policies_eqb (document_meaning d) meaning.\n')


def policies_from_plain(plain):
    out = {}
    for n, b in plain.items():
        o = {}
        for key in ('preset',):
            if key in b:
                o[key] = {OT[t]: {OP[op]: PL[p] for op, p in ops.items()} for t, ops in b[key].items()}
        if 'groups' in b:
            o['groups'] = {g: {OT[t]: {OP[op]: PL[p] for op, p in ops.items()} for t, ops in s.items()} for g, s in b['groups'].items()}
        out[n] = o
    return out


# ---------------------------------------------------------------------------- request construction
def pol_attr(pol):
    return [kdrv.attr(kdrv.AT.OPERATION_POLICY_NAME, pol)] if pol is not None else []


def extra_attrs(it):
    """multi-valued attributes given at creation: 'ogroups': [text...], 'asi': [[namespace, data]...]"""
    out = []
    for g in it.get('ogroups', ()):
        out.append(kdrv.attr(kdrv.AT.OBJECT_GROUP, g))
    for ns, data in it.get('asi', ()):
        out.append(kdrv.attr(kdrv.AT.APPLICATION_SPECIFIC_INFORMATION, {'application_namespace': ns, 'application_data': data}))
    return out


def build_item(it, version):
    """step item descriptor (plain dict) -> (Operation, payload)"""
    k = it['k']
    uid = it.get('uid')
    v2 = version >= (2, 0)
    if k == 'create':
        return kdrv.create(mask=MASK, names=it.get('names', ()), extra=pol_attr(it.get('pol')) + extra_attrs(it))
    if k == 'register':
        t = OT[it['type']]
        attrs = pol_attr(it.get('pol')) + extra_attrs(it)
        for i, n in enumerate(it.get('names', ())):
            attrs.append(kdrv.attr(kdrv.AT.NAME, kdrv.name_value(n), i))
        if t != OT.OPAQUE_DATA:
            attrs.append(kdrv.attr(kdrv.AT.CRYPTOGRAPHIC_USAGE_MASK, list(MASK)))
        return kdrv.register(t, attrs=attrs)
    if k == 'create_key_pair':
        return kdrv.create_key_pair(common=[kdrv.attr(kdrv.AT.CRYPTOGRAPHIC_ALGORITHM, E.CryptographicAlgorithm.RSA),
                                            kdrv.attr(kdrv.AT.CRYPTOGRAPHIC_LENGTH, 1024)] + pol_attr(it.get('pol')))
    if k == 'derive':
        dp = cattrs.DerivationParameters(
            cryptographic_parameters=cattrs.CryptographicParameters(hashing_algorithm=E.HashingAlgorithm.SHA_256))
        return kdrv.derive_key(it['uids'], params=dp,
                               attrs=kdrv.sym_attrs(E.CryptographicAlgorithm.AES, 128, MASK) + pol_attr(it.get('pol')),
                               otype=(OT.CERTIFICATE if it.get('prefail') else OT.SYMMETRIC_KEY))
    if k == 'locate':
        return kdrv.locate([kdrv.attr(kdrv.AT.OBJECT_TYPE, OT[it['type']])] if it.get('type') else [],
                           offset=it.get('offset'), maximum=it.get('maximum'))
    if k == 'get':
        wrap = None
        if it.get('wrap') is not None:
            wrap = cobjects.KeyWrappingSpecification(
                wrapping_method=E.WrappingMethod.ENCRYPT,
                encryption_key_information=cobjects.EncryptionKeyInformation(
                    unique_identifier=it['wrap'],
                    cryptographic_parameters=cattrs.CryptographicParameters(block_cipher_mode=E.BlockCipherMode.NIST_KEY_WRAP)),
                encoding_option=E.EncodingOption.NO_ENCODING)
        return kdrv.get(uid, wrap=wrap,
                        compression=(E.KeyCompressionType.EC_PUBLIC_KEY_TYPE_UNCOMPRESSED if it.get('prefail') else None))
    if k == 'get_attributes':
        return kdrv.get_attributes(uid)
    if k == 'get_attribute_list':
        return kdrv.get_attribute_list(uid)
    if k == 'activate':
        return kdrv.activate(uid)
    if k == 'revoke':
        return kdrv.revoke(uid, code=(E.RevocationReasonCode.KEY_COMPROMISE if it.get('compromise') else E.RevocationReasonCode.CESSATION_OF_OPERATION))
    if k == 'destroy':
        return kdrv.destroy(uid)
    cbc = kdrv.crypto_params(block_cipher_mode=E.BlockCipherMode.CBC, padding_method=E.PaddingMethod.PKCS5,
                             cryptographic_algorithm=E.CryptographicAlgorithm.AES)
    if k == 'encrypt':
        return kdrv.encrypt(uid, cbc, b'sixteen byte msg', iv=b'\0' * 16)
    if k == 'decrypt':
        return kdrv.decrypt(uid, cbc, b'\x11' * 32, iv=b'\0' * 16)
    rsa = kdrv.crypto_params(padding_method=E.PaddingMethod.PSS, hashing_algorithm=E.HashingAlgorithm.SHA_256,
                             cryptographic_algorithm=E.CryptographicAlgorithm.RSA)
    if k == 'sign':
        return kdrv.sign(uid, rsa, b'data')
    if k == 'signature_verify':
        return kdrv.signature_verify(uid, rsa, b'data', b'\x01' * 128)
    if k == 'mac':
        return (OP.MAC, payloads.MACRequestPayload(
            unique_identifier=(cattrs.UniqueIdentifier(uid) if uid is not None else None),
            cryptographic_parameters=kdrv.crypto_params(cryptographic_algorithm=E.CryptographicAlgorithm.HMAC_SHA256),
            data=cobjects.Data(b'data')))
    if k == 'modify_attribute':
        what = it.get('attr')
        if v2:
            if what == 'group':
                return kdrv.modify_attribute_v2(uid, kdrv.attr_value('OBJECT_GROUP', it['val']),
                                                kdrv.attr_value('OBJECT_GROUP', it['old']) if it.get('old') else None)
            return kdrv.modify_attribute_v2(uid, kdrv.attr_value('SENSITIVE', bool(it.get('flag'))))
        if what == 'group':
            return kdrv.modify_attribute_v1(uid, kdrv.attr(kdrv.AT.OBJECT_GROUP, it['val'], it.get('index', 0)))
        if what == 'asi':
            return kdrv.modify_attribute_v1(uid, kdrv.attr(kdrv.AT.APPLICATION_SPECIFIC_INFORMATION,
                                                           {'application_namespace': it['val'][0], 'application_data': it['val'][1]}, it.get('index', 0)))
        if what == 'name':
            return kdrv.modify_attribute_v1(uid, kdrv.attr(kdrv.AT.NAME, kdrv.name_value(it['val']), it.get('index', 0)))
        return kdrv.modify_attribute_v1(uid, kdrv.attr(kdrv.AT.NAME, kdrv.name_value('n%d' % it.get('n', 0)), 0))
    if k == 'delete_attribute':
        return kdrv.delete_attribute_v1(uid, {'group': 'Object Group', 'asi': 'Application Specific Information'}.get(it.get('attr'), 'Name'),
                                        it.get('index', 0))
    if k == 'set_attribute':
        return kdrv.set_attribute(uid, kdrv.attr_value('SENSITIVE', bool(it.get('flag'))))
    raise KeyError(k)


def schema_links(path):
    """How the tables of the data store hang on managed objects, read from the schema itself (PRAGMA), so that a new
    table is either classified or refused: uid tables (column `uid`), child tables (a foreign key to a uid table;
    further foreign keys are followed to the row they reference, e.g. the object_group_map -> object_groups row)."""
    import sqlite3
    con = sqlite3.connect(path)
    try:
        tables = [r[0] for r in con.execute("select name from sqlite_master where type='table'") if r[0] != 'sqlite_sequence']
        cols = {t: [r[1] for r in con.execute('pragma table_info("%s")' % t)] for t in tables}
        fks = {t: [(r[3], r[2], r[4]) for r in con.execute('pragma foreign_key_list("%s")' % t)] for t in tables}   # (from, table, to)
    finally:
        con.close()
    uid_tables = [t for t in tables if 'uid' in cols[t]]
    child, referenced = {}, set()
    for t in tables:
        if t in uid_tables:
            continue
        own = [(c, rt) for c, rt, rc in fks[t] if rt in uid_tables and rc == 'uid']
        if own:
            others = {c: (rt, rc) for c, rt, rc in fks[t] if not (rt in uid_tables and rc == 'uid')}
            child[t] = (own[0][0], others)
            referenced.update(rt for rt, _ in others.values())
    unknown = [t for t in tables if t not in uid_tables and t not in child and t not in referenced]
    if unknown:
        raise RuntimeError('data store tables the C03 oracle cannot attach to an object: %r' % unknown)
    return {'uid': uid_tables, 'child': child}


def object_states(dump, links):
    """{uid text: canonical full state of the object}: its row in every uid table and, for every child table, the
    multiset of its rows with surrogate ids dropped and references replaced by the content of the referenced row."""
    st = {}
    for t in links['uid']:
        for r in dump.get(t, []):
            st.setdefault(str(r['uid']), {})[t] = tuple(sorted((k, v) for k, v in r.items() if k != 'uid'))
    for t, (own, others) in links['child'].items():
        index = {rt: {r[rc]: r for r in dump.get(rt, [])} for rt, rc in others.values()}
        for r in dump.get(t, []):
            content = []
            for k, v in r.items():
                if k == own or k == 'id':
                    continue
                if k in others:
                    rt, rc = others[k]
                    ref = index[rt].get(v)
                    v = tuple(sorted((a, b) for a, b in ref.items() if a != rc)) if ref is not None else ('dangling', v)
                content.append((k, v))
            st.setdefault(str(r[own]), {}).setdefault(t, []).append(tuple(sorted(content, key=repr)))
    out = {}
    for u, d in st.items():
        out[u] = tuple(sorted(((t, tuple(sorted(v, key=repr)) if isinstance(v, list) else v) for t, v in d.items()), key=repr))
    return out


def rows_of(dump):
    """{uid text: (object type value, owner, policy name)}"""
    return {str(r['uid']): (r['object_type'], r['owner'], r['operation_policy_name']) for r in dump.get('managed_objects', [])}


def content_of(states, u):
    """abstract content of object u: one (table, value id) pair per table of the data store that has rows for it; the value
    id is a digest of the object's canonical rows there (see object_states: shared rows are resolved to their content)"""
    import hashlib
    kinds = {}
    for t, v in states.get(u, ()):
        # the object's own rows (managed_objects and the class tables keyed by uid) form one kind, every table of
        # multi-valued attributes (names, object groups, application specific information) a kind of its own
        kind = CONTENT_KINDS.get(t, 'row')
        kinds.setdefault(kind, []).append((t, v))
    return [(k, hashlib.md5(repr(sorted(v, key=repr)).encode()).hexdigest()[:8]) for k, v in sorted(kinds.items())]


CONTENT_KINDS = {'managed_object_names': 'names', 'object_group_map': 'groups', 'app_specific_info_map': 'asi'}


def c_content(c):
    return cp.lst(c, lambda kv: '(%s, %s)' % (cp.string(kv[0]), cp.string(kv[1])))


def c_obj(u, row, content=()):
    return '{| o_uid := %s; o_type := %s; o_owner := %s; o_pol := %s; o_content := %s |}' % (
        cp.string(u), cp.z(row[0]), c_user(row[1]), cp.string(row[2]), c_content(list(content)))


def c_request(it, obs_ok, new, match, each_ok=(), upd=None):
    return ('{| r_op := %s; r_uid := %s; r_uids := %s; r_each_ok := %s; r_wrap := %s; r_pre_ok := %s; r_post_ok := %s; r_match := %s; r_upd := %s; r_new := %s |}' % (
        cp.z(KIND_OP[it['k']].value), cp.option(it.get('uid'), cp.string), cp.lst(it.get('uids', []), cp.string),
        cp.lst(list(each_ok), cp.boolean), cp.option(it.get('wrap'), cp.string), cp.boolean(not it.get('prefail')), cp.boolean(obs_ok),
        cp.option(match, lambda l: cp.lst(l, cp.string)), cp.option(upd, c_content),
        cp.lst(new, lambda n: '(%s, %s, %s, %s)' % (cp.string(n[0]), cp.z(n[1]), cp.string(n[2]), c_content(n[3] if len(n) > 3 else [])))))


def new_objects(it, resp):
    """(uid, type value, policy name) of the objects a successful creator reports"""
    p = resp['payload'] or {}
    pol = it.get('pol') or 'default'
    k = it['k']
    if k == 'create' or k == 'derive':
        return [(str(p['unique_identifier']), OT.SYMMETRIC_KEY.value, pol)]
    if k == 'register':
        return [(str(p['unique_identifier']), OT[it['type']].value, pol)]
    if k == 'create_key_pair':
        return [(str(p['public_key_unique_identifier']), OT.PUBLIC_KEY.value, pol),
                (str(p['private_key_unique_identifier']), OT.PRIVATE_KEY.value, pol)]
    return []


def item_ids(it, resp):
    p = resp['payload'] or {}
    if it['k'] == 'locate':
        return [str(u) for u in (p.get('unique_identifiers') or [])]
    return [n[0] for n in new_objects(it, resp)]


# ---------------------------------------------------------------------------- the direct oracle on one request
def hist_signature(P, user, groups, row, op, extra):
    sig = {'class': 'history'}
    if groups is not None and '' in groups and row is not None and granted_spec(P, row[2], user, None, row[1], OT(row[0]), op):
        sig = {'class': 'empty-group-name'}       # explained by: "" treated as no group information -> preset
    sig.update(extra)
    return sig


def oracle_request(ctx, eng, P, step, resp, rows0, dump0, dump1, notfound_tpl, report, unsuitable, links=None):
    """Evaluate the property on one processed request.  `report(sig, detail, what)` records a violation."""
    user, groups = step['user'], step['groups']
    rows = dict(rows0)
    ph = None
    may_change = set()
    items = step['items']
    single = len(items) == 1
    any_refused_or_ungranted = False
    for it, r in zip(items, resp['items']):
        k = it['k']
        ok = r['status'] == 'SUCCESS'
        targets = []
        if k in ADDR_KINDS:
            u = it.get('uid') if it.get('uid') else ph
            targets.append(('primary', u, REQUIRED_OP[k]))
            if k == 'get' and it.get('wrap') is not None:
                targets.append(('wrap-key', it['wrap'], REQUIRED_OP['wrap-key']))
        elif k == 'derive':
            targets += [('derive-base', u, REQUIRED_OP['derive-base']) for u in it['uids']]
        reached = True                    # every earlier target exists and is granted
        for role, u, op in targets:
            row = rows.get(u) if u is not None else None
            if row is None:
                break                     # not found: the handler stops here
            if granted_spec(P, row[2], user, groups, row[1], OT(row[0]), op):
                if not ok and r['reason'] == 'PERMISSION_DENIED' and r['message'] == notfound_tpl.replace(NEVER, u):
                    # the engine is stricter than the property demands here (allowed in the "only if" direction,
                    # e.g. group information + preset-only policy); the handler stopped at this object
                    ctx.count('history.restrictive(granted by the property text, refused by the engine)')
                    break
                if role == 'derive-base' and unsuitable(u, row):
                    break                 # DeriveKey checks each base right after loading it and stops at an unsuitable one
                continue
            any_refused_or_ungranted = True
            where = {'identity': [user, groups], 'item': it, 'role': role, 'object': {'uid': u, 'type': OT(row[0]).name, 'owner': row[1], 'policy': row[2]},
                     'needs': op.name, 'answer': {k2: r[k2] for k2 in ('status', 'reason', 'message')}}
            sig = lambda x: hist_signature(P, user, groups, row, op, dict(kind=k, role=role, fails=x))
            if it.get('prefail'):
                if ok:
                    report(sig('success'), where, '%s took effect on / disclosed object %s without a grant of %s' % (k, u, op.name))
                break
            if ok:
                report(sig('success'), where, '%s succeeded for %r on object %s (%s, owner %s, policy %s) without a grant of %s' % (
                    k, (user, groups), u, OT(row[0]).name, row[1], row[2], op.name))
            elif reached and role in ('primary', 'derive-base'):
                want = notfound_tpl.replace(NEVER, u)
                if r['reason'] != 'PERMISSION_DENIED' or r['message'] != want or r['payload'] is not None:
                    report(sig('answer'), dict(where, expected={'reason': 'PERMISSION_DENIED', 'message': want}),
                           'denied %s on object %s is not answered with the permission error carrying the not-found text' % (k, u))
            elif reached and role == 'wrap-key' and single:
                # the answer must be the one for a wrapping key that does not exist
                ref = eng.request([build_item(dict(it, wrap=NEVER), tuple(step['version']))], version=tuple(step['version']),
                                  user=user, groups=groups)['items'][0]
                if (r['status'], r['reason'], r['message'], r['payload']) != (ref['status'], ref['reason'], ref['message'], ref['payload']):
                    report(sig('answer'), dict(where, expected={k2: ref[k2] for k2 in ('status', 'reason', 'message')}),
                           'Get with an ungranted wrapping key %s is answered differently from a wrapping key that does not exist' % u)
            break
        # Locate lists only what the requester may locate
        if k == 'locate' and ok:
            for u in item_ids(it, r):
                row = rows.get(u)
                if row is None or not granted_spec(P, row[2], user, groups, row[1], OT(row[0]), OP.LOCATE):
                    report(hist_signature(P, user, groups, row, OP.LOCATE, dict(kind='locate', role='listed', fails='listed')),
                           {'identity': [user, groups], 'item': it, 'listed': u, 'row': row},
                           'Locate lists object %s which %r may not locate' % (u, (user, groups)))
        # a refusal with the access-control text changes nothing (checked on the whole database below)
        if not ok and r['reason'] == 'PERMISSION_DENIED' and r['message'].startswith(notfound_tpl.split(NEVER)[0]):
            any_refused_or_ungranted = True
        # the one object a successful item may change: its primary object, and only under a grant
        if ok and k in MUTATING_KINDS:
            u = it.get('uid') if it.get('uid') else ph
            row = rows.get(u) if u is not None else None
            if row is not None and granted_spec(P, row[2], user, groups, row[1], OT(row[0]), REQUIRED_OP[k]):
                may_change.add(u)
        # track the store and the ID placeholder the way the protocol defines them
        if ok:
            for (nu, nt, npol) in new_objects(it, r):
                rows[nu] = (nt, user, npol)
                ph = nu
            if k == 'destroy':
                rows.pop(it.get('uid') if it.get('uid') else ph, None)
    # a request all of whose items failed, one of them for lack of a grant, leaves the database untouched
    if any_refused_or_ungranted and all(r['status'] != 'SUCCESS' for r in resp['items']) and dump0 != dump1:
        report({'class': 'history', 'fails': 'store-changed'}, {'identity': [user, groups], 'items': items},
               'a refused request changed the database')
    # NOTHING about any other object changes: the full attribute state (every table row that hangs on the object, names,
    # object groups, application specific information, state, masks, ...) of every object that existed before the request
    # and is not the granted primary object of one of its successful items is the same afterwards - also when the request
    # succeeded on the requester's own objects (an effect through shared rows of the data store is an effect all the same)
    if links is not None:
        st0, st1 = object_states(dump0, links), object_states(dump1, links)
        for u in sorted(st0, key=int):
            if u in may_change or u not in rows0:
                continue
            if u not in st1 or st0[u] != st1[u]:
                row = rows0[u]
                diff = [t for t in dict(st0[u]) if dict(st0[u]).get(t) != dict(st1.get(u, ())).get(t)] if u in st1 else ['(object gone)']
                report({'class': 'history', 'fails': 'foreign-object-changed'},
                       {'identity': [user, groups], 'items': items, 'object': {'uid': u, 'type': OT(row[0]).name, 'owner': row[1], 'policy': row[2]},
                        'tables_that_differ': diff,
                        'before': repr([x for x in st0[u] if x[0] in diff])[:600], 'after': repr([x for x in st1.get(u, ()) if x[0] in diff])[:600]},
                       'object %s (owner %s) changed (%s) by a request of %r that does not address it under a grant' % (
                           u, row[1], ', '.join(diff), (user, groups)))
    # the access-control columns of surviving rows never change; new rows belong to the requester
    rows1 = rows_of(dump1)
    for u, row in rows1.items():
        if u in rows0:
            if rows0[u] != row:
                report({'class': 'history', 'fails': 'columns-changed'}, {'uid': u, 'before': rows0[u], 'after': row, 'items': items},
                       'type/owner/policy of object %s changed from %r to %r' % (u, rows0[u], row))
        elif row[1] != user:
            report({'class': 'history', 'fails': 'owner-not-creator'}, {'uid': u, 'row': row, 'identity': [user, groups]},
                   'object %s created by %r has owner %r' % (u, user, row[1]))
    # ... and are governed by exactly the policy name the creator asked for (character for character)
    for it, r in zip(items, resp['items']):
        if r['status'] == 'SUCCESS':
            for (nu, nt, npol) in new_objects(it, r):
                if nu in rows1 and rows1[nu][2] != npol:
                    report({'class': 'history', 'fails': 'policy-name-not-requested'},
                           {'uid': nu, 'requested': npol, 'stored': rows1[nu][2], 'identity': [user, groups], 'item': it},
                           'object %s was created under policy %r but is stored under policy %r' % (nu, npol, rows1[nu][2]))


# ---------------------------------------------------------------------------- running a history
def run_history(ctx, P, steps, want_case=True, count=False, P_engine=None, transport=None):
    """Run `steps` on a fresh engine.  -> (coq case | None, violations [(sig, detail, what, step index)], observed log)"""
    eng = kdrv.Engine(policies=copy.deepcopy(P_engine if P_engine is not None else P), workdir=ctx.work)
    viol, hsteps, log = [], [], []
    try:
        ref = eng.request([kdrv.get(NEVER)])['items'][0]
        notfound_tpl = ref['message']
        if ref['reason'] != 'ITEM_NOT_FOUND' or NEVER not in (notfound_tpl or ''):
            raise RuntimeError('unexpected answer for an identifier that does not exist: %r' % ref)
        dump0 = eng.dump()
        links = schema_links(eng.path)
        pair_made = set()                 # key pairs are created without the DeriveKey mask bit
        suitable_types = (OT.SECRET_DATA.value, OT.SYMMETRIC_KEY.value, OT.PUBLIC_KEY.value, OT.PRIVATE_KEY.value)

        def unsuitable(u, row):
            return u in pair_made or row[0] not in suitable_types
        creators = {}                     # uid -> identity that created it, kept by the harness (not read back from the store)
        for si, step in enumerate(steps):
            if step.get('restart'):
                # a new engine object on the same database: nothing about any object may differ, and the creators stay the owners
                eng.restart()
                d = eng.dump()
                if d != dump0:
                    viol.append(({'class': 'history', 'fails': 'restart-changed-store'}, {'step': si}, 'restarting the engine changed the data store', si))
                dump0 = d
                log.append([{'restart': True}])
                continue
            rows0 = rows_of(dump0)
            version = tuple(step['version'])
            items = [build_item(it, version) for it in step['items']]
            if transport is not None:        # e.g. through a real KmipSession that establishes the identity itself
                resp = transport(eng, step, items)
            else:
                resp = eng.request(items, version=version, user=step['user'], groups=step['groups'],
                                   batch_option=(E.BatchErrorContinuationOption.CONTINUE if step.get('cont') else None))
            if resp['error'] is not None:
                raise RuntimeError('request-level error in a generated history: %r' % resp['error'])
            dump1 = eng.dump()
            oracle_request(ctx, eng, P, step, resp, rows0, dump0, dump1, notfound_tpl,
                           lambda sig, detail, what: viol.append((sig, detail, what, si)), unsuitable, links)
            for it, r in zip(step['items'], resp['items']):
                if it['k'] == 'create_key_pair' and r['status'] == 'SUCCESS':
                    pair_made.update(n[0] for n in new_objects(it, r))
            log.append([{k2: r[k2] for k2 in ('op', 'status', 'reason', 'message')} for r in resp['items']])
            for it, r in zip(step['items'], resp['items']):
                if r['status'] == 'SUCCESS':
                    for n in new_objects(it, r):
                        creators[n[0]] = step['user']
            for u, row in rows_of(dump1).items():
                if u in creators and row[1] != creators[u]:
                    viol.append(({'class': 'history', 'fails': 'owner-not-creator'},
                                 {'uid': u, 'created_by': creators[u], 'owner_column': row[1], 'after_step': si},
                                 'object %s was created by %r but its owner is %r' % (u, creators[u], row[1]), si))
                    break
            if want_case or count:
                rows_run = dict(rows0)
                c_items, c_obs = [], []
                st1 = object_states(dump1, links)
                rows_end = rows_of(dump1)
                ph_run = None
                for k, it in enumerate(step['items']):
                    r = resp['items'][k] if k < len(resp['items']) else None
                    ok = r is not None and r['status'] == 'SUCCESS'
                    # oracle inputs of the model: the content the data store holds AFTER THE REQUEST for the objects this item
                    # created / whose attributes it wrote (a request is the unit of observation)
                    new = [n + (content_of(st1, n[0]) if n[0] in rows_end else [],) for n in new_objects(it, r)] if ok else []
                    upd = None
                    if ok and it['k'] in ('activate', 'revoke', 'modify_attribute', 'delete_attribute', 'set_attribute'):
                        pu = it.get('uid') if it.get('uid') else ph_run
                        if pu is not None and pu in rows_end:
                            upd = content_of(st1, pu)
                    if new:
                        ph_run = new[-1][0]
                    match = None
                    if it['k'] == 'locate' and it.get('type'):
                        match = sorted(u for u, row in rows_run.items() if row[0] == OT[it['type']].value)
                    for n in new:
                        rows_run[n[0]] = (n[1], step['user'], n[2])
                    each_ok = [not (u in rows_run and unsuitable(u, rows_run[u])) for u in it.get('uids', [])]
                    c_items.append(c_request(it, ok, new, match, each_ok, upd))
                    if r is not None:
                        c_obs.append('{| ob_ok := %s; ob_reason := %s; ob_msg := %s; ob_ids := %s; ob_partial := %s |}' % (
                            cp.boolean(ok), cp.string(r['reason'] or ''), cp.string(r['message'] or ''),
                            cp.lst(item_ids(it, r) if ok else [], cp.string),
                            cp.boolean(it.get('offset') is not None or it.get('maximum') is not None)))
                        if count:
                            cls = ('success' if ok else 'denied' if (r['reason'] == 'PERMISSION_DENIED' and r['message'].startswith(notfound_tpl.split(NEVER)[0]))
                                   else 'not-found' if (r['reason'] == 'ITEM_NOT_FOUND' and r['message'].startswith(notfound_tpl.split(NEVER)[0]))
                                   else 'wrap-key-masked' if r['message'] == 'Wrapping key does not exist.' else 'other-failure')
                            ctx.count('history.%s.%s' % (it['k'], cls))
                            ctx.case_seen(('h', it['k'], it.get('uid') is None, cls, step['groups'], rows0.get(it.get('uid') or '', (None, None, None))[2],
                                           step['user'] == rows0.get(it.get('uid') or '', (None, None, None))[1]), nontrivial=True)
                rows1 = rows_of(dump1)
                q = '{| q_id := %s; q_cont := %s; q_items := %s |}' % (c_identity(step['user'], step['groups']), cp.boolean(bool(step.get('cont'))),
                                                                        '[' + '; '.join(c_items) + ']')
                hsteps.append('(%s, [%s], [%s])' % (q, '; '.join(c_obs),
                                                    '; '.join(c_obj(u, rows1[u], content_of(st1, u)) for u in sorted(rows1, key=int))))
            dump0 = dump1
    finally:
        eng.close()
    case = '(%s, [\n   %s])' % (c_policies(P), ';\n   '.join(hsteps)) if want_case else None
    return case, viol, log


# ---------------------------------------------------------------------------- generating histories
def gen_history_live(ctx, rng, P, n_steps, locate_bias=False, identity_table=None):
    """Generate a history step by step against a scratch engine so that identifiers aim at live objects."""
    eng = kdrv.Engine(policies=copy.deepcopy(P), workdir=ctx.work)
    steps = []
    gone = [NEVER]
    try:
        for si in range(n_steps):
            rows = rows_of(eng.dump())
            known = sorted(rows, key=int)

            def pick_uid():
                x = rng.random()
                if known and x < 0.84:
                    return rng.choice(known)
                if x < 0.92:
                    return rng.choice(gone)
                return None
            user = rng.choice(USERS)
            groups = rng.choice(GROUP_MENU)
            focus = rng.choice(known) if known else None      # most requests of this step aim at one object ...
            if focus is not None and rng.random() < 0.6:
                user = rows[focus][1] or user                  # ... and are made by its owner more often than not
            if focus is not None and groups not in (None, []) and rows[focus][2] in ('default', 'pc') and rng.random() < 0.7:
                groups = None                                  # preset-only policies are useless with group information (F10)
            if focus is not None:
                base_pick = pick_uid

                def pick_uid(base_pick=base_pick, focus=focus):
                    return focus if rng.random() < 0.6 else base_pick()
            if identity_table is not None:
                # the group list is not chosen by the requester: it is what the directory service says about the user
                if user not in identity_table:
                    user = rng.choice(sorted(identity_table))
                if rng.random() < 0.35:
                    user = rng.choice(sorted(identity_table))
                groups = identity_table[user]
            version = (1, 2)
            items = []
            x = rng.random()
            if si < 4 or x < (0.35 if locate_bias else 0.18):
                y = rng.random()
                pol = rng.choice(POLICY_NAMES)
                if y < 0.45:
                    items.append({'k': 'create', 'pol': pol})
                elif y < 0.96:
                    items.append({'k': 'register', 'type': rng.choice(TYPES).name, 'pol': pol})
                else:
                    items.append({'k': 'create_key_pair', 'pol': pol})
                if items[-1]['k'] != 'create_key_pair':
                    # different owners use EQUAL multi-valued attribute values (small menus)
                    if rng.random() < 0.5:
                        items[-1]['ogroups'] = [rng.choice(SHARED_GROUPS)]
                    if rng.random() < 0.4:
                        items[-1]['asi'] = [list(rng.choice(SHARED_ASI))]
                    if rng.random() < 0.4:
                        items[-1]['names'] = [rng.choice(SHARED_NAMES)]
                if rng.random() < 0.35:
                    items.append({'k': rng.choice(ADDR_KINDS[:6]), 'uid': None})
            elif x < (0.55 if locate_bias else 0.28):
                it = {'k': 'locate', 'type': rng.choice([None, None, 'SYMMETRIC_KEY', 'CERTIFICATE', 'PUBLIC_KEY'])}
                if rng.random() < 0.3:
                    it['offset'] = rng.choice([0, 1, 2])
                if rng.random() < 0.3:
                    it['maximum'] = rng.choice([1, 2, 5])
                items.append(it)
            elif x < (0.58 if locate_bias else 0.35):
                it = {'k': 'derive', 'uids': [pick_uid() or NEVER for _ in range(rng.choice([1, 1, 2]))], 'pol': rng.choice(POLICY_NAMES)}
                if rng.random() < 0.1:
                    it['prefail'] = True
                items.append(it)
            elif x < 0.42:
                items.append({'k': 'get', 'uid': pick_uid(), 'wrap': pick_uid() or NEVER})
            elif x < 0.45:
                items.append({'k': 'get', 'uid': pick_uid(), 'prefail': True})
            elif x < 0.52:
                version = (2, 0)
                it = {'k': rng.choice(['set_attribute', 'modify_attribute']), 'uid': pick_uid(), 'flag': rng.random() < 0.5}
                if it['k'] == 'modify_attribute' and rng.random() < 0.5:
                    it.update(attr='group', old=rng.choice(SHARED_GROUPS), val=rng.choice(SHARED_GROUPS + ['renamed-v2']))
                items.append(it)
                if rng.random() < 0.3:
                    k = rng.choice(['get', 'get_attributes', 'destroy', 'locate'])
                    items.append({'k': 'locate', 'type': None} if k == 'locate' else {'k': k, 'uid': pick_uid()})
            else:
                for _ in range(rng.choice([1, 1, 1, 1, 2, 3])):
                    k = rng.choice(ADDR_KINDS[:-1])
                    it = {'k': k, 'uid': pick_uid()}
                    if k == 'revoke':
                        it['compromise'] = rng.random() < 0.5
                    if k == 'modify_attribute':
                        it['n'] = rng.randrange(3)
                        z = rng.random()
                        if z < 0.3:
                            it.update(attr='group', val=rng.choice(SHARED_GROUPS + ['renamed-%d' % rng.randrange(3)]))
                        elif z < 0.45:
                            it.update(attr='asi', val=list(rng.choice(SHARED_ASI + [('ns', 'changed')])))
                        elif z < 0.6:
                            it.update(attr='name', val=rng.choice(SHARED_NAMES + ['other']))
                    if k == 'delete_attribute' and rng.random() < 0.5:
                        it['attr'] = rng.choice(['group', 'asi'])
                    items.append(it)
            step = {'user': user, 'groups': groups, 'version': list(version),
                    'cont': (len(items) > 1 and rng.random() < 0.4), 'items': items}
            steps.append(step)
            resp = eng.request([build_item(it, version) for it in items], version=version, user=user, groups=groups,
                               batch_option=(E.BatchErrorContinuationOption.CONTINUE if step['cont'] else None))
            for it, r in zip(items, resp['items']):
                if it['k'] == 'destroy' and r['status'] == 'SUCCESS' and it.get('uid'):
                    gone.append(it['uid'])
    finally:
        eng.close()
    return steps


# the classic situations, always run first
def corpus():
    own = {'user': 'alice', 'groups': None, 'version': [1, 2], 'cont': False}
    def st(user, groups, items, version=(1, 2), cont=False):
        return {'user': user, 'groups': groups, 'version': list(version), 'cont': cont, 'items': items}
    h1 = [st('alice', None, [{'k': 'create', 'pol': None}]),
          st('alice', None, [{'k': 'register', 'type': 'CERTIFICATE', 'pol': None}]),
          st('alice', None, [{'k': 'create', 'pol': 'pa'}, {'k': 'activate', 'uid': None}]),
          st('alice', None, [{'k': 'register', 'type': 'SECRET_DATA', 'pol': 'pb'}]),
          st('alice', None, [{'k': 'create', 'pol': 'ghost'}])]
    for user, groups in (('bob', None), ('bob', ['G1']), ('bob', ['G1', 'G2']), ('alice', ['G1']), ('bob', []), ('bob', ['']), ('carol', ['GX', 'G2'])):
        for k in ADDR_KINDS[:-1]:
            for u in ('1', '2', '3', '4', '5'):
                if k in ('destroy', 'revoke', 'activate') and user == 'alice':
                    continue
                h1.append(st(user, groups, [{'k': k, 'uid': u}]))
        h1.append(st(user, groups, [{'k': 'locate', 'type': None}]))
        h1.append(st(user, groups, [{'k': 'get', 'uid': '2', 'wrap': '3'}]))
        h1.append(st(user, groups, [{'k': 'get', 'uid': '2', 'wrap': '1'}]))
        h1.append(st(user, groups, [{'k': 'derive', 'uids': ['3', '1'], 'pol': None}]))
        h1.append(st(user, groups, [{'k': 'derive', 'uids': ['1'], 'pol': 'pc'}]))
        h1.append(st(user, groups, [{'k': 'set_attribute', 'uid': '3', 'flag': True}], version=(2, 0)))
        h1.append(st(user, groups, [{'k': 'get', 'uid': None}]))
        h1.append(st(user, groups, [{'k': 'get', 'uid': '1'}, {'k': 'get', 'uid': '2'}, {'k': 'get', 'uid': '3'}], cont=True))
        h1.append(st(user, groups, [{'k': 'get', 'uid': '1'}, {'k': 'get', 'uid': '2'}], cont=False))
    h1.append(st('alice', None, [{'k': 'destroy', 'uid': '1'}]))
    h1.append(st('bob', None, [{'k': 'get', 'uid': '1'}]))
    h1.append(st('bob', None, [{'k': 'create', 'pol': None}, {'k': 'destroy', 'uid': None}]))
    h1.append(st('alice', None, [{'k': 'locate', 'type': None}]))
    return [h1]


SHARED_GROUPS = ['payments', 'ops']
SHARED_ASI = [('ns', 'd1'), ('ns', 'd2')]
SHARED_NAMES = ['shared', 'backup']


def shared_values_corpus():
    """Different owners create objects with EQUAL multi-valued attribute values (object group, application specific
    information, name); each then modifies / deletes those attributes on HIS OWN object (KMIP 1.x by index, 2.0 by
    current/new value).  The other owners' objects must be exactly what they were (full attribute state)."""
    def st(user, items, version=(1, 2)):
        return {'user': user, 'groups': None, 'version': list(version), 'cont': False, 'items': items}
    common = {'pol': None, 'ogroups': ['payments'], 'asi': [['ns', 'd1']], 'names': ['shared']}
    h = []
    for user in ('alice', 'alice', 'bob', 'bob', 'carol', 'carol'):
        h.append(st(user, [dict(common, k='create')]))
    h.append(st('carol', [dict(common, k='register', type='SECRET_DATA')]))
    h.append(st('alice', [dict(common, k='register', type='CERTIFICATE')]))
    for user, a, b in (('bob', '3', '4'), ('alice', '1', '2'), ('carol', '5', '6')):
        h.append(st(user, [{'k': 'modify_attribute', 'uid': a, 'attr': 'group', 'val': user + '-private'}]))
        h.append(st(user, [{'k': 'modify_attribute', 'uid': b, 'attr': 'group', 'old': 'payments', 'val': user + '-archive'}], version=(2, 0)))
        h.append(st(user, [{'k': 'modify_attribute', 'uid': a, 'attr': 'asi', 'val': ['ns', user]}]))
        h.append(st(user, [{'k': 'modify_attribute', 'uid': a, 'attr': 'name', 'val': user + '-key'}]))
        h.append(st(user, [{'k': 'delete_attribute', 'uid': b, 'attr': 'asi'}]))
        h.append(st(user, [{'k': 'delete_attribute', 'uid': b, 'attr': 'group'}]))
        h.append(st(user, [{'k': 'delete_attribute', 'uid': b}]))
        for other in ('alice', 'bob', 'carol'):
            h.append(st(other, [{'k': 'get_attributes', 'uid': '1'}, {'k': 'get_attributes', 'uid': '3'}, {'k': 'get_attributes', 'uid': '5'}]))
            h[-1]['cont'] = True
            h.append(st(other, [{'k': 'locate', 'type': None}]))
    h.append(st('carol', [{'k': 'modify_attribute', 'uid': '7', 'attr': 'group', 'val': 'carol-secret'}]))
    h.append(st('alice', [{'k': 'destroy', 'uid': '1'}]))
    h.append(st('bob', [{'k': 'revoke', 'uid': '3', 'compromise': True}]))
    return [h]


def identity_corpus():
    """Identity strings and policy names at and beyond the column widths of the data store (49/50/51/64/255/256
    characters), identities that are prefixes / suffixes / case variants / whitespace variants of each other, each
    creating an owner-only key and then trying everybody else's, before and after a restart on the same database."""
    def st(user, items):
        return {'user': user, 'groups': None, 'version': [1, 2], 'cont': False, 'items': items}
    base = 'svc-payments-gateway.production.eu-west-1.corp.example.org.and.some.more.'
    base = (base * 5)
    users = [base[:49], base[:50], base[:51], base[:64], base[:255], base[:256],
             'Alice', 'alice', 'alice ', ' alice', 'alic', 'lice', 'ALICE']
    h, uid = [], 0
    pols = [None, LONG_POL[:49], LONG_POL[:50], LONG_POL[:51], LONG_POL[:64]]
    for k, u in enumerate(users):
        h.append(st(u, [{'k': 'create', 'pol': pols[k % len(pols)]}]))
    n = len(users)
    for phase in (0, 1):
        if phase == 1:
            h.append({'restart': True})
        for k, u in enumerate(users):
            h.append(st(u, [{'k': 'get', 'uid': str(k + 1)}]))                        # own key
            h.append(st(u, [{'k': 'get', 'uid': str((k + 1) % n + 1)}]))              # the next one (prefix / variant of this user)
            if phase == 1:
                h.append(st(u, [{'k': 'get', 'uid': str((k - 1) % n + 1)}]))
                h.append(st(u, [{'k': 'get_attributes', 'uid': str((k + 1) % n + 1)}]))
                h.append(st(u, [{'k': 'locate', 'type': None}]))
    for k, u in enumerate(users[:6]):
        h.append(st(users[(k + 1) % 6], [{'k': 'destroy', 'uid': str(k + 1)}]))
        h.append(st(u, [{'k': 'destroy', 'uid': str(k + 1)}]))
    return [h]


LONG_POL = 'policy-for-the-payments-team.with-a-rather-long-name.' * 3


def identity_document(rng):
    """policies whose names differ only beyond the 49th / 50th / 51st character, with different permissions"""
    doc = random_policy_document(rng)
    perms = ['ALLOW_ALL', 'ALLOW_OWNER', 'DISALLOW_ALL', 'ALLOW_OWNER']
    for n, perm in zip((49, 50, 51, 64), perms):
        doc[LONG_POL[:n]] = {'preset': {t.name: {op.name: perm for op in POLICY_OPS} for t in TYPES}}
    return doc


def locate_corpus():
    """Two/three identities creating objects of the same (policy, type) in alternating order, then Locate by each:
    plain, filtered, with offset/maximum.  (An owner-blind or order-dependent listing shows up here.)"""
    def st(user, groups, items):
        return {'user': user, 'groups': groups, 'version': [1, 2], 'cont': False, 'items': items}
    hs = []
    for order in (('bob', 'alice', 'bob', 'carol', 'alice'), ('alice', 'bob', 'alice', 'bob', 'carol')):
        h = []
        for pol in (None, 'pa', 'pc', 'pb'):
            for t in ('SYMMETRIC_KEY', 'CERTIFICATE', 'SECRET_DATA'):
                for u in order[:3] if pol in ('pc', 'pb') else order:
                    h.append(st(u, None, [{'k': 'register', 'type': t, 'pol': pol}]))
        for user, groups in (('alice', None), ('bob', None), ('carol', None), ('bob', ['G1']), ('alice', ['G2', 'G1']), ('dave', None), ('bob', [])):
            h.append(st(user, groups, [{'k': 'locate', 'type': None}]))
            h.append(st(user, groups, [{'k': 'locate', 'type': 'SYMMETRIC_KEY'}]))
            h.append(st(user, groups, [{'k': 'locate', 'type': 'CERTIFICATE', 'offset': 1}]))
            h.append(st(user, groups, [{'k': 'locate', 'type': None, 'offset': 2, 'maximum': 6}]))
            h.append(st(user, groups, [{'k': 'locate', 'type': None, 'maximum': 3}]))
        hs.append(h)
    return hs


def indirect_corpus():
    """Objects reached indirectly: every ordered pair (object, wrapping key) for Get and (base, base) for DeriveKey over six
    keys under different policies, as five identities.  (A wrapping key / base loaded under the wrong operation, or not
    through the choke point, shows up here.)"""
    def st(user, groups, items):
        return {'user': user, 'groups': groups, 'version': [1, 2], 'cont': False, 'items': items}
    h = []
    for user, pol in (('alice', None), ('alice', 'pa'), ('alice', 'pb'), ('bob', 'pc'), ('bob', 'pd'), ('bob', 'pa')):
        h.append(st(user, None, [{'k': 'create', 'pol': pol}, {'k': 'activate', 'uid': None}]))
    ids = [str(k) for k in range(1, 7)]
    for user, groups in (('alice', None), ('bob', None), ('bob', ['G1']), ('carol', ['G2']), ('alice', ['G1', 'G2'])):
        for a in ids:
            for b in ids:
                if a != b:
                    h.append(st(user, groups, [{'k': 'get', 'uid': a, 'wrap': b}]))
                    h.append(st(user, groups, [{'k': 'derive', 'uids': [a, b], 'pol': None}]))
    return [h]


HEADER_B = ('From Coq Require Import String ZArith List Bool.\n'
            'From PK Require Import Policy.Policy Policy.AccessTypes Policy.Access Policy.AccessCases.\n'
            'Import ListNotations.\nOpen Scope Z_scope.\nOpen Scope string_scope.\n')


def shrink(ctx, P, steps, sig, upto, budget=40, P_engine=None, transport=None):
    """Greedy removal of steps while a violation with the same signature still reproduces."""
    cur = steps[:upto + 1]
    def fails(cand):
        try:
            _, v, _ = run_history(ctx, P, cand, want_case=False, P_engine=P_engine, transport=transport)
        except Exception:
            return False
        return any(x[0] == sig for x in v)
    i = len(cur) - 2
    while i >= 0 and budget > 0:
        cand = cur[:i] + cur[i + 1:]
        budget -= 1
        if fails(cand):
            cur = cand
        i -= 1
    return cur


def report_violations(ctx, viol, P, P_engine, doc, steps, state):
    for sig, detail, what, si in viol:
        key = json.dumps(sig, sort_keys=True, default=str)
        if key in state['reported']:
            continue
        state['reported'].add(key)
        known = any(f.get('status') == 'known' and all(k in sig and sig[k] == v for k, v in f['signature'].items()) for f in ctx.findings)
        if known or state['shrunk'] >= 2:
            wsteps = steps[:si + 1]
        else:
            state['shrunk'] += 1
            wsteps = shrink(ctx, P, steps, sig, si, budget=30, P_engine=P_engine)
        ctx.violation(sig, {'kind': 'history', 'policies': plain_policies(P), 'policy_document': doc, 'steps': wsteps, 'detail': detail,
                            'how_to_replay': 'bin/check C03 --replay <this file>: fresh engine whose policies are the built-ins plus the policy '
                                             'document loaded with kmip.core.policy.read_policy_from_file, then the steps in order as the given identities'},
                      what)


def histories(ctx):
    quick = ctx.tier == 'quick'
    n_hist, n_steps = (14, 36) if quick else (160, 70)
    rng = ctx.subrng('histories')
    cases, metas = [], []
    plan = []
    docc = random_policy_document(ctx.subrng('corpus-policies'))
    Pc, Pc_engine = load_document(ctx, docc)
    for k, h in enumerate(corpus()):
        plan.append((Pc, Pc_engine, docc, h, 'corpus-%d' % k))
    for k, h in enumerate(locate_corpus()):
        plan.append((Pc, Pc_engine, docc, h, 'locate-corpus-%d' % k))
    for k, h in enumerate(indirect_corpus()):
        plan.append((Pc, Pc_engine, docc, h, 'indirect-corpus-%d' % k))
    for k, h in enumerate(shared_values_corpus()):
        plan.append((Pc, Pc_engine, docc, h, 'shared-values-corpus-%d' % k))
    doci = identity_document(ctx.subrng('identity-corpus'))
    Pi, Pi_engine = load_document(ctx, doci)
    for k, h in enumerate(identity_corpus()):
        plan.append((Pi, Pi_engine, doci, h, 'identity-corpus-%d' % k))
    for k in range(n_hist):
        doc = random_policy_document(rng)
        P, P_engine = load_document(ctx, doc)
        plan.append((P, P_engine, doc, gen_history_live(ctx, rng, P_engine, n_steps, locate_bias=(k % 4 == 3)), 'seeded-%d' % k))
    state = {'reported': set(), 'shrunk': 0}
    for P, P_engine, doc, steps, label in plan:
        case, viol, log = run_history(ctx, P, steps, want_case=True, count=True, P_engine=P_engine)
        cases.append(case)
        metas.append({'history': label, 'policy_document': doc, 'steps': steps, 'observed': log})
        ctx.count('history.requests', len(steps))
        report_violations(ctx, viol, P, P_engine, doc, steps, state)
    bad = ctx.run_cases('histories', HEADER_B, cases, 'check_history', shard=2,
                        what='process_request/run of Policy/Access.v (policies = the policy DOCUMENT) vs KmipEngine.process_request (policies = the '
                             'document loaded by read_policy_from_file) on whole histories: outcome class, reason, message, Locate ids, '
                             '(uid, type, owner, policy) rows after every request')
    for i in bad[:5]:
        first = ctx.model_output(HEADER_B, 'first_bad (fst (%s)) empty_store (snd (%s)) 0' % (cases[i], cases[i]))
        ctx.disagreement('histories', {'history': metas[i]['history'], 'policy_document': metas[i]['policy_document'], 'steps': metas[i]['steps'],
                                       'observed': metas[i]['observed']}, model_says=first[:1500])
    if metas:
        ctx.sample({'history': metas[-1]['history'], 'first_steps': metas[-1]['steps'][:6], 'observed': metas[-1]['observed'][:6]})
    # ---- finder: a tie or an obligation is broken and no concrete failing input yet -> search with the direct oracle
    if ctx.broken and not ctx.violations:
        ctx.log('broken: %s - searching for a concrete failing input with the direct oracle' % ', '.join(sorted({b['name'] for b in ctx.broken})))
        frng = ctx.subrng('finder')
        # first the disagreeing histories again (oracle already ran on them), then fresh ones biased to listings and creators
        for k in range(30 if quick else 80):
            doc = random_policy_document(frng)
            P, P_engine = load_document(ctx, doc)
            steps = gen_history_live(ctx, frng, P_engine, 50, locate_bias=(k % 2 == 0))
            _, viol, _ = run_history(ctx, P, steps, want_case=False, P_engine=P_engine)
            ctx.count('finder.histories')
            report_violations(ctx, viol, P, P_engine, doc, steps, state)
            if ctx.violations:
                break
    return bad, metas


# ---------------------------------------------------------------------------- K(a'): policy documents through the file loader
def document_cases(ctx, eng):
    """The decision on policies that went through kmip.core.policy.read_policy_from_file, against the model and
    granted_spec evaluated on the DOCUMENT."""
    import re
    rng = ctx.subrng('documents')
    real = eng.engine
    idents = [('alice', None), ('bob', None), ('bob', ['G1']), ('bob', ['G2', 'G1']), ('alice', ['G2']), ('bob', ['GX'])]
    cases, meta = [], []
    fixed = {'two-types': {'preset': {'CERTIFICATE': {'LOCATE': 'ALLOW_ALL', 'GET': 'ALLOW_ALL', 'GET_ATTRIBUTES': 'ALLOW_ALL'},
                                       'SYMMETRIC_KEY': {'GET': 'ALLOW_OWNER', 'DESTROY': 'ALLOW_OWNER'}}},
             'legacy': {'SYMMETRIC_KEY': {'GET': 'ALLOW_ALL'}, 'CERTIFICATE': {'DESTROY': 'DISALLOW_ALL', 'LOCATE': 'ALLOW_OWNER'}},
             'groups-two-types': {'groups': {'G1': {'SECRET_DATA': {'GET': 'ALLOW_ALL'}, 'SYMMETRIC_KEY': {'LOCATE': 'ALLOW_ALL'}},
                                             'G2': {'SYMMETRIC_KEY': {'GET': 'ALLOW_OWNER'}}}},
             'empty-body': {}, 'empty-preset': {'preset': {}}, 'empty-groups': {'preset': {'SYMMETRIC_KEY': {'GET': 'ALLOW_ALL'}}, 'groups': {}}}
    docs = [fixed] + [random_policy_document(rng) for _ in range(6 if ctx.tier == 'quick' else 50)]
    for di, doc in enumerate(docs):
        P_spec, P_engine = load_document(ctx, doc)
        real._operation_policies = P_engine
        for pn in doc:
            cells, cmeta = [], []
            for ot in TYPES:
                for op in POLICY_OPS:
                    for user, groups in idents:
                        obs = bool(real._is_allowed_by_operation_policy(pn, (user, groups), 'alice', ot, op))
                        cells.append('(%s, %s, %s, %s, %s)' % (c_identity(user, groups), c_user('alice'), cp.z(ot.value), cp.z(op.value), cp.boolean(obs)))
                        cmeta.append({'document': di, 'policy': pn, 'user': user, 'owner': 'alice', 'groups': groups, 'ot': ot.name, 'op': op.name, 'impl': obs})
                        ctx.case_seen(('doc', di, pn, ot.name, op.name, user, tuple(groups) if groups else groups), nontrivial=True)
                        ctx.count('document.%s' % ('allowed' if obs else 'denied'))
                        if obs and not granted_spec(P_spec, pn, user, groups, 'alice', ot, op):
                            ctx.violation({'class': 'policy-file', 'site': 'read_policy_from_file'},
                                          {'policy_document': doc, 'policy_name': pn, 'identity': [user, groups], 'owner': 'alice',
                                           'object_type': ot.name, 'operation': op.name, 'allowed': True, 'granted_by_document': False,
                                           'how': 'write the document to a file, kmip.core.policy.read_policy_from_file(path), give the result to '
                                                  'KmipEngine(policies=...), call _is_allowed_by_operation_policy(policy_name, identity, owner, object_type, operation)'},
                                          'policy file: the engine allows %s on %s for %r under policy %s although the document does not grant it' % (
                                              op.name, ot.name, (user, groups), pn))
            cases.append('(%s, %s, [%s])' % (c_policies(P_spec), cp.string(pn), '; '.join(cells)))
            meta.append((cmeta, doc))
    real._operation_policies = eng.policies
    bad = ctx.run_cases('documents', HEADER_A, cases, 'chk_dec', shard=6,
                        what='allowed_by_policy on the policy DOCUMENT vs the real decision on read_policy_from_file(document): '
                             'every (object type, operation) x 6 identities for every policy of %d documents (%d cells)' % (len(docs), sum(len(m[0]) for m in meta)))
    for i in bad[:4]:
        out = ctx.model_output(HEADER_A, 'bad_cells (%s)' % cases[i])
        m = re.search(r'=\s*(\[[^\]]*\]|nil)', out)
        idx = [int(x) for x in re.findall(r'\d+', m.group(1))] if m and m.group(1) != 'nil' else []
        for j in idx[:4]:
            ctx.disagreement('documents', dict(meta[i][0][j], policy_document=meta[i][1]), model_says=not meta[i][0][j]['impl'], impl_says=meta[i][0][j]['impl'])
        if not idx:
            ctx.disagreement('documents', {'policy_document': meta[i][1], 'note': out[:300]})


# ============================================================================ K(d): the identity is established by the session
# "With group information ... without it only the preset section" starts where the identity is ESTABLISHED: a real
# KmipSession (fake TLS connection, client certificate, SLUGS answering per user) in front of the real engine; every
# answer is judged by the specification decision for (user, the group list the directory service returned).
SLUGS_URL = 'http://slugs.verif/'
SLUGS_USERS = {'alice': ['G1'], 'bob': ['G2'], 'carol': [], 'dave': ['GX'], 'erin': ['G2', 'G1'], 'frank': None}
# frank: the service answers without a 'groups' member -> no group information; anybody else: 404, unknown user


class UserSlugs:
    """stands in for requests.get inside the SLUGS plugin: answers per user"""
    def __init__(self, table):
        self.table = table
        self.calls = []

    def set_frame(self, i):
        pass

    def get(self, url, timeout=None):
        import sessdrv
        self.calls.append(url)
        if not url.startswith(SLUGS_URL + 'users/'):
            raise ConnectionError('no such host ' + url)
        rest = url[len(SLUGS_URL + 'users/'):]
        user = rest[:-len('/groups')] if rest.endswith('/groups') else rest
        if user not in self.table:
            return sessdrv._Resp(404, {})
        if rest.endswith('/groups'):
            return sessdrv._Resp(200, {} if self.table[user] is None else {'groups': list(self.table[user])})
        return sessdrv._Resp(200, {})


def session_transport(with_slugs=True, log=None):
    """-> transport(eng, step, items): one TLS connection of `step['user']` (certificate CN) carrying the request"""
    import sessdrv
    from kmip.core import utils as kutils
    from kmip.core.messages import messages as kmessages, contents as kcontents

    def transport(eng, step, items):
        version = tuple(step['version'])
        req = eng.build(items, version=version,
                        batch_option=(E.BatchErrorContinuationOption.CONTINUE if step.get('cont') else None))
        stream = sessdrv.encode_request(req, version)
        proxy = sessdrv.EngineProxy(eng)
        conn = sessdrv.FakeConn(stream, [len(stream)], sessdrv.make_cert([step['user']], 'client'))
        settings = [('auth:slugs', {'enabled': 'True', 'url': SLUGS_URL})] if with_slugs else []
        t = eng.clock.t
        obs = sessdrv.run_connection(proxy, conn, tls_client_auth=True, auth_settings=settings, slugs=UserSlugs(SLUGS_USERS), dumps=False)
        eng.clock.t = t
        sent = b''.join(obs['frames'][0]['sent']) if obs['frames'] else b''
        if log is not None:
            log.append({'user': step['user'], 'credential_seen_by_engine': [list(c['credential']) if c.get('credential') else None for c in proxy.calls]})
        if not sent:
            raise RuntimeError('the session sent nothing back')
        resp = kmessages.ResponseMessage()
        resp.read(kutils.BytearrayStream(sent), kmip_version=kcontents.protocol_version_to_kmip_version(kcontents.ProtocolVersion(*version)))
        return {'error': None, 'items': [kdrv.project_item(bi) for bi in resp.batch_items], 'raw': resp, 'engine_calls': len(proxy.calls)}
    return transport


def session_corpus():
    """a key under a policy whose preset is open and whose group sections are strict, probed by every kind of user"""
    def st(user, items):
        return {'user': user, 'groups': SLUGS_USERS[user], 'version': [1, 2], 'cont': False, 'items': items}
    h = [st('alice', [{'k': 'create', 'pol': 'pg'}]), st('alice', [{'k': 'create', 'pol': 'pa'}]),
         st('bob', [{'k': 'register', 'type': 'SECRET_DATA', 'pol': 'pg'}]), st('frank', [{'k': 'create', 'pol': 'pg'}]),
         st('alice', [{'k': 'create', 'pol': None}])]
    for user in ('carol', 'dave', 'frank', 'bob', 'erin', 'alice'):
        for u in ('1', '2', '3', '4', '5'):
            for k in ('get', 'get_attributes', 'get_attribute_list', 'mac'):
                h.append(st(user, [{'k': k, 'uid': u}]))
        h.append(st(user, [{'k': 'locate', 'type': None}]))
        h.append(st(user, [{'k': 'get', 'uid': '1', 'wrap': '2'}]))
        h.append(st(user, [{'k': 'derive', 'uids': ['1', '3'], 'pol': None}]))
    for user in ('carol', 'dave'):
        h.append(st(user, [{'k': 'destroy', 'uid': '1'}]))
        h.append(st(user, [{'k': 'modify_attribute', 'uid': '2', 'attr': 'group', 'val': 'taken'}]))
    return h


def session_histories(ctx):
    quick = ctx.tier == 'quick'
    rng = ctx.subrng('session')
    cases, metas = [], []
    state = {'reported': set(), 'shrunk': 0}

    def one(label, doc, steps, transport, P, P_engine):
        case, viol, log = run_history(ctx, P, steps, want_case=True, count=True, P_engine=P_engine, transport=transport)
        cases.append(case)
        metas.append({'history': label, 'policy_document': doc, 'steps': steps, 'observed': log})
        ctx.count('session.requests', len(steps))
        for sig, detail, what, si in viol:
            sig = dict(sig, layer='session')
            key = json.dumps(sig, sort_keys=True, default=str)
            if key in state['reported']:
                continue
            state['reported'].add(key)
            if state['shrunk'] < 1:
                state['shrunk'] += 1
                wsteps = shrink(ctx, P, steps, {k: v for k, v in sig.items() if k != 'layer'}, si, budget=25, P_engine=P_engine, transport=transport)
            else:
                wsteps = steps[:si + 1]
            ctx.violation(sig, {'kind': 'session-history', 'policy_document': doc, 'slugs': SLUGS_USERS, 'steps': wsteps, 'detail': detail,
                                'how_to_replay': 'bin/check C03 --replay <this file>: real KmipSession (client certificate CN = the user, SLUGS plugin enabled, '
                                                 'the directory service answering the group lists under "slugs"; [] = in no group, null = no groups member) in front of '
                                                 'the real engine whose policies are the built-ins plus the policy document; each answer is judged for (user, the group '
                                                 'list the service returned)'},
                          what + ' [identity established by the session: certificate CN + SLUGS]')
    pg = {'pg': {'preset': mon_section('open')['preset'],
                 'groups': {'G1': mon_section('strict')['preset'], 'G2': mon_section('strict')['preset']}}}
    pg['pg']['preset']['SECRET_DATA'] = dict(pg['pg']['preset']['SYMMETRIC_KEY'])
    docc = dict(random_policy_document(ctx.subrng('session-corpus')), **pg)
    P, P_engine = load_document(ctx, docc)
    one('session-corpus', docc, session_corpus(), session_transport(True), P, P_engine)
    for k in range(4 if quick else 20):
        doc = dict(random_policy_document(rng), **pg)
        P, P_engine = load_document(ctx, doc)
        steps = gen_history_live(ctx, rng, P_engine, 30 if quick else 50, locate_bias=(k % 3 == 2), identity_table=SLUGS_USERS)
        for st in steps:                                   # a few objects under the open-preset / strict-groups policy
            for it in st['items']:
                if it['k'] in ('create', 'register') and rng.random() < 0.3:
                    it['pol'] = 'pg'
        one('session-seeded-%d' % k, doc, steps, session_transport(True), P, P_engine)
    # no authentication plugin: the identity is the certificate's common name and there is NO group information
    doc = dict(random_policy_document(rng), **pg)
    P, P_engine = load_document(ctx, doc)
    steps = gen_history_live(ctx, rng, P_engine, 30, identity_table={u: None for u in SLUGS_USERS})
    one('session-no-plugin', doc, steps, session_transport(False), P, P_engine)
    # a user the directory service does not know is refused before the engine is reached
    eng = kdrv.Engine(policies=copy.deepcopy(P_engine), workdir=ctx.work)
    try:
        eng.request([kdrv.create(mask=MASK)], user='alice')
        d0 = eng.dump()
        for k in ('get', 'get_attributes', 'locate', 'destroy'):
            it = {'k': 'locate', 'type': None} if k == 'locate' else {'k': k, 'uid': '1'}
            resp = session_transport(True)(eng, {'user': 'mallory', 'version': [1, 2]}, [build_item(it, (1, 2))])
            if any(r['status'] == 'SUCCESS' for r in resp['items']) or resp['engine_calls'] or eng.dump() != d0:
                ctx.violation({'class': 'session', 'fails': 'unknown-user'}, {'kind': 'session', 'user': 'mallory', 'item': it,
                                                                              'answer': [(r['status'], r['reason'], r['message']) for r in resp['items']]},
                              'a user the directory service does not know got %s through' % k)
            ctx.count('session.unknown-user.refused')
    finally:
        eng.close()
    bad = ctx.run_cases('session_histories', HEADER_B, cases, 'check_history', shard=2,
                        what='the same comparator as `histories`, but every request travels through a real KmipSession (certificate CN + SLUGS plugin '
                             'answering per user: [G1], [G2], [], [GX], [G2,G1], no groups member; one history without plugin) and the model is run '
                             'with the identity (user, the group list the directory service returned)')
    for i in bad[:4]:
        first = ctx.model_output(HEADER_B, 'first_bad (fst (%s)) empty_store (snd (%s)) 0' % (cases[i], cases[i]))
        ctx.disagreement('session_histories', {'history': metas[i]['history'], 'policy_document': metas[i]['policy_document'], 'slugs': SLUGS_USERS,
                                               'steps': metas[i]['steps'], 'observed': metas[i]['observed']}, model_says=first[:1500])


# ============================================================================ K(c): the policy store fed by the directory monitor
MON_NAMES = ['X', 'Y', 'Z']
MON_FILES = ['a.json', 'b.json', 'c.json']
MON_TYPES = [OT.SYMMETRIC_KEY, OT.CERTIFICATE]
MON_OPS = [OP.GET, OP.GET_ATTRIBUTES, OP.LOCATE, OP.DESTROY, OP.MODIFY_ATTRIBUTE]
MON_IDENTS = [('alice', None), ('bob', None), ('bob', ['G1'])]


def mon_section(kind):
    perm = {'open': 'ALLOW_ALL', 'strict': 'ALLOW_OWNER', 'closed': 'DISALLOW_ALL'}[kind]
    return {'preset': {t.name: {op.name: perm for op in MON_OPS + [OP.ACTIVATE, OP.REVOKE, OP.GET_ATTRIBUTE_LIST]} for t in MON_TYPES}}


class MonitorRig:
    """A policy directory, the real PolicyDirectoryMonitor (scans driven by hand) and a real engine sharing its store."""
    def __init__(self, ctx, shared_engine=None):
        import signal
        import tempfile
        from kmip.services.server import monitor as monitor_mod
        self.dir = Path(tempfile.mkdtemp(prefix='policies_', dir=str(ctx.work)))
        self.store = copy.deepcopy(core_policy.policies)
        self.builtin = copy.deepcopy(core_policy.policies)
        old = (signal.getsignal(signal.SIGINT), signal.getsignal(signal.SIGTERM))
        try:
            self.mon = monitor_mod.PolicyDirectoryMonitor(str(self.dir), self.store, live_monitoring=False)
        finally:
            signal.signal(signal.SIGINT, old[0])
            signal.signal(signal.SIGTERM, old[1])
        self.mon.logger.setLevel(100)
        self.clock = 1000
        self.docs = {}                     # file name -> document currently on disk
        self.shared = shared_engine is not None
        if self.shared:                    # decision probes only: one engine object serves every rig, pointed at this store
            self.eng = shared_engine
            self.eng.engine._operation_policies = self.store
        else:
            self.eng = kdrv.Engine(policies=self.store, workdir=ctx.work)
        self.real = self.eng.engine

    def apply(self, ev):
        kind, f = ev[0], ev[1]
        path = self.dir / f
        if kind == 'write':
            self.clock += 10
            path.write_text(json.dumps(ev[2], indent=1))
            os.utime(str(path), (self.clock, self.clock))
            self.docs[f] = ev[2]
        elif kind == 'remove':
            if path.exists():
                path.unlink()
            self.docs.pop(f, None)

    def scan(self):
        self.mon.scan_policies()

    def candidates(self):
        alts = {n: [b] for n, b in self.builtin.items()}
        for f, doc in self.docs.items():
            for n, b in doc_to_policies(doc).items():
                if n not in self.builtin:            # reserved names cannot be redefined by files
                    alts.setdefault(n, []).append(b)
        return MultiP(alts)

    def close(self):
        import shutil
        if not self.shared:
            self.eng.close()
        shutil.rmtree(str(self.dir), ignore_errors=True)


def mon_probe_decisions(rig, names, light=False):
    """-> list of violations (detail dicts): the engine allows what no document on disk (nor the built-in policy) grants"""
    P = rig.candidates()
    out = []
    for pn in names:
        for ot in (MON_TYPES[:1] if light else MON_TYPES):
            for op in (MON_OPS[:1] + MON_OPS[3:4] if light else MON_OPS):
                for user, groups in (MON_IDENTS[:2] if light else MON_IDENTS):
                    if rig.real._is_allowed_by_operation_policy(pn, (user, groups), 'alice', ot, op) and \
                            not granted_spec(P, pn, user, groups, 'alice', ot, op):
                        out.append({'policy_name': pn, 'identity': [user, groups], 'owner': 'alice', 'object_type': ot.name, 'operation': op.name,
                                    'defined_on_disk_by': sorted(f for f, d in rig.docs.items() if pn in d and d[pn])})
    return out


def run_monitor_history(ctx, scans, engine_probes=False, want_case=False, shared_engine=None):
    """scans: list of event lists (each followed by one scan_policies()).  -> (violations, coq cases)"""
    rig = MonitorRig(ctx, shared_engine=(None if engine_probes else shared_engine))
    viol, cases = [], []
    try:
        uids = {}
        if engine_probes:
            # alice's objects under every name, created before any file exists (the name is just text on the object)
            for n in MON_NAMES:
                r = rig.eng.request([kdrv.create(mask=MASK, extra=pol_attr(n))], user='alice')
                uids[n] = kdrv.first_uid(r['items'][0])
            ref = rig.eng.request([kdrv.get(NEVER)])['items'][0]
            notfound_tpl = ref['message']
            links = schema_links(rig.eng.path)
        for si, events in enumerate(scans):
            for ev in events:
                rig.apply(ev)
            rig.scan()
            ctx.count('monitor.scans')
            for d in mon_probe_decisions(rig, MON_NAMES + ['default'], light=not engine_probes):
                viol.append(({'class': 'monitor', 'fails': 'stale-policy', 'site': 'decision'}, dict(d, after_scan=si),
                             'after scan %d the engine allows %s on %s for %r under policy %s, which %s' % (
                                 si, d['operation'], d['object_type'], tuple(d['identity']), d['policy_name'],
                                 'no file on disk defines' if not d['defined_on_disk_by'] else 'no definition on disk (%s) grants' % ', '.join(d['defined_on_disk_by']))))
                break
            if want_case:
                store = {n: b for n, b in rig.store.items() if n not in rig.builtin}
                cases.append('(%s, %s)' % (cp.lst(list(rig.docs.values()), c_document), c_policies(store)))
                for n in rig.builtin:
                    if rig.store.get(n) != rig.builtin[n]:
                        viol.append(({'class': 'monitor', 'fails': 'reserved-policy-changed'}, {'policy_name': n, 'after_scan': si},
                                     'the reserved policy %s is no longer the built-in one' % n))
            if engine_probes:
                P = rig.candidates()
                for user, groups in (('bob', None), ('alice', None)):
                    for n in MON_NAMES:
                        kinds = ['get', 'get_attributes', 'locate'] + (['destroy'] if (si == len(scans) - 1 and user == 'bob') else [])
                        for k in kinds:
                            it = {'k': 'locate', 'type': None} if k == 'locate' else {'k': k, 'uid': uids[n]}
                            step = {'user': user, 'groups': groups, 'version': [1, 2], 'cont': False, 'items': [it]}
                            dump0 = rig.eng.dump()
                            resp = rig.eng.request([build_item(it, (1, 2))], user=user, groups=groups)
                            dump1 = rig.eng.dump()
                            oracle_request(ctx, rig.eng, P, step, resp, rows_of(dump0), dump0, dump1, notfound_tpl,
                                           lambda sig, detail, what: viol.append((dict(sig, **{'class': 'monitor'}), dict(detail, after_scan=si), what)),
                                           lambda u, row: False, links)
                            ctx.count('monitor.probe.%s.%s' % (k, 'success' if resp['items'][0]['status'] == 'SUCCESS' else 'refused'))
    finally:
        rig.close()
    return viol, cases


def monitor_scenarios():
    """named multi-file situations: two files defining the same name, edit-out / remove in every order"""
    O, S = mon_section('open'), mon_section('strict')
    def w(f, **names):
        return ('write', f, dict(names))
    return {
        'override-then-edit-out-then-remove': [[w('a.json', X=O)], [w('b.json', X=S)], [w('a.json', Y=S)], [('remove', 'b.json')]],
        'override-then-edit-out-then-drop': [[w('a.json', X=O)], [w('b.json', X=S)], [w('a.json', Y=S)], [w('b.json', Z=S)]],
        'override-then-remove-both': [[w('a.json', X=O)], [w('b.json', X=S)], [('remove', 'a.json')], [('remove', 'b.json')]],
        'override-remove-newer': [[w('a.json', X=O)], [w('b.json', X=S)], [('remove', 'b.json')], [('remove', 'a.json')]],
        'same-scan-two-files': [[w('a.json', X=O), w('b.json', X=S)], [w('a.json', Y=S), ('remove', 'b.json')]],
        'edit-out-and-remove-same-scan': [[w('a.json', X=O)], [w('b.json', X=S)], [w('a.json', Y=S), ('remove', 'b.json')]],
        'three-files': [[w('a.json', X=O)], [w('b.json', X=S)], [w('c.json', X=O)], [w('a.json', Y=O)], [('remove', 'c.json')], [('remove', 'b.json')]],
        'redefine-after-edit-out': [[w('a.json', X=O)], [w('b.json', X=S)], [w('a.json', Y=S)], [w('a.json', X=O, Y=S)], [('remove', 'b.json')], [w('a.json', Y=S)]],
        'empty-body': [[w('a.json', X=O)], [w('a.json', X={})], [('remove', 'a.json')]],
        'reserved-name': [[w('a.json', default=O, X=S)], [('remove', 'a.json')]],
    }


def monitor_enumeration(depth):
    """every sequence of `depth` single events over two files and one name (one event per scan)"""
    O, S = mon_section('open'), mon_section('strict')
    ops = [('write', 'a.json', {'X': O}), ('write', 'a.json', {'Y': S}), ('remove', 'a.json'),
           ('write', 'b.json', {'X': S}), ('write', 'b.json', {'Z': S}), ('remove', 'b.json')]
    for seq in itertools.product(range(len(ops)), repeat=depth):
        yield [[ops[k]] for k in seq]


def random_monitor_history(rng, n_scans):
    scans = []
    for _ in range(n_scans):
        events = []
        for _ in range(rng.choice([1, 1, 1, 2, 3])):
            f = rng.choice(MON_FILES)
            if rng.random() < 0.3:
                events.append(('remove', f))
            else:
                doc = {}
                for n in MON_NAMES:
                    if rng.random() < 0.45:
                        doc[n] = rng.choice([mon_section('open'), mon_section('strict'), mon_section('closed'), {}])
                events.append(('write', f, doc))
        scans.append(events)
    return scans


HEADER_D = ('From Coq Require Import String ZArith List Bool.\n'
            'From PK Require Import Policy.Policy Policy.PolicyFile.\n'
            'From PKGen Require Import DefaultPolicies.\n'
            'Import ListNotations.\nOpen Scope Z_scope.\nOpen Scope string_scope.\n')


def monitor_histories(ctx):
    quick = ctx.tier == 'quick'
    rng = ctx.subrng('monitor')
    cases, metas = [], []
    reported = set()

    def handle(label, scans, viol):
        for sig, detail, what in viol:
            key = json.dumps(sig, sort_keys=True)
            if key in reported:
                continue
            reported.add(key)
            ctx.violation(sig, {'kind': 'monitor', 'scenario': label, 'scans': scans, 'detail': detail,
                                'how_to_replay': 'bin/check C03 --replay <this file>: empty policy directory, real PolicyDirectoryMonitor and engine sharing one '
                                                 'policy store; apply the events of each scan (write = write the document to the file, remove = delete the file), '
                                                 'call scan_policies(), then probe the decision / issue the requests'},
                          what)
    for label, scans in monitor_scenarios().items():
        viol, cs = run_monitor_history(ctx, scans, engine_probes=True, want_case=True)
        cases += cs
        metas += [(label, k) for k in range(len(cs))]
        handle(label, scans, viol)
    for k in range(8 if quick else 40):
        scans = random_monitor_history(rng, 8 if quick else 14)
        viol, cs = run_monitor_history(ctx, scans, engine_probes=True, want_case=True)
        cases += cs
        metas += [('random-%d' % k, j) for j in range(len(cs))]
        handle('random-%d' % k, scans, viol)
    n = 0
    shared = kdrv.Engine(workdir=ctx.work)
    try:
        for scans in monitor_enumeration(4 if quick else 5):
            n += 1
            viol, cs = run_monitor_history(ctx, scans, engine_probes=False, want_case=(n % 25 == 0), shared_engine=shared)
            cases += cs
            metas += [('enumeration-%d' % n, j) for j in range(len(cs))]
            handle('enumeration-%d' % n, scans, viol)
    finally:
        shared.close()
    ctx.count('monitor.histories', n + len(monitor_scenarios()) + (8 if quick else 40))
    bad = ctx.run_cases('monitor_store', HEADER_D, cases, 'check_store default_policies', shard=150,
                        what='from_disk_b (Policy/PolicyFile.v): every entry of the policy store observed after a scan of the real PolicyDirectoryMonitor '
                             'is what load_document builds from a document on disk at that moment (hypothesis of store_from_disk_sound)')
    for i in bad[:5]:
        ctx.disagreement('monitor_store', {'scenario': metas[i][0], 'scan': metas[i][1], 'case': cases[i][:1200]})


def replay_monitor(ctx, w):
    scans = [[tuple(ev) for ev in events] for events in w['scans']]
    viol, _ = run_monitor_history(ctx, scans, engine_probes=True, want_case=True)
    for sig, detail, what in viol:
        print(what)
        print('   ', json.dumps(detail, default=str)[:500])
    print('REPRODUCED' if viol else 'not reproduced')
    return 1 if viol else 0


def replay(ctx, data):
    load_local_findings(ctx)
    w = data.get('input') or {}
    if w.get('kind') == 'monitor':
        return replay_monitor(ctx, w)
    if w.get('kind') == 'session-history':
        P, P_engine = load_document(ctx, w['policy_document'])
        seen = []
        _, viol, log = run_history(ctx, P, w['steps'], want_case=False, P_engine=P_engine, transport=session_transport(True, log=seen))
        for sig, detail, what, si in viol:
            print('step %d: %s' % (si, what))
            print('    identity handed to the engine:', seen[si]['credential_seen_by_engine'] if si < len(seen) else '?',
                  ' directory service said:', SLUGS_USERS.get(w['steps'][si]['user']))
        print('REPRODUCED' if viol else 'not reproduced')
        return 1 if viol else 0
    if w.get('kind') != 'history' and w.get('policy_document') is not None:
        P_spec, P_engine = load_document(ctx, w['policy_document'])
        eng = kdrv.Engine(policies=P_engine, workdir=ctx.work)
        try:
            user, groups = w['identity']
            got = eng.engine._is_allowed_by_operation_policy(w['policy_name'], (user, groups), w['owner'], OT[w['object_type']], OP[w['operation']])
            want = granted_spec(P_spec, w['policy_name'], user, groups, w['owner'], OT[w['object_type']], OP[w['operation']])
            print('engine (policies loaded from the file) allows: %r   granted by the document: %r' % (got, want))
            print('REPRODUCED' if (got and not want) else 'not reproduced')
            return 1 if (got and not want) else 0
        finally:
            eng.close()
    if w.get('kind') != 'history':
        print('replay: the witness is a direct call, see its "how" field:', json.dumps(w, default=str)[:800])
        eng = kdrv.Engine(workdir=ctx.work)
        try:
            P = policies_from_plain(w['policies'])
            eng.engine._operation_policies = P
            user, groups = w['identity']
            got = eng.engine._is_allowed_by_operation_policy(w['policy_name'], (user, groups), w['owner'], OT[w['object_type']], OP[w['operation']])
            want = granted_spec(P, w['policy_name'], user, groups, w['owner'], OT[w['object_type']], OP[w['operation']])
            print('engine allows: %r   granted by the property text: %r' % (got, want))
            return 1 if (got and not want) else 0
        finally:
            eng.close()
    if w.get('policy_document') is not None:
        P, P_engine = load_document(ctx, w['policy_document'])
    else:
        P, P_engine = policies_from_plain(w['policies']), None
    _, viol, log = run_history(ctx, P, w['steps'], want_case=False, P_engine=P_engine)
    for sig, detail, what, si in viol:
        print('step %d: %s' % (si, what))
        print('   ', json.dumps(detail, default=str)[:600])
    print('REPRODUCED' if viol else 'not reproduced')
    return 1 if viol else 0


def load_local_findings(ctx):
    """findings.d/C03.json is merged into known_findings.json by the integrator; until then read it directly."""
    p = VERIF / 'findings.d' / 'C03.json'
    if p.exists():
        have = {f.get('id') for f in ctx.findings}
        for f in json.loads(p.read_text()):
            if f.get('property') == 'C03' and f.get('id') not in have:
                ctx.findings.append(f)


def use_fallback_tables(ctx):
    """The translation failed (the tie is already recorded as broken).  The model still needs its tables so that the
    correspondence and the direct oracle can look for a concrete failing input: keep the last good generated files,
    or, in a fresh checkout, install the copies kept in coq/theories/Policy/fallback/."""
    gen = VERIF / 'coq' / 'gen'
    for fb in sorted((VERIF / 'coq' / 'theories' / 'Policy' / 'fallback').glob('*.v.txt')):
        dst = gen / fb.name[:-4]
        if not dst.exists():
            dst.write_text(fb.read_text())
            ctx.log('translation failed: installed fallback table', dst.name)
        else:
            ctx.log('translation failed: keeping the last good', dst.name)
    ctx.notes.append('translation failed; the model ran on the last good / fallback tables')


def run(ctx):
    load_local_findings(ctx)
    ctx.cov['rule'] = ('(a) every cell of the abstract decision space: 9 preset shapes x 39 groups shapes (+ missing policy) x '
                       'requester {owner, other, anonymous} x 11 group lists, and the built-in policies over every object type x operation; '
                       "(a') policy DOCUMENTS written to a file and loaded with read_policy_from_file: every (7 object types x 16 operations) x 6 identities "
                       'for every policy of each document, spec evaluated on the document; '
                       '(b) fixed corpus histories (every addressing operation x 7 identities x 5 objects; alternating-owner creations + Locate plain/filtered/'
                       'offset/maximum by 7 identities; every ordered pair (object, wrapping key) and (base, base) x 5 identities) and seeded engine histories over '
                       '3 users x 9 group lists, random policy documents (preset and/or groups, legacy layout, object types with different operation sets, '
                       'missing entries) loaded through the policy-file loader, 7 object types, 19 operations incl. wrapping key, derivation bases, '
                       'ID placeholder, batches. A case is distinct by (policy shape, requester, groups) resp. (document, policy, type, operation, identity) '
                       'resp. (operation, placeholder?, outcome class, groups, policy name, requester is owner).')
    if not ctx.regen(only=['policies']):
        use_fallback_tables(ctx)
    del _loaded_cases[:]
    ctx.prove('props/C03.v', extra_targets=['theories/Policy/AccessCases.v'])
    eng = kdrv.Engine(workdir=ctx.work)
    try:
        n = decision_cases(ctx, eng)
        ctx.count('decision.policy_shapes', n)
        document_cases(ctx, eng)
    finally:
        eng.close()
    histories(ctx)
    session_histories(ctx)
    monitor_histories(ctx)
    bad = ctx.run_cases('policy_file_loader', HEADER_C, _loaded_cases, 'chk_loaded', shard=10,
                        what='load_document (Policy/PolicyFile.v) vs the dict built by kmip.core.policy.read_policy_from_file, and '
                             'document_meaning vs the harness reading of the document, structurally, for every policy document used in this run')
    for i in bad[:3]:
        ctx.disagreement('policy_file_loader', {'case': _loaded_cases[i][:1500]})
    ctx.cov['trusted_extra'] = ['translate/gen_policies.py (ast pass over engine.py, reflection of kmip.core.policy.policies; fail closed)',
                                'harness/c03.py printers and request builders; harness/kdrv.py',
                                'SQLite row lookup by identifier (canonical decimal identifiers only)',
                                'post-access behaviour of handlers enters the model as the observed success flag (oracle input)']
