"""C03 - access control: nothing happens to an object without a policy grant.

  regenerate   translate/gen_policies.py -> gen/DefaultPolicies.v, gen/HandlerAccessOps.v   (tie T)
  prove        props/C03.v (cone: theories/Policy/*)
  K(a)         the whole abstract decision space against the REAL engine methods is_allowed /
               _is_allowed_by_operation_policy, Coq compares (Policy.v)
  K(b)         engine histories with 2-3 identities, custom policies, objects of several types under
               different policy names, every object-addressing operation; Coq replays the history on
               the model (Access.v) and compares outcome class, message, store columns, Locate ids
  oracle       granted_spec evaluated in Python (written from the property text, no model): effect or
               disclosure without a grant; a denial must be PERMISSION_DENIED, carry the not-found
               text and leave the database unchanged; Locate lists only what may be located; the owner
               column never changes.
"""
import copy
import itertools
import json
from pathlib import Path

from vlib import coqprint as cp

from kmip.core import enums
from kmip.core import policy as core_policy

import kdrv
from kdrv import OT, OP

PL = enums.Policy
VERIF = Path(__file__).resolve().parents[1]

HEADER_A = ('From Coq Require Import String ZArith List Bool.\n'
            'From PK Require Import Policy.Policy.\n'
            'From PKGen Require Import DefaultPolicies.\n'
            'Import ListNotations.\nOpen Scope Z_scope.\nOpen Scope string_scope.\n'
            '(* case: policies, policy name, user, groups, owner, object type, operation, group value for is_allowed,\n'
            '   observed _is_allowed_by_operation_policy, observed is_allowed *)\n'
            'Definition chk_dec (c : policies * string * identity * user * Z * Z * bool) : bool :=\n'
            '  let \'(P, pn, id, owner, ot, op, obs) := c in Bool.eqb (allowed_by_policy P pn id owner ot op) obs.\n'
            'Definition chk_one (c : policies * string * user * option string * user * Z * Z * bool) : bool :=\n'
            '  let \'(P, pn, u, g, owner, ot, op, obs) := c in Bool.eqb (is_allowed P pn u g owner ot op) obs.\n')


# ============================================================================ printers
def c_user(u):
    return cp.option(u, cp.string)


def c_groups(gs):
    return cp.option(gs, lambda l: cp.lst(l, cp.string))


def c_identity(user, groups):
    return '{| id_user := %s; id_groups := %s |}' % (c_user(user), c_groups(groups))


def c_perm(p):
    return {PL.ALLOW_ALL: 'AllowAll', PL.ALLOW_OWNER: 'AllowOwner', PL.DISALLOW_ALL: 'DisallowAll'}.get(p, 'POther')


def c_section(sec):
    return cp.lst(list(sec.items()), lambda kv: '(%s, %s)' % (
        cp.z(kv[0].value), cp.lst(list(kv[1].items()), lambda e: '(%s, %s)' % (cp.z(e[0].value), c_perm(e[1])))))


def c_bundle(b):
    pre = 'None' if 'preset' not in b else '(Some %s)' % c_section(b['preset'])
    grp = 'None' if 'groups' not in b else '(Some %s)' % cp.lst(
        list(b['groups'].items()), lambda kv: '(%s, %s)' % (cp.string(kv[0]), c_section(kv[1])))
    return '{| preset := %s; groups := %s |}' % (pre, grp)


def c_policies(P):
    return cp.lst(list(P.items()), lambda kv: '(%s, %s)' % (cp.string(kv[0]), c_bundle(kv[1])))


# ============================================================================ the specification, in Python
# Written from the property text (and docs/source/server.rst), NOT from engine.py.
def perm_grants(p, user, owner):
    if p is PL.ALLOW_ALL:
        return True
    if p is PL.ALLOW_OWNER:
        return user == owner
    return False                      # 'disallow all', and anything else, to nobody


def section_grants(sec, user, owner, ot, op):
    if not isinstance(sec, dict):
        return False
    ops = sec.get(ot)
    if not isinstance(ops, dict) or op not in ops:
        return False                  # missing object-type / operation entry
    return perm_grants(ops[op], user, owner)


def granted_spec(P, pn, user, groups, owner, ot, op):
    b = P.get(pn)
    if not isinstance(b, dict):
        return False                  # missing policy
    if groups is None:                # no group information: only the preset section
        return 'preset' in b and section_grants(b['preset'], user, owner, ot, op)
    gm = b.get('groups')
    if not gm:                        # the policy defines no groups: the preset section
        return 'preset' in b and section_grants(b['preset'], user, owner, ot, op)
    # the most permissive applicable group section decides
    return any(g in gm and section_grants(gm[g], user, owner, ot, op) for g in groups)


# ============================================================================ K(a): the decision space
T0, T1 = OT.SYMMETRIC_KEY, OT.CERTIFICATE
O0, O1 = OP.GET, OP.DESTROY


def section_menu():
    """name -> section dict (None = the section key is absent)."""
    m = {
        'absent': None,
        'empty': {},
        'type-missing': {T1: {O0: PL.ALLOW_ALL}},
        'opmap-empty': {T0: {}},
        'op-missing': {T0: {O1: PL.ALLOW_ALL}},
        'ALLOW_ALL': {T0: {O0: PL.ALLOW_ALL, O1: PL.DISALLOW_ALL}},
        'ALLOW_OWNER': {T1: {O0: PL.ALLOW_ALL}, T0: {O0: PL.ALLOW_OWNER}},
        'DISALLOW_ALL': {T0: {O1: PL.ALLOW_ALL, O0: PL.DISALLOW_ALL}},
        'other-value': {T0: {O0: 'ALLOW_ALL'}},          # not an enums.Policy member
    }
    return m


def decision_space():
    """-> list of (label, policies dict, policy name)."""
    S = section_menu()
    core = ['ALLOW_ALL', 'ALLOW_OWNER', 'DISALLOW_ALL', 'op-missing']
    group_cfgs = [('nogroups', None), ('groups-empty', {})]
    for x in S:
        if x != 'absent':
            group_cfgs.append(('A=' + x, {'A': S[x]}))
    for x, y in itertools.product(core, core):
        group_cfgs.append(('A=%s,B=%s' % (x, y), {'A': S[x], 'B': S[y]}))
    for x in ('ALLOW_ALL', 'ALLOW_OWNER', 'DISALLOW_ALL'):
        group_cfgs.append(('""=%s' % x, {'': S[x]}))
        group_cfgs.append(('""=%s,A=DISALLOW_ALL' % x, {'': S[x], 'A': S['DISALLOW_ALL']}))
    out = []
    for pname, pre in S.items():
        for gname, grp in group_cfgs:
            b = {}
            if pre is not None:
                b['preset'] = copy.deepcopy(pre)
            if grp is not None:
                b['groups'] = copy.deepcopy(grp)
            out.append(('preset=%s;%s' % (pname, gname), {'p': b, 'other': {'preset': S['ALLOW_ALL']}}, 'p'))
    out.append(('policy-missing', {'other': {'preset': S['ALLOW_ALL']}}, 'p'))
    out.append(('policy-store-empty', {}, 'p'))
    return out


REQUESTERS = [('owner', 'alice', 'alice'), ('other', 'bob', 'alice'), ('anonymous', None, None), ('other-vs-none', 'bob', None)]
GROUPS = [None, [], ['A'], ['A', 'B'], ['B', 'A'], ['Z'], ['Z', 'A'], ['A', 'Z'], [''], ['', 'A'], ['', 'Z']]


def f11_signature(groups):
    return {'class': 'empty-group-name'} if groups is not None and '' in groups else {'class': 'decision'}


def decision_cases(ctx, eng):
    """Every cell of the abstract decision space on the real engine -> Coq cases + direct oracle."""
    real = eng.engine
    header_defs, cases, meta, cases1, meta1 = [], [], [], [], []
    space = decision_space()
    for k, (label, P, pn) in enumerate(space):
        header_defs.append('Definition pol_%d : policies := %s.' % (k, c_policies(P)))
        real._operation_policies = P
        for (rl, user, owner), groups in itertools.product(REQUESTERS, GROUPS):
            if rl in ('anonymous', 'other-vs-none') and groups not in (None, ['A'], ['']):
                continue
            obs = real._is_allowed_by_operation_policy(pn, (user, groups), owner, T0, O0)
            if obs is not True and obs is not False:
                ctx.disagreement('decision', {'cell': label, 'returned': repr(obs)})
                obs = bool(obs)
            cases.append('(pol_%d, "p", %s, %s, %s, %s, %s)' % (k, c_identity(user, groups), c_user(owner),
                                                                    cp.z(T0.value), cp.z(O0.value), cp.boolean(obs)))
            meta.append({'cell': label, 'requester': rl, 'user': user, 'owner': owner, 'groups': groups, 'impl': obs})
            new = ctx.case_seen(('dec', label, rl, groups), nontrivial=True)
            ctx.count('decision.%s' % ('allowed' if obs else 'denied'))
            # direct oracle: allowed only if granted
            g = granted_spec(P, pn, user, groups, owner, T0, O0)
            if obs and not g:
                ctx.violation(dict(f11_signature(groups), site='_is_allowed_by_operation_policy'),
                              {'policies': plain_policies(P), 'policy_name': pn, 'identity': [user, groups], 'owner': owner,
                               'object_type': T0.name, 'operation': O0.name, 'allowed': True, 'granted_by_property': False,
                               'how': 'KmipEngine._is_allowed_by_operation_policy(policy_name, identity, owner, object_type, operation)'},
                              'the engine allows %s on a %s for identity %r although the policy grants it to nobody (cell %s)' % (
                                  O0.name, T0.name, (user, groups), label))
            if g and not obs:
                ctx.count('decision.restrictive(granted by the property text, denied by the engine)')
        # is_allowed itself, per group value
        for (rl, user, owner), g in itertools.product(REQUESTERS[:2], [None, '', 'A', 'B', 'Z']):
            obs = real.is_allowed(pn, user, g, owner, T0, O0)
            if obs is not True and obs is not False:
                ctx.disagreement('is_allowed', {'cell': label, 'returned': repr(obs)})
                obs = bool(obs)
            cases1.append('(pol_%d, "p", %s, %s, %s, %s, %s, %s)' % (k, c_user(user), cp.option(g, cp.string), c_user(owner),
                                                                        cp.z(T0.value), cp.z(O0.value), cp.boolean(obs)))
            meta1.append({'cell': label, 'user': user, 'group': g, 'owner': owner, 'impl': obs})
            ctx.case_seen(('one', label, rl, g), nontrivial=True)
    # the built-in policies, through the generated table
    builtin = copy.deepcopy(core_policy.policies)
    real._operation_policies = builtin
    for pn in list(builtin) + ['nosuch']:
        for ot, op in itertools.product(list(enums.ObjectType), list(enums.Operation)):
            for user, groups in (('alice', None), ('bob', None), ('alice', ['A'])):
                obs = bool(real._is_allowed_by_operation_policy(pn, (user, groups), 'alice', ot, op))
                cases.append('(default_policies, %s, %s, %s, %s, %s, %s)' % (cp.string(pn), c_identity(user, groups), c_user('alice'),
                                                                               cp.z(ot.value), cp.z(op.value), cp.boolean(obs)))
                meta.append({'cell': 'builtin:' + pn, 'user': user, 'owner': 'alice', 'groups': groups, 'ot': ot.name, 'op': op.name, 'impl': obs})
                ctx.case_seen(('builtin', pn, ot.name, op.name, user, groups), nontrivial=True)
                ctx.count('decision.builtin.%s' % ('allowed' if obs else 'denied'))
                if obs and not granted_spec(builtin, pn, user, groups, 'alice', ot, op):
                    ctx.violation({'class': 'decision', 'site': 'builtin'}, {'policy_name': pn, 'identity': [user, groups], 'owner': 'alice',
                                                                             'object_type': ot.name, 'operation': op.name},
                                  'built-in policy %s: engine allows %s on %s without a grant' % (pn, op.name, ot.name))
    real._operation_policies = eng.policies
    header = HEADER_A + '\n'.join(header_defs) + '\n'
    bad = ctx.run_cases('decision', header, cases, 'chk_dec',
                        what='allowed_by_policy vs KmipEngine._is_allowed_by_operation_policy over the whole abstract decision space + built-in policies')
    for i in bad[:20]:
        ctx.disagreement('decision', meta[i], model_says=not meta[i]['impl'], impl_says=meta[i]['impl'])
    bad1 = ctx.run_cases('is_allowed', header, cases1, 'chk_one', what='is_allowed vs KmipEngine.is_allowed, per group value')
    for i in bad1[:20]:
        ctx.disagreement('is_allowed', meta1[i], model_says=not meta1[i]['impl'], impl_says=meta1[i]['impl'])
    ctx.sample({'decision_case': cases[0], 'meta': meta[0]})
    return len(space)


def plain_policies(P):
    def sec(s):
        return {ot.name: {op.name: (p.name if isinstance(p, PL) else repr(p)) for op, p in ops.items()} for ot, ops in s.items()}
    out = {}
    for n, b in P.items():
        o = {}
        if 'preset' in b:
            o['preset'] = sec(b['preset'])
        if 'groups' in b:
            o['groups'] = {g: sec(s) for g, s in b['groups'].items()}
        out[n] = o
    return out


def load_local_findings(ctx):
    """findings.d/C03.json is merged into known_findings.json by the integrator; until then read it directly."""
    p = VERIF / 'findings.d' / 'C03.json'
    if p.exists():
        have = {f.get('id') for f in ctx.findings}
        for f in json.loads(p.read_text()):
            if f.get('property') == 'C03' and f.get('id') not in have:
                ctx.findings.append(f)


def run(ctx):
    load_local_findings(ctx)
    ctx.cov['rule'] = ('(a) every cell of the abstract decision space: 9 preset shapes x 39 groups shapes (+ missing policy) x '
                       'requester {owner, other, anonymous} x 11 group lists, and the built-in policies over every object type x operation; '
                       '(b) seeded engine histories. A case is distinct by (policy shape, requester, groups) resp. by canonical history.')
    ok_regen = ctx.regen(only=['policies'])
    ctx.prove('props/C03.v')
    eng = kdrv.Engine(workdir=ctx.work)
    try:
        n = decision_cases(ctx, eng)
        ctx.count('decision.policy_shapes', n)
    finally:
        eng.close()
