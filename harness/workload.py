"""Seeded random request workloads against the in-process engine (shared by several checks).

gen_request(rng, state) -> (items, kwargs, description)   items are kdrv (Operation, payload) tuples
`state` remembers uids issued so far so that most requests are valid (~70 % expected success).
"""
from kmip.core import enums
import kdrv
from kdrv import OT, AT

M = enums.CryptographicUsageMask
A = enums.CryptographicAlgorithm
USERS = [('alice', None)] * 7 + [('bob', None), ('alice', ['g1']), ('carol', ['g1', 'g2'])]


class State:
    def __init__(self):
        self.uids = []          # all uids ever issued (strings)
        self.sym = []           # symmetric keys
        self.n = 0


def _uid(rng, st, pool=None):
    pool = pool if pool else st.uids
    r = rng.random()
    if pool and r < 0.8:
        return rng.choice(pool)
    if r < 0.9:
        return str(rng.randrange(1, 60))
    if r < 0.95:
        return None               # ID placeholder
    return rng.choice(['9999', 'abc', '0', '-1'])


def _mask(rng):
    return rng.choice([(M.ENCRYPT, M.DECRYPT), (M.ENCRYPT,), (M.DECRYPT,), (M.MAC_GENERATE, M.MAC_VERIFY), (M.SIGN, M.VERIFY),
                       (M.DERIVE_KEY,), (M.WRAP_KEY, M.ENCRYPT, M.DECRYPT), (M.EXPORT,)])


def gen_item(rng, st):
    k = rng.random()
    st.n += 1
    if k < 0.12:
        if rng.random() < 0.85:
            return kdrv.create(A.AES, rng.choice([128, 192, 256]), _mask(rng), names=['k%d' % st.n] if rng.random() < 0.5 else ()), 'create'
        bad = rng.choice(['nolen', 'noalg', 'nomask', 'otype', 'badlen', 'unknownattr'])
        if bad == 'nolen':
            return kdrv.create(A.AES, None, _mask(rng)), 'create-nolen'
        if bad == 'noalg':
            return kdrv.create(None, 128, _mask(rng)), 'create-noalg'
        if bad == 'nomask':
            return kdrv.create(A.AES, 128, None), 'create-nomask'
        if bad == 'otype':
            return kdrv.create(otype=OT.SECRET_DATA), 'create-otype'
        if bad == 'badlen':
            return kdrv.create(A.AES, 100, _mask(rng)), 'create-badlen'
        return kdrv.create(extra=[kdrv.attr(AT.CONTACT_INFORMATION, 'x')]), 'create-unsupported-attr'
    if k < 0.22:
        ot = rng.choice(kdrv.STORED_TYPES)
        return kdrv.register(ot, names=['r%d' % st.n] if rng.random() < 0.4 else ()), 'register-' + ot.name
    if k < 0.30:
        return kdrv.get(_uid(rng, st)), 'get'
    if k < 0.36:
        return kdrv.get_attributes(_uid(rng, st), rng.choice([None, ['Name'], ['State', 'Object Type'], ['Bogus Name']])), 'get_attributes'
    if k < 0.40:
        return kdrv.get_attribute_list(_uid(rng, st)), 'get_attribute_list'
    if k < 0.48:
        return kdrv.activate(_uid(rng, st)), 'activate'
    if k < 0.54:
        return kdrv.revoke(_uid(rng, st), rng.choice(list(enums.RevocationReasonCode)), rng.choice([None, 'why'])), 'revoke'
    if k < 0.60:
        return kdrv.destroy(_uid(rng, st)), 'destroy'
    if k < 0.68:
        f = rng.choice(['none', 'type', 'state', 'name', 'alg', 'len', 'mask', 'policy', 'date', 'dates3'])
        attrs = {
            'none': [], 'type': [kdrv.attr(AT.OBJECT_TYPE, rng.choice(kdrv.STORED_TYPES))],
            'state': [kdrv.attr(AT.STATE, rng.choice(list(enums.State)))],
            'name': [kdrv.attr(AT.NAME, kdrv.name_value('k%d' % rng.randrange(1, 30)))],
            'alg': [kdrv.attr(AT.OBJECT_TYPE, OT.SYMMETRIC_KEY), kdrv.attr(AT.CRYPTOGRAPHIC_ALGORITHM, A.AES)],
            'len': [kdrv.attr(AT.OBJECT_TYPE, OT.SYMMETRIC_KEY), kdrv.attr(AT.CRYPTOGRAPHIC_LENGTH, rng.choice([128, 256]))],
            'mask': [kdrv.attr(AT.OBJECT_TYPE, OT.SYMMETRIC_KEY), kdrv.attr(AT.CRYPTOGRAPHIC_USAGE_MASK, [M.ENCRYPT])],
            'policy': [kdrv.attr(AT.OPERATION_POLICY_NAME, 'default')],
            'date': [kdrv.attr(AT.INITIAL_DATE, 1600000000 + rng.randrange(0, 5))],
            'dates3': [kdrv.attr(AT.INITIAL_DATE, 1600000000 + i) for i in range(3)],
        }[f]
        return kdrv.locate(attrs, rng.choice([None, 0, 1]), rng.choice([None, 0, 2])), 'locate-' + f
    if k < 0.71:
        return kdrv.query(), 'query'
    if k < 0.74:
        return kdrv.discover_versions(rng.choice([[], [(1, 0), (2, 0)], [(9, 9)]])), 'discover'
    if k < 0.82:
        cp = kdrv.crypto_params(block_cipher_mode=rng.choice([enums.BlockCipherMode.CBC, enums.BlockCipherMode.ECB, enums.BlockCipherMode.GCM, None]),
                                padding_method=rng.choice([enums.PaddingMethod.PKCS5, None]),
                                cryptographic_algorithm=rng.choice([A.AES, None, A.RSA]))
        uid = _uid(rng, st, st.sym)
        if rng.random() < 0.5:
            return kdrv.encrypt(uid, rng.choice([cp, None]), rng.choice([b'', b'x' * 16, b'hello']), rng.choice([None, b'\x00' * 16, b'\x01' * 3])), 'encrypt'
        return kdrv.decrypt(uid, cp, rng.choice([b'', b'y' * 16, b'y' * 17]), rng.choice([None, b'\x00' * 16])), 'decrypt'
    if k < 0.86:
        cp = kdrv.crypto_params(cryptographic_algorithm=rng.choice([A.HMAC_SHA256, A.AES, None]))
        return kdrv.mac(_uid(rng, st), cp, b'data'), 'mac'
    if k < 0.89:
        return kdrv.sign(_uid(rng, st), kdrv.crypto_params(padding_method=enums.PaddingMethod.PSS, hashing_algorithm=enums.HashingAlgorithm.SHA_256,
                                                           cryptographic_algorithm=A.RSA), b'data'), 'sign'
    if k < 0.92:
        return kdrv.signature_verify(_uid(rng, st), kdrv.crypto_params(padding_method=enums.PaddingMethod.PSS, hashing_algorithm=enums.HashingAlgorithm.SHA_256,
                                                                       cryptographic_algorithm=A.RSA), b'data', b'sig'), 'signature_verify'
    if k < 0.96:
        uid = _uid(rng, st)
        if rng.random() < 0.5:
            return kdrv.modify_attribute_v1(uid, kdrv.attr(AT.NAME, kdrv.name_value('m%d' % st.n), rng.choice([None, 0, 1, 5]))), 'modify_attribute'
        return kdrv.delete_attribute_v1(uid, rng.choice(['Name', 'State', 'Object Group', 'Cryptographic Length']), rng.choice([None, 0, 1, 7])), 'delete_attribute'
    return kdrv.derive_key([_uid(rng, st) or '1'], rng.choice(list(enums.DerivationMethod)), None), 'derive_key-noparams'


def gen_request(rng, st):
    n = rng.choice([1, 1, 1, 2, 3])
    items, desc = [], []
    for _ in range(n):
        it, d = gen_item(rng, st)
        items.append(it)
        desc.append(d)
    kw = {'version': rng.choice(kdrv.VERSIONS + [(1, 2), (1, 4)])}
    r = rng.random()
    if r < 0.04:
        kw['version'] = rng.choice([(0, 9), (1, 5), (2, 1), (3, 0)])
    elif r < 0.07:
        kw['batch_option'] = enums.BatchErrorContinuationOption.UNDO
    elif r < 0.25:
        kw['batch_option'] = enums.BatchErrorContinuationOption.CONTINUE
    elif r < 0.28:
        kw['asynchronous'] = True
    elif r < 0.31:
        kw['time_stamp'] = 1600000000 + rng.choice([-1000, 1000, 0])
    elif r < 0.34 and n > 1:
        kw['ids'] = False
    user, groups = rng.choice(USERS)
    kw['user'], kw['groups'] = user, groups
    return items, kw, desc


def note_result(st, resp):
    """Remember identifiers issued by a response."""
    for it in resp['items']:
        p = it.get('payload') or {}
        if it['status'] != 'SUCCESS':
            continue
        for key in ('unique_identifier', 'private_key_unique_identifier', 'public_key_unique_identifier'):
            u = p.get(key)
            if isinstance(u, str) and it['op'] in ('CREATE', 'REGISTER', 'CREATE_KEY_PAIR', 'DERIVE_KEY') and u not in st.uids:
                st.uids.append(u)
                if it['op'] == 'CREATE':
                    st.sym.append(u)
