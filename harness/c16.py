"""C16 - protocol version is honoured: echo, refusal, feature gating.

regenerate (gen/Versions.v, gen/VersionFields.v, gen/AttrRuleTable.v, gen/Enums.v)  ->  prove props/C16.v  ->
correspondence K on the real engine / session / payload classes (Coq compares)  ->  direct oracle on the implementation.
"""
import itertools
import re

import kdrv
import c16_fields
import c16_session
from kmip.core import enums, primitives, objects as cobjects, attributes as cattrs
from kmip.core.messages import contents, payloads
from kmip.services.server import policy as spolicy
from vlib import coqprint as cp

HEADER = ('From PK Require Import Version.Version Version.Fields Version.VersionCases.\n'
          'From Coq Require Import String ZArith List.\nImport ListNotations.\nOpen Scope Z_scope.\n')

OP = enums.Operation
M = enums.CryptographicUsageMask
SUPPORTED = list(kdrv.VERSIONS)
UNSUPPORTED = [(0, 9), (1, 5), (2, 1), (3, 0), (1, 10), (0, 0), (1, -1), (2, 10), (10, 0), (1, 20), (-1, 0), (1, 2 ** 31 - 1),
               # versions whose text reads as a supported one when taken for a decimal number: 1.10 = 1.1, 1.100 = 1.1, 2.00 ...
               (1, 30), (1, 40), (1, 100), (1, 200), (2, 100), (20, 0), (10, 2), (1, 11), (1, 12)]
R = enums.ResultReason

# ---- independent oracle tables, written from the KMIP specifications (not from PyKMIP) -----------------------
# operation -> version of the specification that introduced it
SPEC_OP_MIN = {op: (1, 0) for op in OP}
SPEC_OP_MIN.update({OP.REKEY_KEY_PAIR: (1, 1), OP.DISCOVER_VERSIONS: (1, 1)})
SPEC_OP_MIN.update({o: (1, 2) for o in (OP.ENCRYPT, OP.DECRYPT, OP.SIGN, OP.SIGNATURE_VERIFY, OP.MAC, OP.MAC_VERIFY,
                                        OP.RNG_RETRIEVE, OP.RNG_SEED, OP.HASH, OP.CREATE_SPLIT_KEY, OP.JOIN_SPLIT_KEY)})
SPEC_OP_MIN.update({OP.IMPORT: (1, 4), OP.EXPORT: (1, 4)})
SPEC_OP_MIN.update({o: (2, 0) for o in (OP.LOG, OP.LOGIN, OP.LOGOUT, OP.DELEGATED_LOGIN, OP.ADJUST_ATTRIBUTE, OP.SET_ATTRIBUTE,
                                        OP.SET_ENDPOINT_ROLE, OP.PKCS_11, OP.INTEROP, OP.REPROVISION)})
# attribute name -> version that introduced it (everything else: 1.0)
SPEC_ATTR_MIN = {'Certificate Length': (1, 1), 'X.509 Certificate Identifier': (1, 1), 'X.509 Certificate Subject': (1, 1),
                 'X.509 Certificate Issuer': (1, 1), 'Digital Signature Algorithm': (1, 1), 'Fresh': (1, 1),
                 'Alternative Name': (1, 2), 'Key Value Present': (1, 2), 'Key Value Location': (1, 2),
                 'Original Creation Date': (1, 2), 'Random Number Generator': (1, 3), 'PKCS#12 Friendly Name': (1, 4),
                 'Description': (1, 4), 'Comment': (1, 4), 'Sensitive': (1, 4), 'Always Sensitive': (1, 4),
                 'Extractable': (1, 4), 'Never Extractable': (1, 4)}
# attribute name -> version of the specification that no longer has it
SPEC_ATTR_REMOVED = {'Certificate Identifier': (2, 0), 'Certificate Subject': (2, 0), 'Certificate Issuer': (2, 0),
                     'Operation Policy Name': (2, 0)}


def header_variants(eng):
    """The optional fields of a request header, absent / present (valid values): none of them may change which version the
    request is processed in."""
    from kmip.core import objects as cobj
    BO = enums.BatchErrorContinuationOption
    auth = contents.Authentication(credentials=[cobj.Credential(
        credential_type=enums.CredentialType.USERNAME_AND_PASSWORD,
        credential_value=cobj.UsernamePasswordCredential(username='alice', password='secret'))])
    now = eng.clock.t
    return [('none', {}), ('time-stamp', {'time_stamp': now}), ('maximum-response-size', {'max_size': 1 << 20}),
            ('batch-options', {'batch_option': BO.STOP, 'batch_order': True}), ('asynchronous-false', {'asynchronous': False}),
            ('authentication', {'auth': auth}),
            ('all', {'time_stamp': now, 'max_size': 1 << 20, 'batch_option': BO.CONTINUE, 'batch_order': True, 'asynchronous': False, 'auth': auth})]


def guarded(ctx, name, fn, *args):
    """Run one family of the check; an exception inside it (usually thrown by the code under test) is recorded as a broken
    correspondence and the other families - and their direct oracles - still run."""
    import traceback
    try:
        return fn(*args)
    except Exception as e:      # noqa
        tb = traceback.format_exc()
        ctx.log('family %s raised %s' % (name, type(e).__name__))
        ctx.broken.append({'kind': 'correspondence', 'name': 'harness/c16.py:' + name,
                           'detail': 'the family raised: ' + tb[-1500:], 'candidates': []})
        return None


def cver(v):
    return '(%s, %s)' % (cp.z(v[0]), cp.z(v[1]))


def vstr(v):
    return '%d.%d' % v


def gclass(item):
    """Observed class of a response batch item: refused by the version decorator / unknown to the dispatcher / entered."""
    if item['reason'] == 'OPERATION_NOT_SUPPORTED':
        msg = item['message'] or ''
        if re.match(r'^\w+ is not supported by KMIP ', msg):
            return 'GVersion'
        if msg.endswith(' operation is not supported by the server.'):
            return 'GUnknown'
    return 'GRun'


def uid_obj(u):
    return cattrs.UniqueIdentifier(u)


class Scene:
    """A fresh real engine holding an active AES key, an active RSA pair, a spare key and a certificate."""

    def __init__(self, ctx, setup_version=(1, 4)):
        self.eng = kdrv.Engine(workdir=ctx.work)
        _process = self.eng.process

        def process(req, user='alice', groups=None, _p=_process):
            try:
                return _p(req, user, groups)
            except Exception as e:      # noqa - the session turns this into GENERAL_FAILURE under the request's version
                return {'error': {'reason': 'GENERAL_FAILURE', 'message': 'process_request raised %s: %s' % (type(e).__name__, e),
                                  'status': 'OPERATION_FAILED', 'escaped': type(e).__name__}, 'items': [], 'raw': None}
        self.eng.process = process
        sv = setup_version
        e = self.eng
        r = e.request([kdrv.create(mask=(M.ENCRYPT, M.DECRYPT, M.MAC_GENERATE, M.MAC_VERIFY, M.DERIVE_KEY), names=('k1', 'k2'),
                                   extra=[kdrv.attr('SENSITIVE', True), kdrv.attr('OBJECT_GROUP', 'g1')])], version=sv)
        self.sym = kdrv.first_uid(r['items'][0])
        r = e.request([kdrv.create_key_pair()], version=sv)
        p = r['items'][0]['payload']
        self.priv, self.pub = p['private_key_unique_identifier'], p['public_key_unique_identifier']
        for u in (self.sym, self.priv, self.pub):
            e.request([kdrv.activate(u)], version=sv)
        r = e.request([kdrv.create(names=('spare',))], version=sv)
        self.spare = kdrv.first_uid(r['items'][0])
        r = e.request([kdrv.register(enums.ObjectType.CERTIFICATE)], version=sv)
        self.cert = kdrv.first_uid(r['items'][0])
        assert None not in (self.sym, self.priv, self.pub, self.spare, self.cert), 'scene setup failed'
        self.ct = None

    def close(self):
        self.eng.close()

    def payload(self, op, v):
        """A sensible request for every dispatched operation; None payload for the others (never looked at)."""
        E = enums
        aes = kdrv.crypto_params(block_cipher_mode=E.BlockCipherMode.CBC, padding_method=E.PaddingMethod.PKCS5,
                                 cryptographic_algorithm=E.CryptographicAlgorithm.AES)
        rsa = kdrv.crypto_params(padding_method=E.PaddingMethod.PSS, hashing_algorithm=E.HashingAlgorithm.SHA_256,
                                 cryptographic_algorithm=E.CryptographicAlgorithm.RSA)
        two = v >= (2, 0)
        if op == OP.QUERY:
            return kdrv.query([E.QueryFunction.QUERY_OPERATIONS])
        if op == OP.DISCOVER_VERSIONS:
            return kdrv.discover_versions()
        if op == OP.CREATE:
            return kdrv.create(names=())
        if op == OP.CREATE_KEY_PAIR:
            return kdrv.create_key_pair()
        if op == OP.REGISTER:
            return kdrv.register()
        if op == OP.DERIVE_KEY:
            return kdrv.derive_key([self.sym], E.DerivationMethod.HMAC, params=cattrs.DerivationParameters(
                cryptographic_parameters=kdrv.crypto_params(hashing_algorithm=E.HashingAlgorithm.SHA_256), derivation_data=b'abc'))
        if op == OP.LOCATE:
            return kdrv.locate([kdrv.attr('NAME', kdrv.name_value('k1'), 0)])
        if op == OP.GET:
            return kdrv.get(self.sym)
        if op == OP.GET_ATTRIBUTES:
            return kdrv.get_attributes(self.sym)
        if op == OP.GET_ATTRIBUTE_LIST:
            return kdrv.get_attribute_list(self.sym)
        if op == OP.ENCRYPT:
            return kdrv.encrypt(self.sym, aes, b'sixteen byte msg', iv=b'\0' * 16)
        if op == OP.DECRYPT:
            return kdrv.decrypt(self.sym, aes, b'\x11' * 16, iv=b'\0' * 16)
        if op == OP.SIGN:
            return kdrv.sign(self.priv, rsa, b'data')
        if op == OP.SIGNATURE_VERIFY:
            return kdrv.signature_verify(self.pub, rsa, b'data', b'\x01' * 128)
        if op == OP.MAC:
            return (OP.MAC, payloads.MACRequestPayload(
                unique_identifier=uid_obj(self.sym), data=cobjects.Data(b'data'),
                cryptographic_parameters=kdrv.crypto_params(cryptographic_algorithm=E.CryptographicAlgorithm.HMAC_SHA256)))
        if op == OP.MODIFY_ATTRIBUTE:
            if two:
                return kdrv.modify_attribute_v2(self.sym, kdrv.attr_value('NAME', kdrv.name_value('k1b')),
                                                kdrv.attr_value('NAME', kdrv.name_value('k1')))
            return kdrv.modify_attribute_v1(self.sym, kdrv.attr('NAME', kdrv.name_value('k1b'), 0))
        if op == OP.SET_ATTRIBUTE:
            return kdrv.set_attribute(self.spare, kdrv.attr_value('SENSITIVE', True))
        if op == OP.DELETE_ATTRIBUTE:
            if two:
                return kdrv.delete_attribute_v2(self.sym, reference=kdrv.attr_ref2('Object Group'))
            return kdrv.delete_attribute_v1(self.sym, 'Object Group', 0)
        if op == OP.ACTIVATE:
            return kdrv.activate(self.spare)
        if op == OP.REVOKE:
            return kdrv.revoke(self.spare)
        if op == OP.DESTROY:
            return kdrv.destroy(self.spare)
        return (op, None)


DISPATCH_ORDER = [OP.QUERY, OP.DISCOVER_VERSIONS, OP.CREATE, OP.CREATE_KEY_PAIR, OP.REGISTER, OP.DERIVE_KEY, OP.LOCATE, OP.GET,
                  OP.GET_ATTRIBUTES, OP.GET_ATTRIBUTE_LIST, OP.ENCRYPT, OP.DECRYPT, OP.SIGN, OP.SIGNATURE_VERIFY, OP.MAC,
                  OP.MODIFY_ATTRIBUTE, OP.SET_ATTRIBUTE, OP.DELETE_ATTRIBUTE, OP.ACTIVATE, OP.REVOKE, OP.DESTROY]
ALL_OPS = DISPATCH_ORDER + [o for o in OP if o not in DISPATCH_ORDER]


class Spy:
    """Counts entries into engine methods from outside (the engine object is real; the wrapper only records)."""

    def __init__(self, engine, names):
        self.calls = []
        self.engine = engine
        for n in names:
            orig = getattr(engine, n)

            def wrapped(*a, _orig=orig, _n=n, **kw):
                self.calls.append(_n)
                return _orig(*a, **kw)
            setattr(engine, n, wrapped)


def request_case(v, hdr_reject, stop, ops, r):
    """CRequest term from one real exchange."""
    if r['error'] is not None:
        raised = R[r['error']['reason']].value
        hdr, classes, flags = None, [], [False] * len(ops)
    else:
        raised = None
        hdr = r['header']['version']
        classes = [gclass(it) for it in r['items']]
        flags = [kdrv.ok(it) for it in r['items']] + [False] * (len(ops) - len(r['items']))
    items = cp.lst(list(zip(ops, flags)), lambda p: '(%s, %s)' % (cp.z(p[0].value), cp.boolean(p[1])))
    return 'CRequest %s %s %s %s %s %s %s' % (cver(v), cp.option(hdr_reject, cp.z), cp.boolean(stop), items,
                                              cp.option(raised, cp.z), cp.option(hdr, cver), cp.lst(classes, str))


# ====================================================================================== A. comparisons
def comparison_cases(ctx, cases, meta):
    rng = ctx.subrng('cmp')
    pts = [(a, b) for a in range(0, 4) for b in (0, 1, 2, 3, 4, 5, 9, 10, 11, 19, 20, 99, 100)]
    pairs = [(x, y) for x in pts for y in [(1, 0), (1, 1), (1, 2), (1, 3), (1, 4), (2, 0), (1, 10), (1, 20), (2, 10)]]
    pairs += [(rng.choice(pts), rng.choice(pts)) for _ in range(150)]
    pairs += [((rng.randrange(0, 1000), rng.randrange(0, 100000)), (rng.randrange(0, 1000), rng.randrange(0, 100000)))
              for _ in range(100 if ctx.tier == 'quick' else 3000)]
    for a, b in pairs:
        pa, pb = contents.ProtocolVersion(*a), contents.ProtocolVersion(*b)
        fa, fb = float(str(pa)), float(str(pb))
        cases.append('CFloat %s %s %s %s' % (cver(a), cver(b), cp.boolean(fa < fb), cp.boolean(fa == fb)))
        meta.append(('float', a, b))
        ctx.case_seen(('float', a, b))
    allv = SUPPORTED + UNSUPPORTED
    for a in allv:
        for b in allv:
            pa, pb = contents.ProtocolVersion(*a), contents.ProtocolVersion(*b)
            try:
                obs = (pa == pb, pa < pb, pa > pb, pa <= pb, pa >= pb)
            except Exception as e:      # noqa
                ctx.disagreement('c16', {'ProtocolVersion comparison raised': type(e).__name__, 'a': a, 'b': b},
                                 model_says='total comparison of (major, minor)', impl_says=repr(e)[:200])
                continue
            cases.append('CVerCmp %s %s %s' % (cver(a), cver(b), ' '.join(cp.boolean(bool(x)) for x in obs)))
            meta.append(('vercmp', a, b))
            ctx.case_seen(('vercmp', a, b))
    ctx.count('cmp.float', len(pairs))
    ctx.count('cmp.protocol_version', len(allv) ** 2)


# ====================================================================================== B. operation x version
def operation_matrix(ctx, cases, meta):
    rng = ctx.subrng('ops')
    quick = ctx.tier == 'quick'
    advertised = {}
    for v in SUPPORTED + UNSUPPORTED:
        sc = Scene(ctx)
        eng = sc.eng
        ok_version = v in SUPPORTED
        spy = Spy(eng.engine, ['_process_batch', '_process_operation'])
        results = {}
        try:
            for op in ALL_OPS:
                before = eng.dump()
                r = eng.request([sc.payload(op, v)], version=v)
                after = eng.dump()
                cases.append(request_case(v, None, True, [op], r))
                meta.append(('op', v, op.name))
                ctx.case_seen(('op', v, op.name))
                if not ok_version:
                    refused_oracle(ctx, v, [op], r, before, after, spy)
                    continue
                it = r['items'][0] if r['items'] else None
                results[op] = it
                ctx.count('op.%s.%s' % (vstr(v), 'refused' if it and it['reason'] == 'OPERATION_NOT_SUPPORTED' else
                                         ('ok' if it and kdrv.ok(it) else 'failed-inside')))
                echo_oracle(ctx, v, [op], r)
                if SPEC_OP_MIN[op] > v:
                    if it is None or it['reason'] != 'OPERATION_NOT_SUPPORTED' or before != after:
                        ctx.violation({'class': 'op-gate', 'op': op.name, 'version': vstr(v)},
                                      {'version': v, 'operation': op.name, 'result': strip(it), 'store_changed': before != after},
                                      '%s (introduced in KMIP %s) was accepted under KMIP %s' % (op.name, vstr(SPEC_OP_MIN[op]), vstr(v)))
            if ok_version:
                advertised[v] = query_oracle(ctx, sc, v, results)
            # request-level refusals come after the version check
            for kw, reason in (({'time_stamp': eng.clock.t + 1000}, 4), ({'asynchronous': True}, 4),
                               ({'batch_option': enums.BatchErrorContinuationOption.UNDO}, 4)):
                before = eng.dump()
                r = eng.request([sc.payload(OP.CREATE, v)], version=v, **kw)
                cases.append(request_case(v, reason, True, [OP.CREATE], r))
                meta.append(('hdr-reject', v, sorted(kw)))
                ctx.case_seen(('hdr-reject', v, sorted(kw)))
                if not ok_version:
                    refused_oracle(ctx, v, [OP.CREATE], r, before, eng.dump(), spy)
            # batches mixing gated and available operations
            pool = [OP.QUERY, OP.DISCOVER_VERSIONS, OP.GET, OP.ENCRYPT, OP.MAC, OP.SET_ATTRIBUTE, OP.LOCATE, OP.ARCHIVE, OP.REKEY,
                    OP.GET_ATTRIBUTE_LIST, OP.SIGN, OP.POLL]
            batches = [[OP.QUERY, OP.ENCRYPT, OP.GET], [OP.SET_ATTRIBUTE, OP.QUERY], [OP.ARCHIVE, OP.DISCOVER_VERSIONS, OP.MAC]]
            batches += [[rng.choice(pool) for _ in range(rng.randrange(2, 5))] for _ in range(4 if quick else 60)]
            for ops in batches:
                for stop in (True, False):
                    before = eng.dump()
                    r = eng.request([sc.payload(o, v) for o in ops], version=v,
                                    batch_option=(enums.BatchErrorContinuationOption.STOP if stop else enums.BatchErrorContinuationOption.CONTINUE))
                    cases.append(request_case(v, None, stop, ops, r))
                    meta.append(('batch', v, [o.name for o in ops], stop))
                    ctx.case_seen(('batch', v, tuple(o.name for o in ops), stop))
                    ctx.count('batch.%s' % ('supported' if ok_version else 'unsupported'))
                    if ok_version:
                        echo_oracle(ctx, v, ops, r)
                    else:
                        refused_oracle(ctx, v, ops, r, before, eng.dump(), spy)
        finally:
            sc.close()
    return advertised


def strip(it):
    if it is None:
        return None
    return {k: it[k] for k in ('op', 'status', 'reason', 'message')}


def echo_oracle(ctx, v, ops, r):
    """The server answers in the protocol version of the request."""
    if r['error'] is not None or r['header']['version'] != v or r['version'] != v:
        ctx.violation({'class': 'echo', 'version': vstr(v)},
                      {'version': v, 'operations': [o.name for o in ops], 'error': r['error'],
                       'answer_version': r.get('header', {}).get('version') if r['error'] is None else None},
                      'request in supported KMIP %s was not answered in KMIP %s' % (vstr(v), vstr(v)))


def refused_oracle(ctx, v, ops, r, before, after, spy):
    """A version outside the supported list is refused with InvalidMessage and nothing is executed."""
    entered = list(spy.calls)
    del spy.calls[:]
    if r['error'] is None or r['error']['reason'] != 'INVALID_MESSAGE' or before != after or entered:
        ctx.violation({'class': 'unsupported-version', 'version': vstr(v)},
                      {'version': v, 'operations': [o.name for o in ops], 'error': r['error'],
                       'items': [strip(i) for i in r['items']], 'store_changed': before != after, 'engine_methods_entered': entered},
                      'request in unsupported KMIP %s was not refused with InvalidMessage before anything ran' % vstr(v))
    ctx.count('refused.%s' % vstr(v))


def query_oracle(ctx, sc, v, results):
    """Every operation Query advertises under v is available under v."""
    r = sc.eng.request([kdrv.query([enums.QueryFunction.QUERY_OPERATIONS])], version=v)
    it = r['items'][0] if r['items'] else None
    if it is None or not kdrv.ok(it):
        ctx.disagreement('c16', {'Query itself failed under a supported version': v, 'result': strip(it)})
        return None
    ops = [o if isinstance(o, OP) else o.value for o in it['raw'].response_payload.operations]
    for o in ops:
        res = results.get(o)
        if res is None:
            rr = sc.eng.request([sc.payload(o, v)], version=v)
            res = rr['items'][0] if rr['items'] else None
        if res is None or res['reason'] == 'OPERATION_NOT_SUPPORTED':
            ctx.violation({'class': 'query-advertises-unavailable', 'op': o.name, 'version': vstr(v)},
                          {'version': v, 'advertised': [x.name for x in ops], 'operation': o.name, 'result': strip(res)},
                          'Query under KMIP %s advertises %s, which the server then refuses as not supported' % (vstr(v), o.name))
        if SPEC_OP_MIN[o] > v:
            ctx.violation({'class': 'query-advertises-later-op', 'op': o.name, 'version': vstr(v)},
                          {'version': v, 'advertised': [x.name for x in ops], 'operation': o.name},
                          'Query under KMIP %s advertises %s, introduced in KMIP %s' % (vstr(v), o.name, vstr(SPEC_OP_MIN[o])))
    FRESH_QUERY[v] = [o.name for o in ops]
    return ops


# ====================================================================================== C. Query / DiscoverVersions
def query_discover_cases(ctx, cases, meta, advertised):
    rng = ctx.subrng('discover')
    quick = ctx.tier == 'quick'
    for v, ops in sorted((k, x) for k, x in advertised.items() if x is not None):
        cases.append('CQuery %s %s' % (cver(v), cp.lst(ops, lambda o: cp.z(o.value))))
        meta.append(('query', v))
        ctx.case_seen(('query', v, tuple(o.name for o in ops)))
    allv = SUPPORTED + UNSUPPORTED[:6]
    lists = [[], list(SUPPORTED), list(reversed(SUPPORTED)), [(1, 0)], [(2, 0)], [(1, 2), (1, 1)], [(1, 1), (1, 2)], [(3, 0)], [(0, 9), (1, 5)],
             [(1, 0), (3, 0), (2, 0)], [(1, 3), (1, 3)], [(1, 4), (1, 0), (1, 4), (2, 1)], [(1, 10), (1, 1)], [(1, 1), (1, 10)]]
    lists += [[rng.choice(allv) for _ in range(rng.randrange(1, 7))] for _ in range(30 if quick else 600)]
    lists += [list(p) for p in itertools.permutations([(1, 0), (1, 2), (2, 0)])]
    sc = Scene(ctx)
    probes = {}
    try:
        for v in SUPPORTED:
            for client in lists:
                r = sc.eng.request([kdrv.discover_versions(client)], version=v)
                it = r['items'][0]
                if v < (1, 1):
                    if gclass(it) != 'GVersion':
                        ctx.violation({'class': 'op-gate', 'op': 'DISCOVER_VERSIONS', 'version': vstr(v)}, {'version': v, 'result': strip(it)},
                                      'DiscoverVersions accepted under KMIP 1.0')
                    continue
                if not kdrv.ok(it):
                    ctx.disagreement('c16', {'discover failed': strip(it), 'version': v, 'client': client})
                    continue
                ans = [(p.major, p.minor) for p in it['raw'].response_payload.protocol_versions]
                if v == (1, 2) or not quick:
                    cases.append('CDiscover %s %s' % (cp.lst(client, cver), cp.lst(ans, cver)))
                    meta.append(('discover', v, client))
                ctx.case_seen(('discover', tuple(client), tuple(ans)))
                ctx.count('discover.%s' % ('empty-list' if not client else 'client-list'))
                bad = []
                for a in ans:
                    if a not in probes:
                        pr = sc.eng.request([kdrv.query()], version=a)
                        probes[a] = pr['error'] is None and pr['header']['version'] == a
                    if not probes[a]:
                        bad.append(('listed version is refused', a))
                    if client and a not in client:
                        bad.append(('listed version was not offered by the client', a))
                if any(not (x > y) for x, y in zip(ans, ans[1:])):
                    bad.append(('not strictly newest first', ans))
                if bad:
                    ctx.violation({'class': 'discover-versions', 'version': vstr(v)}, {'version': v, 'client_list': client, 'answer': ans, 'problems': bad},
                                  'DiscoverVersions answer is not a newest-first list of accepted versions')
    finally:
        sc.close()


def query_sequences(ctx, cases, meta):
    """Query / DiscoverVersions on ONE engine under every ordered pair of versions: the answer belongs to the version of
    the request that asked, whatever was asked before."""
    QF = enums.QueryFunction
    fsets = [[QF.QUERY_OPERATIONS], [QF.QUERY_OPERATIONS, QF.QUERY_OBJECTS], [QF.QUERY_OBJECTS],
             [QF.QUERY_SERVER_INFORMATION, QF.QUERY_OPERATIONS, QF.QUERY_APPLICATION_NAMESPACES]]
    clients = [[], [(1, 0), (1, 2), (2, 0)], [(2, 0), (1, 1)]]
    for v1 in SUPPORTED:
        sc = Scene(ctx)
        eng = sc.eng
        tried = {}
        try:
            order = [v1] + [v for v in SUPPORTED if v != v1] + [v1]
            for step, v2 in enumerate(order):
                for fs in fsets:
                    r = eng.request([kdrv.query(fs)], version=v2)
                    it = r['items'][0] if r['items'] else None
                    if it is None or not kdrv.ok(it):
                        ctx.disagreement('c16', {'Query failed under a supported version': v2, 'result': strip(it)})
                        continue
                    ops = [o if isinstance(o, OP) else o.value for o in (it['raw'].response_payload.operations or [])]
                    history = [vstr(x) for x in order[:step]]
                    ctx.case_seen(('query-seq', v1, v2, step, tuple(f.name for f in fs)))
                    ctx.count('query-seq.%s' % ('first' if step == 0 else 'later'))
                    if QF.QUERY_OPERATIONS in fs:
                        cases.append('CQuery %s %s' % (cver(v2), cp.lst(ops, lambda o: cp.z(o.value))))
                        meta.append(('query-seq', history, v2, [f.name for f in fs]))
                    elif ops:
                        ctx.violation({'class': 'query-answer', 'version': vstr(v2)}, {'earlier_versions_on_this_engine': history, 'version': v2,
                                       'functions': [f.name for f in fs], 'advertised': [o.name for o in ops]},
                                      'Query without QUERY_OPERATIONS lists operations')
                    for o in ops:
                        if (v2, o) not in tried:
                            rr = eng.request([sc.payload(o, v2)], version=v2)
                            tried[(v2, o)] = rr['items'][0] if rr['items'] else None
                        res = tried[(v2, o)]
                        if SPEC_OP_MIN[o] > v2 or res is None or res['reason'] == 'OPERATION_NOT_SUPPORTED':
                            ctx.violation({'class': 'query-advertises-unavailable', 'op': o.name, 'version': vstr(v2)},
                                          {'earlier_versions_on_this_engine': history, 'version': v2, 'functions': [f.name for f in fs],
                                           'advertised': [x.name for x in ops], 'operation': o.name, 'result': strip(res)},
                                          'after requests in KMIP %s on the same engine, Query under KMIP %s advertises %s, which KMIP %s does not have / the server refuses' % (
                                              ', '.join(history) or '(none)', vstr(v2), o.name, vstr(v2)))
                            break
                    # completeness against the version's own table: what a fresh engine advertises under v2
                    if QF.QUERY_OPERATIONS in fs:
                        fresh = FRESH_QUERY.get(v2)
                        if fresh is not None and [o.name for o in ops] != fresh:
                            # not the property itself (fewer operations advertised is allowed by its wording); the CQuery case
                            # above disagrees with the model, this records the concrete history for the replay
                            ctx.disagreement('c16', {'Query answer depends on earlier requests of the engine': history, 'version': v2,
                                                     'functions': [f.name for f in fs], 'advertised': [o.name for o in ops],
                                                     'advertised_by_a_fresh_engine': fresh})
                # the same version-dependent behaviours with each optional header field present: none of them may change the
                # version the request is processed in
                for hname, hkw in header_variants(eng):
                    for op in (OP.DISCOVER_VERSIONS, OP.ENCRYPT, OP.QUERY, OP.GET_ATTRIBUTE_LIST):
                        r = eng.request([sc.payload(op, v2)], version=v2, **hkw)
                        stop = hkw.get('batch_option') != enums.BatchErrorContinuationOption.CONTINUE
                        cases.append(request_case(v2, None, stop, [op], r))
                        meta.append(('header-variant', hname, [vstr(x) for x in order[:step]], v2, op.name))
                        ctx.case_seen(('header-variant', hname, v1, step, v2, op.name))
                        ctx.count('header-variant.%s' % hname)
                        it = r['items'][0] if r['items'] else None
                        wit = {'earlier_versions_on_this_engine': [vstr(x) for x in order[:step]], 'version': v2,
                               'optional_header_fields': hname, 'operation': op.name, 'error': r['error'], 'result': strip(it)}
                        if r['error'] is not None or r['header']['version'] != v2:
                            ctx.violation({'class': 'echo', 'version': vstr(v2)}, wit, 'request in supported KMIP %s (header fields: %s) was not answered in KMIP %s' % (vstr(v2), hname, vstr(v2)))
                            continue
                        if SPEC_OP_MIN[op] > v2 and (it is None or it['reason'] != 'OPERATION_NOT_SUPPORTED'):
                            ctx.violation({'class': 'op-gate', 'op': op.name, 'version': vstr(v2)}, wit,
                                          '%s (introduced in KMIP %s) was accepted under KMIP %s when the request carries %s and follows requests in KMIP %s' % (
                                              op.name, vstr(SPEC_OP_MIN[op]), vstr(v2), hname, ', '.join(wit['earlier_versions_on_this_engine']) or '(none)'))
                        if op == OP.QUERY and it is not None and kdrv.ok(it):
                            qops = [o if isinstance(o, OP) else o.value for o in (it['raw'].response_payload.operations or [])]
                            cases.append('CQuery %s %s' % (cver(v2), cp.lst(qops, lambda o: cp.z(o.value))))
                            meta.append(('header-variant-query', hname, v2))
                            late = [o.name for o in qops if SPEC_OP_MIN[o] > v2]
                            if late:
                                wit['advertised'] = [o.name for o in qops]
                                ctx.violation({'class': 'query-advertises-later-op', 'op': late[0], 'version': vstr(v2)}, wit,
                                              'Query under KMIP %s (header fields: %s) advertises %s, introduced later' % (vstr(v2), hname, late[0]))
                        if op == OP.GET_ATTRIBUTE_LIST and it is not None and kdrv.ok(it):
                            names = list(it['raw'].response_payload.attribute_names)
                            for n in names:
                                if SPEC_ATTR_MIN.get(n, (1, 0)) > v2 or (n in SPEC_ATTR_REMOVED and v2 >= SPEC_ATTR_REMOVED[n]):
                                    wit['reported'] = names
                                    ctx.violation({'class': 'attr-reported', 'attribute': n, 'version': vstr(v2)}, wit,
                                                  'attribute %r is reported under KMIP %s (header fields: %s) although that version does not have it' % (n, vstr(v2), hname))
                                    break
                if v2 >= (1, 1):
                    for client in clients:
                        r = eng.request([kdrv.discover_versions(client)], version=v2)
                        it = r['items'][0]
                        if kdrv.ok(it):
                            ans = [(p.major, p.minor) for p in it['raw'].response_payload.protocol_versions]
                            cases.append('CDiscover %s %s' % (cp.lst(client, cver), cp.lst(ans, cver)))
                            meta.append(('discover-seq', v1, v2, client))
                            if any(not (x > y) for x, y in zip(ans, ans[1:])) or any(a not in SUPPORTED or (client and a not in client) for a in ans):
                                ctx.violation({'class': 'discover-versions', 'version': vstr(v2)}, {'version': v2, 'client_list': client, 'answer': ans},
                                              'DiscoverVersions answer is not a newest-first list of accepted versions')
        finally:
            sc.close()


FRESH_QUERY = {}


# ====================================================================================== D. attributes
def attr_object(name):
    if '#' in name:                      # 'State#1': the attribute with an explicit index
        base, ix = name.split('#')
        a = attr_object(base)
        return kdrv.raw_attr(base, a.attribute_value, int(ix))
    return _attr_object(name)


def _attr_object(name):
    """An Attribute carrying `name`; a well-typed value where the engine can store one."""
    try:
        if name == 'Name':
            return kdrv.attr('NAME', kdrv.name_value('n-%d' % (abs(hash(name)) % 1000)), 0)
        if name == 'Cryptographic Algorithm':
            return kdrv.attr('CRYPTOGRAPHIC_ALGORITHM', enums.CryptographicAlgorithm.AES)
        if name == 'Cryptographic Length':
            return kdrv.attr('CRYPTOGRAPHIC_LENGTH', 256)
        if name == 'Cryptographic Usage Mask':
            return kdrv.attr('CRYPTOGRAPHIC_USAGE_MASK', [M.ENCRYPT, M.DECRYPT])
        if name == 'Operation Policy Name':
            return kdrv.attr('OPERATION_POLICY_NAME', 'default')
        if name == 'Sensitive':
            return kdrv.attr('SENSITIVE', True)
        if name == 'Object Group':
            return kdrv.attr('OBJECT_GROUP', 'grp', 0)
    except Exception:
        pass
    return kdrv.raw_attr(name, primitives.TextString('x'))


def locate_filter(name):
    if '#' in name:
        return attr_object(name)
    if name == 'Fresh':
        return kdrv.raw_attr(name, primitives.Boolean(True, tag=enums.Tags.FRESH))
    if name == 'Name':
        return kdrv.attr('NAME', kdrv.name_value('k1'), 0)
    return attr_object(name)


def template_ops(sc, attrs):
    base = kdrv.sym_attrs(enums.CryptographicAlgorithm.AES, 256, (M.ENCRYPT, M.DECRYPT))
    names = [a.attribute_name.value for a in attrs]
    def merged():
        return [b for b in base if b.attribute_name.value not in names] + list(attrs)
    yield 'Create', kdrv.create(attrs=merged())
    yield 'Register', kdrv.register(attrs=list(attrs))
    yield 'CreateKeyPair.common', kdrv.create_key_pair(common=[kdrv.attr('CRYPTOGRAPHIC_ALGORITHM', enums.CryptographicAlgorithm.RSA),
                                                               kdrv.attr('CRYPTOGRAPHIC_LENGTH', 1024)] + [
        a for a in attrs if a.attribute_name.value not in ('Cryptographic Algorithm', 'Cryptographic Length')])
    yield 'CreateKeyPair.private', kdrv.create_key_pair(private=list(attrs))
    yield 'CreateKeyPair.public', kdrv.create_key_pair(public=list(attrs))
    yield 'DeriveKey', kdrv.derive_key([sc.sym], enums.DerivationMethod.HMAC, attrs=merged(), params=cattrs.DerivationParameters(
        cryptographic_parameters=kdrv.crypto_params(hashing_algorithm=enums.HashingAlgorithm.SHA_256), derivation_data=b'abc'))


def attribute_matrix(ctx, cases, meta):
    rng = ctx.subrng('attrs')
    quick = ctx.tier == 'quick'
    table = list(spolicy.AttributePolicy(contents.ProtocolVersion(1, 0))._attribute_rule_sets.keys())
    extra = ['Bogus Attribute', 'x-custom', 'Description', 'Always Sensitive', 'Key Value Present']
    for name in table + extra:
        if name not in SPEC_ATTR_MIN:
            SPEC_ATTR_MIN.setdefault(name, (1, 0))
    singles = [[n] for n in table + extra]
    multis = [[rng.choice(table + extra) for _ in range(rng.randrange(2, 5))] for _ in range(12 if quick else 250)]
    multis += [['Name', 'Sensitive'], ['Sensitive', 'Fresh'], ['Fresh', 'Sensitive'], ['Cryptographic Algorithm', 'Bogus Attribute', 'Sensitive']]
    # corpus: the multiplicity rules of the same walk decide when they come first (thorough tier, seed 2, 2026-09-26)
    multis = [['Certificate Identifier', 'Certificate Identifier', 'X.509 Certificate Identifier'], ['State', 'State', 'Sensitive'],
              ['Sensitive', 'State', 'State'], ['Link', 'Link', 'Sensitive'], ['Name', 'Name', 'Fresh'], ['State#1', 'Sensitive'],
              ['Sensitive', 'State#1'], ['Link#2', 'Link', 'Fresh'], ['Fresh', 'Fresh'], ['Bogus Attribute', 'Bogus Attribute']] + multis
    for v in SUPPORTED:
        sc = Scene(ctx)
        eng = sc.eng
        seen_gate = []            # [(template object, 'TOk' | ('TUnsupported', name) | 'TOther')] in processing order
        orig = eng.engine._process_template_attribute

        def spy(ta, _orig=orig):
            try:
                out = _orig(ta)
            except Exception as e:
                m = re.match(r'^The (.*) attribute is unsupported\.$', str(e))
                seen_gate.append((ta, ('TUnsupported', m.group(1)) if m and type(e).__name__ == 'InvalidField' else 'TOther'))
                raise
            seen_gate.append((ta, 'TOk'))
            return out
        eng.engine._process_template_attribute = spy
        try:
            for names in singles + multis:
                attrs = [attr_object(n) for n in names]
                full = len(names) == 1 or not quick
                for label, req in template_ops(sc, attrs):
                    if not full and label not in ('Create', 'Register'):
                        continue
                    if len(names) == 1 and quick and label.startswith('CreateKeyPair.p') and SPEC_ATTR_MIN[names[0]] <= (1, 0) \
                            and names[0] not in SPEC_ATTR_REMOVED:
                        continue     # RSA generation is the slow part; the gated names are what matters here
                    del seen_gate[:]
                    before = eng.dump()
                    r = eng.request([req], version=v)
                    after = eng.dump()
                    it = r['items'][0]
                    ours = template_of(label, req)
                    seen = [res for ta, res in seen_gate if ta is ours]
                    if not seen:
                        ctx.count('template.%s.not-reached' % label)      # the handler failed before it looked at our template
                    else:
                        obs = seen[0]
                        items = [(a.attribute_name.value, a.attribute_index is not None,
                                  a.attribute_index is not None and a.attribute_index.value != 0) for a in ours.attributes]
                        cases.append('CTemplate %s %s %s' % (
                            cver(v), cp.lst(items, lambda i: '(%s, %s, %s)' % (cp.string(i[0]), cp.boolean(i[1]), cp.boolean(i[2]))),
                            obs if isinstance(obs, str) else '(TUnsupported %s)' % cp.string(obs[1])))
                        meta.append(('template', v, label, names))
                        ctx.case_seen(('template', v, label, tuple(names)))
                        ctx.count('template.%s.%s' % (label, 'gate-refused' if not isinstance(obs, str) else
                                                      ('multiplicity-refused' if obs == 'TOther' else ('ok' if kdrv.ok(it) else 'failed-later'))))
                    late = [n.split('#')[0] for n in names if SPEC_ATTR_MIN.get(n.split('#')[0], (1, 0)) > v]
                    if late and (kdrv.ok(it) or before != after):
                        ctx.violation({'class': 'attr-accepted', 'op': label, 'attribute': late[0], 'version': vstr(v)},
                                      {'version': v, 'operation': label, 'attribute_names': names, 'result': strip(it), 'store_changed': before != after},
                                      '%s with attribute %r (introduced in KMIP %s) was accepted under KMIP %s' % (
                                          label, late[0], vstr(SPEC_ATTR_MIN[late[0]]), vstr(v)))
        finally:
            sc.close()
    # attribute names used as Locate filters
    sc = Scene(ctx)
    try:
        for v in SUPPORTED:
            for names in singles + multis[:6]:
                filt = [locate_filter(n) for n in names]
                names = [a.attribute_name.value for a in filt]
                r = sc.eng.request([kdrv.locate(filt)], version=v)
                it = r['items'][0]
                m = re.match(r'^The (.*) attribute is unsupported\.$', it['message'] or '')
                refused = m.group(1) if (m and it['reason'] == 'INVALID_FIELD') else None
                cases.append('CLocate %s %s %s' % (cver(v), cp.lst(names, cp.string), cp.option(refused, cp.string)))
                meta.append(('locate-filter', v, names))
                ctx.case_seen(('locate-filter', v, tuple(names)))
                ctx.count('locate.%s' % ('gate-refused' if refused else ('ok' if kdrv.ok(it) else 'failed-later')))
                late = [n for n in names if SPEC_ATTR_MIN.get(n, (1, 0)) > v]
                if late and kdrv.ok(it):
                    ctx.violation({'class': 'attr-accepted', 'op': 'Locate', 'attribute': late[0], 'version': vstr(v),
                                   'site': 'engine.py:_process_locate'},
                                  {'version': v, 'operation': 'Locate', 'filter_attribute_names': names, 'result': strip(it),
                                   'located': (it['payload'] or {}).get('unique_identifiers')},
                                  'Locate with filter attribute %r (introduced in KMIP %s) was accepted and evaluated under KMIP %s' % (
                                      late[0], vstr(SPEC_ATTR_MIN[late[0]]), vstr(v)))
    finally:
        sc.close()
    # what is reported
    sc = Scene(ctx)
    try:
        objs = {'sym': sc.sym, 'priv': sc.priv, 'pub': sc.pub, 'cert': sc.cert, 'spare': sc.spare}
        requests = [[]] + [[n] for n in table + extra[:2]] + [['Sensitive', 'Name', 'Operation Policy Name'], ['State', 'Fresh', 'Sensitive', 'Bogus Attribute']]
        requests += [rng.sample(table, rng.randrange(2, 6)) for _ in range(6 if quick else 60)]
        for oname, uid in objs.items():
            obs = {}
            for v in SUPPORTED:
                r = sc.eng.request([kdrv.get_attribute_list(uid)], version=v)
                obs[('list', v)] = list(r['items'][0]['raw'].response_payload.attribute_names) if kdrv.ok(r['items'][0]) else None
                for k, req in enumerate(requests):
                    r = sc.eng.request([kdrv.get_attributes(uid, req or None)], version=v)
                    obs[(k, v)] = [a.attribute_name.value for a in r['items'][0]['raw'].response_payload.attributes] if kdrv.ok(r['items'][0]) else None
            held = []
            for key, names in obs.items():
                for n in names or []:
                    if n not in held:
                        held.append(n)
            for (k, v), names in obs.items():
                if names is None:
                    ctx.disagreement('c16', {'GetAttributes/GetAttributeList failed': (oname, k, v)})
                    continue
                req = [] if k == 'list' else requests[k]
                collapsed = [n for i, n in enumerate(names) if i == 0 or names[i - 1] != n]
                cases.append('CReported %s %s %s %s' % (cver(v), cp.lst(held, cp.string), cp.lst(req, cp.string), cp.lst(collapsed, cp.string)))
                meta.append(('reported', oname, k, v))
                ctx.case_seen(('reported', oname, k, v, tuple(collapsed)))
                ctx.count('reported.%s' % ('GetAttributeList' if k == 'list' else 'GetAttributes'))
                for n in names:
                    if SPEC_ATTR_MIN.get(n, (1, 0)) > v or (n in SPEC_ATTR_REMOVED and v >= SPEC_ATTR_REMOVED[n]):
                        ctx.violation({'class': 'attr-reported', 'attribute': n, 'version': vstr(v)},
                                      {'version': v, 'object': oname, 'operation': 'GetAttributeList' if k == 'list' else 'GetAttributes',
                                       'requested': req, 'reported': names},
                                      'attribute %r is reported under KMIP %s although that version does not have it' % (n, vstr(v)))
    finally:
        sc.close()


def template_of(label, req):
    p = req[1]
    if label in ('Create', 'Register', 'DeriveKey'):
        ta = p.template_attribute
    elif label == 'CreateKeyPair.common':
        ta = p.common_template_attribute
    elif label == 'CreateKeyPair.private':
        ta = p.private_key_template_attribute
    else:
        ta = p.public_key_template_attribute
    return ta


def acceptance_cases(ctx, cases, meta):
    rng = ctx.subrng('accept')
    sc = Scene(ctx)
    try:
        vs = SUPPORTED + UNSUPPORTED + [(rng.randrange(-2, 5), rng.randrange(-2, 30)) for _ in range(40)]
        hvs = header_variants(sc.eng)
        # an accepted request in a supported version before each probe: the engine must not carry anything over
        probes = [(v, hv, prev) for v in vs for hv in hvs for prev in ((1, 4),)] + [(v, hvs[1], prev) for v in UNSUPPORTED for prev in SUPPORTED]
        for v, (hname, hkw), prev in probes:
            sc.eng.request([kdrv.query()], version=prev)
            before = sc.eng.dump()
            r = sc.eng.request([kdrv.query()], version=v, **hkw)
            acc = r['error'] is None
            cases.append('CAccept %s %s' % (cver(v), cp.boolean(acc)))
            meta.append(('accept', v, hname, prev))
            ctx.case_seen(('accept', v, hname, prev))
            ctx.count('accept.header-%s' % hname)
            if acc:
                echo_oracle(ctx, v, [OP.QUERY], r)
            if not acc and (r['error']['reason'] != 'INVALID_MESSAGE' or r['error']['message'] != 'KMIP %d.%d is not supported by the server.' % v
                            or before != sc.eng.dump()):
                ctx.violation({'class': 'unsupported-version', 'version': vstr(v)}, {'version': v, 'optional_header_fields': hname, 'previous_request_version': prev, 'error': r['error']},
                              'unsupported version not refused with the InvalidMessage of _set_protocol_version')
            if acc != (v in SUPPORTED):
                ctx.violation({'class': 'version-acceptance', 'version': vstr(v)}, {'version': v, 'optional_header_fields': hname, 'previous_request_version': prev, 'accepted': acc},
                              'KMIP %s is %s, the specification versions the server implements are %s' % (
                                  vstr(v), 'accepted' if acc else 'refused', ', '.join(vstr(x) for x in SUPPORTED)))
    finally:
        sc.close()


def describe(meta_i, case):
    return {'case': meta_i, 'coq': case[:600]}


def run(ctx):
    ctx.cov['rule'] = (
        'operation x version: all %d members of enums.Operation under 6 supported and %d unsupported versions (single requests, '
        'header-level refusals, STOP/CONTINUE batches); attribute x version: every name of the rule table (+5 foreign names) in the '
        'templates of Create/Register/CreateKeyPair/DeriveKey and in GetAttributes/GetAttributeList answers for 5 stored objects; '
        'Query per version; DiscoverVersions per version and client list (fixed + seeded); ProtocolVersion / float(str()) comparisons on a '
        'grid; payload classes with version-conditional fields written and read under every version; whole requests through KmipSession. '
        'A case is distinct by (kind, version, operation/attribute names/client list/class+tag).' % (len(list(OP)), len(UNSUPPORTED)))
    ctx.regen(only=['attrrules', 'versions', 'enums', 'schemas'])
    ctx.prove('props/C16.v')
    unc = ctx.model_output('From PK Require Import Version.SchemaFields.\nFrom Coq Require Import String.\nOpen Scope string_scope.\n',
                           'SchemaFields.schema_class_minver_uncovered')
    ctx.cov['schema_class_minver_uncovered'] = unc
    if not re.search(r'=\s*(nil|\[\s*\])', unc):
        ctx.notes.append('class-level version refusals of gen/Schemas.v whose class Version/Spec.v (SpecClassVersions) does not list '
                         '(not compared with the specification, to be decided): ' + unc[:600])
    cases, meta = [], []
    guarded(ctx, 'comparison_cases', comparison_cases, ctx, cases, meta)
    guarded(ctx, 'acceptance_cases', acceptance_cases, ctx, cases, meta)
    advertised = guarded(ctx, 'operation_matrix', operation_matrix, ctx, cases, meta) or {}
    guarded(ctx, 'query_discover_cases', query_discover_cases, ctx, cases, meta, advertised)
    guarded(ctx, 'query_sequences', query_sequences, ctx, cases, meta)
    guarded(ctx, 'attribute_matrix', attribute_matrix, ctx, cases, meta)
    guarded(ctx, 'field_cases', c16_fields.field_cases, ctx, cases, meta)
    guarded(ctx, 'session_cases', c16_session.session_cases, ctx, cases, meta)
    guarded(ctx, 'wire_field_cases', c16_fields.wire_field_cases, ctx, cases, meta)
    guarded(ctx, 'mixed_version_cases', c16_session.mixed_version_cases, ctx, cases, meta)
    guarded(ctx, 'answer_path_cases', c16_session.answer_path_cases, ctx, cases, meta)
    ctx.log('%d correspondence cases built' % len(cases))
    bad = ctx.run_cases('c16', HEADER, cases, 'check_vcase',
                        what='Version.v / Fields.v model vs KmipEngine, KmipSession, payload classes, ProtocolVersion')
    for i in bad[:20]:
        model = ctx.model_output(HEADER, 'model_view (%s)' % cases[i]) if len(cases[i]) < 20000 else None
        ctx.disagreement('c16', describe(meta[i], cases[i]), model_says=model, impl_says=cases[i][:4000])
    for k in ((0, len(cases) // 3, 2 * len(cases) // 3, len(cases) - 1) if cases else ()):
        ctx.sample({'case': meta[k], 'coq': cases[k][:300]})
    ctx.cov['trusted_extra'] = [
        'translate/gen_versions.py (ast over engine.py, payload classes; fails closed) and gen_attrrules.py (reflection)',
        'harness/kdrv.py + harness/c16*.py drivers and message classification (gate message patterns)',
        'float(str(version)) modelled as exact decimal comparison (equal to the double comparison for <= 15 significant digits)',
        'hand-written SpecMinVersions / SpecFieldVersions tables (Version/Spec.v) and SPEC_* tables of harness/c16.py, from the KMIP 1.0-2.0 specifications']


FAMILY = {'query-answer': 'ops', 'query-answer-depends-on-history': 'ops', 'answer-not-in-request-version': 'session', 'op-gate': 'ops', 'echo': 'ops', 'unsupported-version': 'ops', 'query-advertises-unavailable': 'ops',
          'query-advertises-later-op': 'ops', 'version-acceptance': 'accept', 'discover-versions': 'discover',
          'attr-accepted': 'attrs', 'attr-reported': 'attrs', 'field-sent': 'fields', 'field-accepted': 'fields',
          'echo-wire': 'session'}


def replay(ctx, rec):
    """bin/check C16 --replay <file>: re-evaluate the direct oracle of the recorded violation's family on the current tree."""
    sig = rec.get('signature') or {}
    fam = FAMILY.get(sig.get('class'))
    cases, meta = [], []
    if fam in (None, 'accept'):
        acceptance_cases(ctx, cases, meta)
    if fam in (None, 'ops', 'discover'):
        adv = operation_matrix(ctx, cases, meta)
        query_discover_cases(ctx, cases, meta, adv)
        query_sequences(ctx, cases, meta)
    if fam in (None, 'attrs'):
        attribute_matrix(ctx, cases, meta)
    if fam in (None, 'fields'):
        c16_fields.field_cases(ctx, cases, meta)
        c16_fields.wire_field_cases(ctx, cases, meta)
    if fam in (None, 'session', 'ops'):
        c16_session.session_cases(ctx, cases, meta)
        c16_session.mixed_version_cases(ctx, cases, meta)
        c16_session.answer_path_cases(ctx, cases, meta)
    hits = [v for v in ctx.violations if all(v['signature'].get(k) == x for k, x in sig.items())] if sig else list(ctx.violations)
    known = sorted(ctx.known_hits)
    if hits:
        print('REPRODUCED property=C16 %s' % hits[0]['what'])
        print('input: %r' % (hits[0]['witness'],))
        return 1
    if ctx.violations:
        print('NOT-REPRODUCED-AS-RECORDED property=C16; other violation: %s' % ctx.violations[0]['what'])
        return 1
    print('NOT-REPRODUCED property=C16 (direct oracle of family %r passes; known findings seen: %s)' % (fam, known))
    return 0
